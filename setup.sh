#!/bin/bash
# Build the whole Coq development from files on disk (offline). gen/*.v is regenerated from /repo first.
cd "$(dirname "$0")"
export PYTHONPATH=/repo/src:/verif/py PYTHONHASHSEED=0 PYTHONDONTWRITEBYTECODE=1
exec /venv/bin/python py/mk.py all
