#!/bin/bash
D="$(cd "$(dirname "$0")" && pwd)"
cd "$D"
export PFST_REPO="${PFST_REPO:-/repo}"
PYTHONPATH="$PFST_REPO/src:$D/py" exec /venv/bin/python py/mk.py "$@"
