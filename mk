#!/bin/bash
cd "$(dirname "$0")"
PYTHONPATH=/repo/src:/verif/py exec /venv/bin/python py/mk.py "$@"
