#!/bin/bash
# run every claimed check (quick by default) on the current /repo; prints one summary line per check
cd "$(dirname "$0")"
TIER=${1:-quick}
ids=$(python3 -c "import json; print(' '.join(c['property_id'] for c in json.load(open('MANIFEST.json'))['checks']))")
rc=0
for id in $ids; do
  out=$(./check $id --tier $TIER 2>&1); code=$?
  echo "$out" | grep -E "^\[$id\]|VIOLATION|KNOWN-FINDING" | cut -c1-220
  [ $code -ne 0 ] && rc=1
done
exit $rc
