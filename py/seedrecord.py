"""usage: seedrecord.py <ID> <k> [tier] : copies /tmp/seed_out/<ID>/<k> to /verif/seeded/<ID>_<k>, runs seedtest, records result in meta.json"""
import json, os, shutil, subprocess, sys
pid, k = sys.argv[1], sys.argv[2]
tier = sys.argv[3] if len(sys.argv) > 3 else 'quick'
src = f'/tmp/seed_out/{pid}/{k}'
dst = f'/verif/seeded/{pid}_{k}'
os.makedirs(dst, exist_ok=True)
for f in os.listdir(src):
    shutil.copy(os.path.join(src, f), dst)
out = subprocess.run(['/verif/py/seedtest.sh', dst, pid, tier], capture_output=True, text=True).stdout
print(out[-1500:])
line = [l for l in out.splitlines() if l.startswith('demo:')]
m = json.load(open(dst + '/meta.json'))
m['confirmed'] = {'result': line[0] if line else out[-200:], 'ran': f'py/seedtest.sh seeded/{pid}_{k} {pid} {tier}'}
json.dump(m, open(dst + '/meta.json', 'w'), indent=1)
