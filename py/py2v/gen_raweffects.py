"""Regenerate coq/gen/RawEffects.v: the effect paths of the raw reparse (fst_raw.py: _reparse_raw, _reparse_raw_stmtlike,
_reparse_raw_base). Every statement/expression of the three functions is turned into atoms

    APure   - reads / builds scratch values            ACopy - mutates only the scratch copy (copy_root, copy_lines, copya)
    AMut    - mutates the live tree or its source      ARaise - may raise (parsers, explicit raise, assert)

and all control-flow paths are enumerated (if/else both ways, try bodies with every raising atom caught by a matching
handler, loop bodies once, calls to the other two functions inlined). Classification is by explicit tables and fails
closed: a call, assignment target or statement kind not listed here is a TranslationError. The Coq side decides
`forallb ordered raw_paths = true` (no ARaise after an AMut on any path) and proves what that gives."""

from __future__ import annotations

import ast
import hashlib
import os

from lib.common import COQ, SRC, write_if_changed
from py2v.pyfun import TranslationError

FUNCS = ('_reparse_raw_base', '_reparse_raw_stmtlike', '_reparse_raw')

# receivers that denote scratch objects (mutating them does not touch the live tree)
SCRATCH = {'copy_root', 'copy', 'copya', 'copy_lines', 'a', 'copy_parent', 'copy_parenta'}          # `a` is only used as loop variable over walk(copy.a) / the copy path
LIVE = {'self', 'root', 'stmtlike', 'stmtlikea', 'parent', 'parenta'}

# module-level helpers that are called as pure predicates: checked to be pure here (only reads: no attribute / subscript stores, no calls but len / getattr / str.encode() / each other)
PURE_HELPERS = {'_is_header_scaffold', '_is_scaffold_pass'}      # the second one indexes the scratch copy's lines with the line number of a node parsed from exactly those lines
PURE_CALLS = {'FST', 'bistr', 'len', 'getattr', 'isinstance', 'walk', 'parent_stmtlike', 'is_elif', '_loc_block_header_end', '_get_block_indent', 'c2b', 'strip', 'lstrip',
              'startswith', 'index', 'next', 'bool', 'child_path', 'Pass', '_code_as_lines', 'child_from_path', 'join', 'compare_asts', 'zip', 'parents', 'endswith',
              'next_frag'} | PURE_HELPERS        # next_frag: common.py text scan over the lines (regex matches, no stores): read-only
RAISE_CALLS = {'fromsrc', 'parse_match_case', 'parse_ExceptHandler'}
MUT_METHODS = {'_put_src', '_set_ast', '_touchall', '_touch', '_set_end_pos', '_unmake_fst_tree', 'set', 'append'}   # AMut or ACopy by receiver
SETATTR = 'setattr'


def recv_name(e):
    while isinstance(e, (ast.Attribute, ast.Subscript, ast.Call)):
        e = e.value if not isinstance(e, ast.Call) else e.func
    if isinstance(e, ast.NamedExpr):
        return recv_name(e.target)
    return e.id if isinstance(e, ast.Name) else None


class Paths:
    def __init__(self, funcs):
        self.funcs = funcs

    # ---- expressions -> atoms in evaluation order
    def expr(self, e) -> list[str]:
        out = []
        if e is None:
            return out
        if isinstance(e, ast.Call):
            for a in e.args:
                out += self.expr(a.value if isinstance(a, ast.Starred) else a)
            for k in e.keywords:
                out += self.expr(k.value)
            f = e.func
            name = f.attr if isinstance(f, ast.Attribute) else f.id if isinstance(f, ast.Name) else None
            if isinstance(f, ast.Attribute):
                out += self.expr(f.value)
            if name in FUNCS:
                return out + [('CALL', name)]
            if isinstance(f, ast.Call):     # (parse_a if c else parse_b)(...) style is written with IfExp below
                raise TranslationError(f'line {e.lineno}: call of a call')
            if isinstance(f, ast.IfExp):
                names = {f.body.id, f.orelse.id} if isinstance(f.body, ast.Name) and isinstance(f.orelse, ast.Name) else None
                if names and names <= RAISE_CALLS:
                    return out + self.expr(f.test) + ['ARaise']
                raise TranslationError(f'line {e.lineno}: conditional callee not classified')
            if name is None:
                raise TranslationError(f'line {e.lineno}: callee not a name')
            if name in RAISE_CALLS:
                return out + ['ARaise']
            if name in MUT_METHODS and isinstance(f, ast.Attribute):
                r = recv_name(f.value)
                if r in SCRATCH or (name == 'set' and r in SCRATCH):
                    return out + ['ACopy']
                if r in LIVE:
                    return out + ['AMut']
                raise TranslationError(f'line {e.lineno}: receiver {r!r} of {name} not classified')
            if name == SETATTR:
                r = recv_name(e.args[0])
                if r in SCRATCH:
                    return out + ['ACopy']
                if r in LIVE:
                    return out + ['AMut']
                raise TranslationError(f'line {e.lineno}: setattr target {r!r} not classified')
            if name in PURE_CALLS:
                return out + ['APure']
            raise TranslationError(f'line {e.lineno}: call {name!r} not classified')
        if isinstance(e, (ast.BoolOp,)):
            for v in e.values:
                out += self.expr(v)
            return out
        if isinstance(e, ast.IfExp):
            return self.expr(e.test) + self.expr(e.body) + self.expr(e.orelse)
        for c in ast.iter_child_nodes(e):
            if isinstance(c, ast.expr):
                out += self.expr(c)
            elif isinstance(c, ast.comprehension):
                out += self.expr(c.iter)
                for i in c.ifs:
                    out += self.expr(i)
            elif isinstance(c, ast.keyword):
                out += self.expr(c.value)
        return out

    def target(self, t, lineno) -> list[str]:
        if isinstance(t, ast.Name):
            return []
        if isinstance(t, ast.Tuple):
            return [x for e in t.elts for x in self.target(e, lineno)]
        if isinstance(t, (ast.Attribute, ast.Subscript)):
            r = recv_name(t)
            if r in SCRATCH:
                return ['ACopy']
            if r in LIVE:
                return ['AMut']
            raise TranslationError(f'line {lineno}: assignment target {ast.unparse(t)!r} not classified')
        raise TranslationError(f'line {lineno}: target kind {type(t).__name__}')

    # ---- statements -> list of (atoms, terminated: None|'return'|'raise:<Name>')
    def block(self, stmts):
        paths = [([], None)]
        for s in stmts:
            new = []
            for atoms, term in paths:
                if term is not None:
                    new.append((atoms, term))
                    continue
                for a2, t2 in self.stmt(s):
                    new.append((atoms + a2, t2))
            paths = list(dict.fromkeys((tuple(x for x in a if x not in ('APure', 'ACopy')), t) for a, t in new))
            paths = [(list(a), t) for a, t in paths]
            if len(paths) > 20000:
                raise TranslationError('path explosion')
        return paths

    def stmt(self, s):
        if isinstance(s, ast.Expr):
            if isinstance(s.value, ast.Constant):
                return [([], None)]
            return [(self.expr(s.value), None)]
        if isinstance(s, ast.Assign) and len(s.targets) == 1 and isinstance(s.targets[0], ast.Name):
            v = s.targets[0].id
            if isinstance(s.value, ast.Constant) and isinstance(s.value.value, bool):
                return [([('SETC', v, s.value.value)], None)]
            if isinstance(s.value, ast.Call) and isinstance(s.value.func, ast.Name) and s.value.func.id in FUNCS:
                at = self.expr(s.value)
                assert at[-1] == ('CALL', s.value.func.id)
                return [(at[:-1] + [('CALL', s.value.func.id, v)], None)]
        if isinstance(s, (ast.Assign, ast.AnnAssign, ast.AugAssign)):
            ts = s.targets if isinstance(s, ast.Assign) else [s.target]
            at = self.expr(s.value)
            for t in ts:
                at += self.target(t, s.lineno)
            return [(at, None)]
        if isinstance(s, ast.Return):
            if isinstance(s.value, ast.Constant) and isinstance(s.value.value, bool):
                return [([], f'return:{s.value.value}')]
            return [(self.expr(s.value), 'return')]
        if isinstance(s, ast.Raise):
            nm = None
            if s.exc is not None:
                e = s.exc.func if isinstance(s.exc, ast.Call) else s.exc
                nm = e.id if isinstance(e, ast.Name) else None
                if nm is None:
                    raise TranslationError(f'line {s.lineno}: raise of non-name')
            pre = [x for a in (s.exc.args if isinstance(s.exc, ast.Call) else []) for x in self.expr(a)]
            return [(pre + ['ARaise'], f'raise:{nm}')]
        if isinstance(s, ast.Assert):
            return [(self.expr(s.test) + ['ARaise'], None)]
        if isinstance(s, ast.If):
            t = self.expr(s.test)
            tb, te = [], []
            tst = s.test
            neg = False
            if isinstance(tst, ast.UnaryOp) and isinstance(tst.op, ast.Not):
                tst, neg = tst.operand, True
            if isinstance(tst, ast.Name):
                tb, te = [('ASSUME', tst.id, not neg)], [('ASSUME', tst.id, neg)]
            out = []
            for a, tm in self.block(s.body):
                out.append((t + tb + a, tm))
            for a, tm in self.block(s.orelse) if s.orelse else [([], None)]:
                out.append((t + te + a, tm))
            return out
        if isinstance(s, ast.For):
            it = self.expr(s.iter)
            out = [(it, None)]      # zero iterations
            for a, tm in self.block(s.body):
                if tm == 'break':
                    tm = None
                out.append((it + a, tm))
            return out
        if isinstance(s, ast.Try):
            if s.finalbody or s.orelse:
                raise TranslationError(f'line {s.lineno}: try with else/finally not supported')
            out = []
            for a, tm in self.block(s.body):
                out.append((a, tm))           # nothing raised inside (ARaise atoms stay as "may raise and propagate" unless caught below)
                # every raising atom may instead be caught by a handler
                for i, x in enumerate(a):
                    if x == 'ARaise' or (isinstance(x, tuple) and x[0] == 'CALL'):
                        for h in s.handlers:
                            for ha, htm in self.block(h.body):
                                pre = a[:i] + ([('CALLRAISED', x[1])] if isinstance(x, tuple) else [])
                                out.append((pre + ha, htm if htm != 'raise:None' else 'raise:None'))
            return out
        if isinstance(s, ast.Pass):
            return [([], None)]
        raise TranslationError(f'line {s.lineno}: statement kind {type(s).__name__} not supported')


_EXPAND_CACHE: dict = {}


def expand(fname, fpaths, depth=0):
    if fname in _EXPAND_CACHE:
        return _EXPAND_CACHE[fname]
    r = _expand(fname, fpaths, depth)
    r = [(list(a), t) for a, t in dict.fromkeys((tuple(a), t) for a, t in r)]
    _EXPAND_CACHE[fname] = r
    return r


def _expand(fname, fpaths, depth=0):
    """inline calls: a path with ('CALL', g[, var]) splits into g's normal paths (continue, var := returned bool if known)
    and g's raising paths (terminate); ('CALLRAISED', g) takes only g's raising prefixes with the raise caught (continue);
    ('SETC', var, b) / ('ASSUME', var, b) track boolean flags so that infeasible combinations are dropped"""
    if depth > 4:
        raise TranslationError('call depth')
    out = []
    for atoms, term in fpaths[fname]:
        partial = [([], None, ())]     # atoms, term, env (tuple of (var, bool))
        for x in atoms:
            nxt = []
            for pa, pt, env in partial:
                if pt is not None:
                    nxt.append((pa, pt, env))
                    continue
                e = dict(env)
                if isinstance(x, tuple) and x[0] == 'SETC':
                    e[x[1]] = x[2]
                    nxt.append((pa, None, tuple(sorted(e.items()))))
                elif isinstance(x, tuple) and x[0] == 'ASSUME':
                    if x[1] in e and e[x[1]] != x[2]:
                        continue        # infeasible
                    e[x[1]] = x[2]
                    nxt.append((pa, None, tuple(sorted(e.items()))))
                elif isinstance(x, tuple) and x[0] == 'CALL':
                    g = x[1]
                    var = x[2] if len(x) > 2 else None
                    for ga, gt in expand(g, fpaths, depth + 1):
                        if gt is not None and gt.startswith('raise'):
                            nxt.append((pa + ga, 'raise:inner', env))
                        else:
                            e2 = dict(env)
                            if var is not None:
                                if gt in ('return:True', 'return:False'):
                                    e2[var] = gt == 'return:True'
                                else:
                                    e2.pop(var, None)
                            nxt.append((pa + ga, None, tuple(sorted(e2.items()))))
                elif isinstance(x, tuple) and x[0] == 'CALLRAISED':
                    for ga, gt in expand(x[1], fpaths, depth + 1):
                        for i in [i for i, y in enumerate(ga) if y == 'ARaise']:
                            nxt.append((pa + ga[:i], None, env))
                else:
                    nxt.append((pa + [x], None, env))
            partial = [(list(a), t, en) for a, t, en in dict.fromkeys((tuple(a), t, en) for a, t, en in nxt)]
            if len(partial) > 60000:
                raise TranslationError('path explosion on inlining')
        for pa, pt, _ in partial:
            out.append((pa, pt if pt is not None else term))
    return out


def generate() -> list[str]:
    fn = os.path.join(SRC, 'fst_raw.py')
    src = open(fn).read()
    tree = ast.parse(src)
    defs = {n.name: n for n in tree.body if isinstance(n, ast.FunctionDef)}
    missing = [f for f in FUNCS if f not in defs]
    if missing:
        raise TranslationError(f'fst_raw.py: functions not found: {missing}')
    for h in sorted(PURE_HELPERS):
        if h not in defs:
            raise TranslationError(f'fst_raw.py: pure helper {h} not found')
        for n in ast.walk(defs[h]):
            if isinstance(n, ast.Call) and not (isinstance(n.func, ast.Name) and (n.func.id in ('len', 'getattr') or n.func.id in PURE_HELPERS)) \
                    and not (isinstance(n.func, ast.Attribute) and n.func.attr == 'encode' and not n.args and not n.keywords):
                raise TranslationError(f'line {n.lineno}: helper {h} assumed pure calls {ast.unparse(n.func)}')
            if isinstance(n, (ast.Assign, ast.AugAssign, ast.AnnAssign, ast.Delete)):
                raise TranslationError(f'line {n.lineno}: helper {h} assumed pure has an assignment statement')
            if isinstance(n, (ast.Attribute, ast.Subscript)) and not isinstance(n.ctx, ast.Load):
                raise TranslationError(f'line {n.lineno}: helper {h} assumed pure stores to {ast.unparse(n)}')
    _EXPAND_CACHE.clear()
    P = Paths(FUNCS)
    fpaths = {f: P.block(defs[f].body) for f in FUNCS}
    full = expand('_reparse_raw', fpaths)
    # canonical, deduplicated
    uniq = sorted({tuple(a) for a, _ in full})
    if not uniq or not any('AMut' in p for p in uniq) or not any('ARaise' in p for p in uniq):
        raise TranslationError('degenerate path set (no mutation or no raising atom found)')
    per = {f: sorted({tuple(a) for a, _ in expand(f, fpaths)}) for f in FUNCS}
    hs = hashlib.sha256(repr(uniq).encode()).hexdigest()[:16]
    enc = lambda p: '[' + '; '.join(p) + ']'
    text = ('(* GENERATED by py/py2v/gen_raweffects.py from /repo/src/fst/fst_raw.py -- do not edit *)\n'
            'From Coq Require Import List.\nFrom PF Require Import models.Atomic.\nImport ListNotations.\n\n'
            f'(* all control-flow paths of _reparse_raw with _reparse_raw_stmtlike / _reparse_raw_base inlined, projected on the atoms that matter for ordering (AMut, ARaise): {len(uniq)} distinct sequences *)\n'
            'Definition raw_paths : list (list atom) := [\n  ' + ';\n  '.join(enc(p) for p in uniq) + '].\n\n'
            '(* the statement-level attempt alone (what the fallback in _reparse_raw relies on) *)\n'
            'Definition stmtlike_paths : list (list atom) := [\n  ' + ';\n  '.join(enc(p) for p in per['_reparse_raw_stmtlike']) + '].\n')
    write_if_changed(os.path.join(COQ, 'gen', 'RawEffects.v'), text)
    return [f'{fn}:_reparse_raw/_reparse_raw_stmtlike/_reparse_raw_base effect paths ({len(uniq)}):{hs}']
