"""Regenerate coq/gen/PrecTables.v from astutil.py: the _Precedence enum (with aliases), _PRECEDENCE_NODES,
_PRECEDENCE_NODE_FIELDS and the decision function precedence_require_parens_by_type (if/elif over types and flags).
Fail-closed on any unrecognised shape."""

from __future__ import annotations

import ast
import hashlib
import os

from lib.common import COQ, SRC, write_if_changed
from py2v.pyfun import TranslationError, find_function


def q(s):
    return '"' + s + '"'


def parse_enum(cls: ast.ClassDef) -> dict:
    vals = {}
    n = 0
    for s in cls.body:
        if isinstance(s, ast.Assign) and len(s.targets) == 1 and isinstance(s.targets[0], ast.Name):
            name = s.targets[0].id
            v = s.value
            if isinstance(v, ast.Call) and isinstance(v.func, ast.Name) and v.func.id == 'auto':
                n += 1
                vals[name] = n
            elif isinstance(v, ast.Name) and v.id in vals:
                vals[name] = vals[v.id]
            else:
                raise TranslationError(f'_Precedence.{name}: unsupported member value')
    return vals


def prec_value(e, enum) -> str:
    """_Precedence.X  |  _Precedence.X.next()  | False | True  -> Coq `pv`"""
    if isinstance(e, ast.Constant) and e.value is False:
        return 'PFalse'
    if isinstance(e, ast.Constant) and e.value is True:
        return 'PTrue'
    nxt = 0
    while isinstance(e, ast.Call) and isinstance(e.func, ast.Attribute) and e.func.attr == 'next' and not e.args:
        nxt += 1
        e = e.func.value
    if isinstance(e, ast.Attribute) and isinstance(e.value, ast.Name) and e.value.id == '_Precedence' and e.attr in enum:
        v = enum[e.attr]
        top = max(enum.values())
        for _ in range(nxt):
            v = min(v + 1, top)
        return f'PNum {v}'
    raise TranslationError(f'unsupported precedence value {ast.unparse(e)}')


class DecTr:
    """translate the body of precedence_require_parens_by_type"""

    def __init__(self, enum):
        self.enum = enum

    def cond(self, e) -> str:
        if isinstance(e, ast.Compare) and len(e.ops) == 1 and isinstance(e.ops[0], ast.Is) and isinstance(e.left, ast.Name) \
                and e.left.id in ('parent_type', 'child_type') and isinstance(e.comparators[0], ast.Name):
            return f'(String.eqb {e.left.id} {q(e.comparators[0].id)})'
        if isinstance(e, ast.Compare) and len(e.ops) == 1 and isinstance(e.ops[0], ast.Is) and isinstance(e.left, ast.Name) \
                and e.left.id in ('child_precedence', 'parent_precedence') and isinstance(e.comparators[0], ast.Constant) and e.comparators[0].value is True:
            return f'(pv_is_true {e.left.id})'
        if isinstance(e, ast.UnaryOp) and isinstance(e.op, ast.Not) and isinstance(e.operand, ast.Name) and e.operand.id in ('child_precedence', 'parent_precedence'):
            return f'(negb (pv_truthy {e.operand.id}))'
        if isinstance(e, ast.Call) and ast.unparse(e.func) == 'flags.get' and len(e.args) == 1 and isinstance(e.args[0], ast.Constant):
            return f'(flag_{e.args[0].value} fl)'
        raise TranslationError(f'unsupported condition {ast.unparse(e)}')

    def pexpr(self, e) -> str:
        if isinstance(e, ast.IfExp):
            return f'(if {self.cond(e.test)} then {self.pexpr(e.body)} else {self.pexpr(e.orelse)})'
        return '(' + prec_value(e, self.enum) + ')'

    def block(self, stmts, ind) -> str:
        pad = '  ' * ind
        if not stmts:
            raise TranslationError('decision function falls off the end')
        s, rest = stmts[0], stmts[1:]
        if isinstance(s, ast.Expr) and isinstance(s.value, ast.Constant):
            return self.block(rest, ind)
        if isinstance(s, ast.Assign) and len(s.targets) == 1 and isinstance(s.targets[0], ast.Name):
            name = s.targets[0].id
            v = s.value
            src = ast.unparse(v)
            if name == 'child_precedence' and src == '_PRECEDENCE_NODES.get(child_type, _Precedence.ATOM)':
                return f'{pad}let child_precedence := lookup_node child_type in\n' + self.block(rest, ind)
            if name == 'parent_precedence' and src == '_PRECEDENCE_NODE_FIELDS.get((parent_type, field), _Precedence.TEST)':
                return f'{pad}let parent_precedence := lookup_field parent_type field in\n' + self.block(rest, ind)
            if name in ('child_precedence', 'parent_precedence'):
                return f'{pad}let {name} := {self.pexpr(v)} in\n' + self.block(rest, ind)
            raise TranslationError(f'unsupported assignment {src}')
        if isinstance(s, ast.Assert):
            if ast.unparse(s.test) == 'child_precedence':
                return f'{pad}if negb (pv_truthy child_precedence) then None else\n' + self.block(rest, ind)
            raise TranslationError('unsupported assert')
        if isinstance(s, ast.If):
            c = self.cond(s.test)
            return (f'{pad}if {c} then\n{self.block(s.body + rest, ind + 1)}\n{pad}else\n'
                    f'{self.block(list(s.orelse) + rest, ind + 1)}')
        if isinstance(s, ast.Return):
            v = s.value
            if isinstance(v, ast.Constant) and isinstance(v.value, bool):
                return f'{pad}Some {"true" if v.value else "false"}'
            if ast.unparse(v) == 'child_precedence < parent_precedence':
                return f'{pad}pv_lt child_precedence parent_precedence'
            raise TranslationError(f'unsupported return {ast.unparse(v)}')
        if isinstance(s, ast.Raise):
            return f'{pad}None'
        raise TranslationError(f'unsupported statement {ast.unparse(s)[:80]}')


def generate() -> list[str]:
    path = os.path.join(SRC, 'astutil.py')
    src = open(path).read()
    tree = ast.parse(src)
    enum_cls = next((n for n in tree.body if isinstance(n, ast.ClassDef) and n.name == '_Precedence'), None)
    if enum_cls is None:
        raise TranslationError('_Precedence not found')
    enum = parse_enum(enum_cls)

    def dict_of(name):
        for n in tree.body:
            if isinstance(n, ast.Assign) and isinstance(n.targets[0], ast.Name) and n.targets[0].id == name:
                if not isinstance(n.value, ast.Dict):
                    raise TranslationError(f'{name} is not a dict literal')
                return n
        raise TranslationError(f'{name} not found')
    nodes = dict_of('_PRECEDENCE_NODES')
    fields = dict_of('_PRECEDENCE_NODE_FIELDS')
    node_rows = []
    for k, v in zip(nodes.value.keys, nodes.value.values):
        if not isinstance(k, ast.Name):
            raise TranslationError('unsupported _PRECEDENCE_NODES key')
        node_rows.append((k.id, prec_value(v, enum)))
    field_rows = []
    for k, v in zip(fields.value.keys, fields.value.values):
        if not (isinstance(k, ast.Tuple) and isinstance(k.elts[0], ast.Name) and isinstance(k.elts[1], ast.Constant)):
            raise TranslationError('unsupported _PRECEDENCE_NODE_FIELDS key')
        field_rows.append((k.elts[0].id, k.elts[1].value, prec_value(v, enum)))
    fn = find_function(tree, 'precedence_require_parens_by_type')
    body = DecTr(enum).block(fn.body, 1)
    flags = sorted({n.args[0].value for n in ast.walk(fn) if isinstance(n, ast.Call) and ast.unparse(n.func) == 'flags.get'})
    expected_flags = ['arglike', 'attr_val_int', 'dict_key_None', 'matchas_pat_None']
    if flags != expected_flags:
        raise TranslationError(f'flag set changed: {flags}')
    h = hashlib.sha256((ast.unparse(enum_cls) + ast.unparse(nodes) + ast.unparse(fields) + ast.unparse(fn)).encode()).hexdigest()[:16]
    text = f'''(* GENERATED by py/py2v/gen_prec.py from {path} sha256/16={h} -- do not edit *)
From Coq Require Import List String Bool Arith.
From PF Require Import kernel.PrecBase.
Import ListNotations.
Local Open Scope string_scope.

Definition prec_enum : list (string * nat) := [{'; '.join(f'({q(k)}, {v})' for k, v in enum.items())}].

Definition prec_nodes : list (string * pv) := [
  {(';' + chr(10) + '  ').join(f'({q(k)}, {v})' for k, v in node_rows)}].

Definition prec_node_fields : list (string * string * pv) := [
  {(';' + chr(10) + '  ').join(f'({q(a)}, {q(b)}, {v})' for a, b, v in field_rows)}].

Definition lookup_node (t : string) : pv :=
  match find (fun e => String.eqb (fst e) t) prec_nodes with Some e => snd e | None => PNum {enum['ATOM']} end.
Definition lookup_field (t f : string) : pv :=
  match find (fun e => String.eqb (fst (fst e)) t && String.eqb (snd (fst e)) f) prec_node_fields with Some e => snd e | None => PNum {enum['TEST']} end.

(* precedence_require_parens_by_type: None = the assert / ValueError paths *)
Definition require_parens (child_type parent_type field : string) (fl : flags) : option bool :=
{body}.
'''
    write_if_changed(os.path.join(COQ, 'gen', 'PrecTables.v'), text)
    return [f'{path}:_Precedence,_PRECEDENCE_NODES({len(node_rows)}),_PRECEDENCE_NODE_FIELDS({len(field_rows)}),precedence_require_parens_by_type:{h}']
