"""Regenerate coq/gen/DelimitCalls.v from fst_misc.py:_delimit_node / _parenthesize_grouping and the signature of
fst_core.py:_offset / _put_src: HOW the two delimiters are put - the (tail, head, exclude, offset_excluded) arguments of each
`_put_src` call and the (tail, head, self_) of the `self._offset(*...)` which wraps the opening one.

Fail-closed: the functions must contain exactly the `_put_src` calls of the recognised shapes (closing delimiter put at
the END span first, opening delimiter at the start point inside `self._offset(*self._put_src(...), ...)`), every flag a literal
True / False / None and `exclude` the name `self`; anything else raises TranslationError."""

from __future__ import annotations

import ast
import os

from lib.common import COQ, SRC, write_if_changed
from py2v.pyfun import TranslationError, find_function, region_hash

TRI = {True: 'TTrue', False: 'TFalse', None: 'TNone'}


def _const(n, what, kinds=(bool, type(None))):
    if not isinstance(n, ast.Constant) or not isinstance(n.value, kinds):
        raise TranslationError(f'line {getattr(n, "lineno", "?")}: {what} is not a literal flag: {ast.unparse(n)[:80]}')
    return n.value


def _defaults(fn: ast.FunctionDef, names):
    """literal defaults of the named parameters of fn (positional-or-keyword and keyword-only)"""
    out = {}
    pos = fn.args.posonlyargs + fn.args.args
    for a, d in zip(pos[len(pos) - len(fn.args.defaults):], fn.args.defaults):
        out[a.arg] = d
    for a, d in zip(fn.args.kwonlyargs, fn.args.kw_defaults):
        if d is not None:
            out[a.arg] = d
    res = {}
    for n in names:
        if n not in out:
            raise TranslationError(f'{fn.name}: parameter {n} has no default')
        d = out[n]
        if isinstance(d, ast.Constant) and d.value is ...:
            res[n] = ...
        else:
            res[n] = _const(d, f'default of {fn.name}({n})')
    return res


def _put_call(call: ast.Call, put_defaults):
    """(span names, n_put_lines or None, flags) of one self._put_src(src, ln, col, end_ln, end_col, tail, head, exclude, offset_excluded=)"""
    if not (isinstance(call.func, ast.Attribute) and isinstance(call.func.value, ast.Name) and call.func.value.id == 'self'):
        raise TranslationError(f'line {call.lineno}: _put_src not called on self: {ast.unparse(call)[:100]}')
    a = call.args
    if len(a) != 8 or any(isinstance(x, ast.Starred) for x in a):
        raise TranslationError(f'line {call.lineno}: expected 8 positional arguments: {ast.unparse(call)[:120]}')
    span = tuple(ast.unparse(x) for x in a[1:5])
    tail = _const(a[5], 'tail')
    head = _const(a[6], 'head')
    if not (isinstance(a[7], ast.Name) and a[7].id == 'self'):
        raise TranslationError(f'line {call.lineno}: exclude is not `self`: {ast.unparse(a[7])}')
    oe = put_defaults['offset_excluded']
    for k in call.keywords:
        if k.arg != 'offset_excluded':
            raise TranslationError(f'line {call.lineno}: unexpected keyword {k.arg}')
        oe = _const(k.value, 'offset_excluded', (bool,))
    return span, a[0], dict(tail=tail, head=head, excl=True, oe=oe)


def _extract(fn: ast.FunctionDef, close_span, put_defaults, off_defaults):
    parents = {}
    for p in ast.walk(fn):
        for c in ast.iter_child_nodes(p):
            parents[c] = p
    calls = [n for n in ast.walk(fn) if isinstance(n, ast.Call) and isinstance(n.func, ast.Attribute) and n.func.attr == '_put_src']
    closes, opens = [], []
    for c in calls:
        span, src, flags = _put_call(c, put_defaults)
        if span == close_span:
            par = parents.get(c)
            if not isinstance(par, ast.Expr):
                raise TranslationError(f'{fn.name} line {c.lineno}: the closing put is not a plain statement')
            closes.append((c.lineno, src, flags))
        elif span == ('ln', 'col', 'ln', 'col'):
            st = parents.get(c)
            outer = parents.get(st)
            if not (isinstance(st, ast.Starred) and isinstance(outer, ast.Call) and isinstance(outer.func, ast.Attribute) and outer.func.attr == '_offset'
                    and isinstance(outer.func.value, ast.Name) and outer.func.value.id == 'self' and outer.args == [st]):
                raise TranslationError(f'{fn.name} line {c.lineno}: the opening put is not `self._offset(*self._put_src(...))`')
            inner = dict(off_defaults)
            for k in outer.keywords:
                if k.arg not in ('tail', 'head', 'self_'):
                    raise TranslationError(f'{fn.name} line {c.lineno}: unexpected keyword {k.arg} of the wrapping _offset')
                inner[k.arg] = _const(k.value, k.arg)
            opens.append((c.lineno, src, flags, inner))
        else:
            raise TranslationError(f'{fn.name} line {c.lineno}: unrecognised _put_src span {span}')
    if len(opens) != 1 or not closes:
        raise TranslationError(f'{fn.name}: expected one opening and at least one closing put, found {len(opens)} / {len(closes)}')
    if max(l for l, _, _ in closes) > opens[0][0]:
        raise TranslationError(f'{fn.name}: the closing delimiter is not put before the opening one')
    if len({tuple(sorted(f.items())) for _, _, f in closes}) != 1:
        raise TranslationError(f'{fn.name}: the closing puts (with / without a last-line comment) use different flags')
    return closes[0][2], opens[0][2], opens[0][3]


def _extract_removal(fn: ast.FunctionDef, put_defaults, CLOSE=None, OPEN=None):
    """the deleting puts of _unparenthesize_grouping: `self._put_src(None, <span>, tail[, head[, exclude]])`; spans from the node's end to the end of the closing
    parentheses (all of them, or all but the last) and from the start of the opening ones (all, or all but the first) to the node's start"""
    CLOSE = CLOSE or {('end_ln', 'end_col', 'pend_ln', 'pend_col'), ('end_ln', 'end_col', 'pend_ln', 'pend_col - 1')}
    OPEN = OPEN or {('pln', 'pcol', 'ln', 'col'), ('pln', 'pcol + 1', 'ln', 'col')}
    closes, opens = [], []
    for c in [n for n in ast.walk(fn) if isinstance(n, ast.Call) and isinstance(n.func, ast.Attribute) and n.func.attr == '_put_src']:
        a = c.args
        if not (isinstance(c.func.value, ast.Name) and c.func.value.id == 'self') or c.keywords or not 6 <= len(a) <= 8 or any(isinstance(x, ast.Starred) for x in a):
            raise TranslationError(f'{fn.name} line {c.lineno}: unrecognised _put_src call {ast.unparse(c)[:120]}')
        if isinstance(a[0], ast.Constant) and a[0].value == ' ' and a[1:3] and ast.unparse(a[1]) == ast.unparse(a[3]) and ast.unparse(a[2]) == ast.unparse(a[4]):
            continue   # a blank put where the removed delimiter would glue two names (zero-width span): not modelled
        if not (isinstance(a[0], ast.Constant) and a[0].value is None):
            raise TranslationError(f'{fn.name} line {c.lineno}: not a deletion: {ast.unparse(c)[:120]}')
        span = tuple(ast.unparse(x) for x in a[1:5])
        tail = _const(a[5], 'tail')
        head = put_defaults['head']
        if len(a) > 6:
            if isinstance(a[6], ast.Name) and a[6].id == 'self':
                head = True   # an FST object in the `head` position: _offset only tests `head and ...`, `head is None`, `head is not False` - an object (no __bool__ / __len__ on FST) reads as True
            else:
                head = _const(a[6], 'head')
        excl = False
        if len(a) > 7:
            if not (isinstance(a[7], ast.Name) and a[7].id == 'self'):
                raise TranslationError(f'{fn.name} line {c.lineno}: exclude is not `self`')
            excl = True
        flags = dict(tail=tail, head=head, excl=excl, oe=put_defaults['offset_excluded'])
        if span in CLOSE:
            closes.append(flags)
        elif span in OPEN:
            opens.append(flags)
        else:
            raise TranslationError(f'{fn.name} line {c.lineno}: unrecognised span {span}')
    key = lambda f: tuple(sorted(f.items()))
    # the `shared` (solo generator argument) branch uses the same two spans: every call on one span must carry the same flags
    if not closes or not opens or len({key(f) for f in closes}) != 1 or len({key(f) for f in opens}) != 1:
        raise TranslationError(f'{fn.name}: closing / opening removals missing or with differing flags: {closes} / {opens}')
    return closes[0], opens[0]


def generate() -> list[str]:
    core_src = open(os.path.join(SRC, 'fst_core.py')).read()
    core = ast.parse(core_src)
    put_defaults = _defaults(find_function(core, '_put_src'), ['tail', 'head', 'exclude', 'offset_excluded'])
    if put_defaults['tail'] is not ... or put_defaults['exclude'] is not None:
        raise TranslationError('_put_src: defaults of tail / exclude changed')
    off_defaults = _defaults(find_function(core, '_offset'), ['tail', 'head', 'self_'])
    misc_src = open(os.path.join(SRC, 'fst_misc.py')).read()
    misc = ast.parse(misc_src)
    fd = find_function(misc, '_delimit_node')
    fg = find_function(misc, '_parenthesize_grouping')
    d_close, d_open, d_inner = _extract(fd, ('end_ln', 'end_from_col', 'end_ln', 'end_to_col'), put_defaults, off_defaults)
    g_close, g_open, g_inner = _extract(fg, ('end_ln', 'end_col', 'end_ln', 'end_col'), put_defaults, off_defaults)
    fu = find_function(misc, '_unparenthesize_grouping')
    if any(isinstance(n, (ast.FunctionDef, ast.ClassDef)) and n.name in ('__bool__', '__len__') for n in ast.walk(ast.parse(open(os.path.join(SRC, 'fst.py')).read()))):
        raise TranslationError('FST defines __bool__ / __len__: an FST object passed as `head` is no longer simply true')
    u_close, u_open = _extract_removal(fu, put_defaults)
    fud = find_function(misc, '_undelimit_node')
    ud_close, ud_open = _extract_removal(fud, put_defaults, {('bn_end_ln', 'bn_end_col', 'end_ln', 'end_col')}, {('ln', 'col', 'b0_ln', 'b0_col')})
    b = lambda v: 'true' if v else 'false'
    pc = lambda f: f'{{| pc_tail := {TRI[f["tail"]]}; pc_head := {TRI[f["head"]]}; pc_excl_self := {b(f["excl"])}; pc_offset_excluded := {b(f["oe"])} |}}'
    ic = lambda f: f'{{| ic_tail := {TRI[f["tail"]]}; ic_head := {TRI[f["head"]]}; ic_self := {b(f["self_"])} |}}'
    text = ('(* GENERATED by py/py2v/gen_delimit.py from /repo/src/fst/fst_misc.py:_delimit_node, _parenthesize_grouping and the\n'
            '   signatures of fst_core.py:_put_src, _offset -- do not edit *)\n'
            'From PF Require Import kernel.OffsetBase.\n\n'
            '(* root._offset(P, tail, head, exclude=self, offset_excluded=) made inside self._put_src(...) *)\n'
            'Record putcall := { pc_tail : tri; pc_head : tri; pc_excl_self : bool; pc_offset_excluded : bool }.\n'
            '(* the self._offset(P.., tail=, head=, self_=) wrapped around the opening put *)\n'
            'Record innercall := { ic_tail : tri; ic_head : tri; ic_self : bool }.\n\n'
            '(* _delimit_node: Tuple / MatchSequence delimiters, which become part of the node *)\n'
            f'Definition delimit_close : putcall := {pc(d_close)}.\n'
            f'Definition delimit_open : putcall := {pc(d_open)}.\n'
            f'Definition delimit_inner : innercall := {ic(d_inner)}.\n\n'
            '(* _parenthesize_grouping: grouping parentheses, which stay outside the node *)\n'
            f'Definition group_close : putcall := {pc(g_close)}.\n'
            f'Definition group_open : putcall := {pc(g_open)}.\n'
            f'Definition group_inner : innercall := {ic(g_inner)}.\n\n'
            '(* _unparenthesize_grouping: the closing parentheses are deleted first (offset point = their end), then the opening ones (offset point = the start of the node) *)\n'
            f'Definition ungroup_close : putcall := {pc(u_close)}.\n'
            f'Definition ungroup_open : putcall := {pc(u_open)}.\n\n'
            '(* _undelimit_node: from the end of the last element to the end of the node, then from the start of the node to the start of the first element *)\n'
            f'Definition undelimit_close : putcall := {pc(ud_close)}.\n'
            f'Definition undelimit_open : putcall := {pc(ud_open)}.\n')
    write_if_changed(os.path.join(COQ, 'gen', 'DelimitCalls.v'), text)
    return [f'{SRC}/fst_misc.py:_delimit_node:{region_hash(misc_src, fd)}', f'{SRC}/fst_misc.py:_parenthesize_grouping:{region_hash(misc_src, fg)}',
            f'{SRC}/fst_misc.py:_unparenthesize_grouping:{region_hash(misc_src, fu)}', f'{SRC}/fst_misc.py:_undelimit_node:{region_hash(misc_src, fud)}']
