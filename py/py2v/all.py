"""Run every translator (regenerate coq/gen/*.v from /repo). Returns {name: provenance list or TranslationError text}."""
import importlib
import traceback

GENERATORS = ['gen_fixups', 'gen_offset', 'gen_options', 'gen_modsites', 'gen_traverse', 'gen_prec', 'gen_raweffects', 'gen_delimit']


def generate_all() -> dict:
    out = {}
    for g in GENERATORS:
        try:
            mod = importlib.import_module(f'py2v.{g}')
            out[g] = mod.generate()
        except Exception as e:
            out[g] = 'ERROR: ' + ''.join(traceback.format_exception_only(type(e), e)).strip()
    return out
