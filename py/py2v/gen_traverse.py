"""Regenerate coq/gen/TraverseTables.v from astutil._SYNTAX_ORDERED_CHILDREN and traverse_next.py / traverse_prev.py.

- children table: per AST class the ordered list of child-bearing fields with their ASDL kind (Req/Opt/Star), or `special`
  for the hand-coded interleaving functions (ClassDef, Call, Dict, Compare, arguments, MatchMapping, default);
- next/prev tables: per (class, field|None) the body of the generated function in a 5-instruction DSL, or `special`.
Fail-closed: a function body outside the recognised statement shapes becomes `special` only if its class is one of the
known special classes; otherwise TranslationError."""

from __future__ import annotations

import ast
import hashlib
import os
import re
import sys

from lib.common import COQ, SRC, write_if_changed
from py2v.pyfun import TranslationError

# `Module.type_ignores` is in the syntax-order list but the stepping functions never visit it (it is empty unless the caller
# parses with type_comments=True, which pfst never does): a documented deviation, excluded from the compatibility check.
IGNORED_CHILD_FIELDS = {('Module', 'type_ignores')}
SPECIAL_CLASSES = {'ClassDef', 'Call', 'Dict', 'Compare', 'arguments', 'MatchMapping'}
PYGE = {'PYGE12': sys.version_info >= (3, 12), 'PYGE13': sys.version_info >= (3, 13), 'PYGE14': sys.version_info >= (3, 14),
        'PYLT12': sys.version_info < (3, 12), 'PYLT13': sys.version_info < (3, 13)}
NODE_TYPES = {'expr', 'stmt', 'mod', 'expr_context', 'boolop', 'operator', 'unaryop', 'cmpop', 'comprehension', 'excepthandler',
              'arguments', 'arg', 'keyword', 'alias', 'withitem', 'match_case', 'pattern', 'type_ignore', 'type_param'}


def field_kinds() -> dict:
    """(class, field) -> 'Req'|'Opt'|'Star' from CPython's own ASDL signatures (ast.X.__doc__)."""
    out = {}
    for name in dir(ast):
        cls = getattr(ast, name)
        if not (isinstance(cls, type) and issubclass(cls, ast.AST)) or not cls.__doc__:
            continue
        m = re.match(r'\w+\((.*)\)$', cls.__doc__.strip().split('\n')[0])
        seen = set()
        if m and m.group(1).strip():
            for part in m.group(1).split(','):
                t, f = part.strip().split()
                k = 'Star' if t.endswith('*') else 'Opt' if t.endswith('?') else 'Req'
                if t.rstrip('*?') in NODE_TYPES:
                    out[(name, f)] = k
                seen.add(f)
        for f in getattr(cls, '_fields', ()):
            if f not in seen:  # 3.12.1 docstrings omit type_params
                if f == 'type_params':
                    out[(name, f)] = 'Star'
                elif f == 'default_value':
                    out[(name, f)] = 'Opt'
    return out


def _pyge(test) -> bool | None:
    if isinstance(test, ast.Name) and test.id in PYGE:
        return PYGE[test.id]
    return None


def parse_children(tree: ast.Module, kinds: dict):
    aliases = {}

    def collect(stmts):
        for s in stmts:
            if isinstance(s, ast.If) and _pyge(s.test) is not None:
                collect(s.body if _pyge(s.test) else s.orelse)
            elif isinstance(s, ast.Assign) and len(s.targets) == 1 and isinstance(s.targets[0], ast.Name) and s.targets[0].id.startswith('_syntax_ordered_children_'):
                aliases[s.targets[0].id] = s.value
            elif isinstance(s, ast.FunctionDef) and s.name.startswith('_syntax_ordered_children_'):
                aliases[s.name] = 'def'
    collect(tree.body)
    table = None
    for s in tree.body:
        if isinstance(s, ast.Assign) and isinstance(s.targets[0], ast.Name) and s.targets[0].id == '_SYNTAX_ORDERED_CHILDREN':
            table = s.value
    if not isinstance(table, ast.Dict):
        raise TranslationError('_SYNTAX_ORDERED_CHILDREN dict literal not found')

    def resolve(v, cls):
        while True:
            if isinstance(v, ast.IfExp) and _pyge(v.test) is not None:
                v = v.body if _pyge(v.test) else v.orelse
            elif isinstance(v, ast.Name):
                if v.id not in aliases:
                    raise TranslationError(f'{cls}: unknown children function {v.id}')
                v = aliases[v.id]
                if v == 'def':
                    return None
            else:
                return v

    def items_of(lam, cls):
        if not isinstance(lam, ast.Lambda):
            raise TranslationError(f'{cls}: children entry is not a lambda')
        body = lam.body
        opt_name = None
        if (isinstance(body, ast.IfExp) and isinstance(body.test, ast.NamedExpr) and isinstance(body.body, ast.List) and isinstance(body.orelse, ast.List)):
            # [.., value, ..] if (value := ast.value) else [.. without value ..]
            opt_name = body.test.target.id
            optf = body.test.value.attr
            with_, without = body.body.elts, body.orelse.elts
            if [ast.unparse(e) for e in with_ if not (isinstance(e, ast.Name) and e.id == opt_name)] != [ast.unparse(e) for e in without]:
                raise TranslationError(f'{cls}: unsupported conditional children list')
            elts = with_
        elif isinstance(body, ast.List):
            elts = body.elts
        elif isinstance(body, ast.Call) and isinstance(body.func, ast.Attribute) and body.func.attr == 'copy' and not body.args:
            elts = [ast.Starred(value=body.func.value)]
        else:
            raise TranslationError(f'{cls}: unsupported children lambda body {ast.unparse(body)[:80]}')
        items = []
        for e in elts:
            if opt_name and isinstance(e, ast.Name) and e.id == opt_name:
                items.append((optf, 'Opt'))
                continue
            star = isinstance(e, ast.Starred)
            if star:
                e = e.value
            if not (isinstance(e, ast.Attribute) and isinstance(e.value, ast.Name) and e.value.id == 'ast'):
                raise TranslationError(f'{cls}: unsupported children element {ast.unparse(e)}')
            f = e.attr
            k = kinds.get((cls, f))
            if star:
                if k not in (None, 'Star'):
                    raise TranslationError(f'{cls}.{f}: starred in children list but ASDL kind is {k}')
                k = 'Star'
            elif k is None:
                if cls.startswith('_'):
                    k = 'Star'
                else:
                    raise TranslationError(f'{cls}.{f}: no ASDL kind known')
            elif k == 'Star':
                raise TranslationError(f'{cls}.{f}: list field used without * in children list')
            items.append((f, k))
        return items

    out = {}
    for k, v in zip(table.keys, table.values):
        cls = k.id
        if not cls.startswith('_') and not hasattr(ast, cls):
            continue  # node class of a newer Python: cannot occur at run time
        r = resolve(v, cls)
        if r is None:
            if cls not in SPECIAL_CLASSES:
                raise TranslationError(f'{cls}: hand-coded children function outside the known special classes')
            out[cls] = None
        else:
            out[cls] = [it for it in items_of(r, cls) if (cls, it[0]) not in IGNORED_CHILD_FIELDS]
    return out


def parse_steps(path: str, table_name: str, fwd: bool):
    tree = ast.parse(open(path).read())
    funcs = {n.name: n for n in tree.body if isinstance(n, ast.FunctionDef)}
    table = None
    for s in tree.body:
        if isinstance(s, ast.Assign) and isinstance(s.targets[0], ast.Name) and s.targets[0].id == table_name:
            table = s.value
    if not isinstance(table, ast.Dict):
        raise TranslationError(f'{table_name} dict literal not found')

    cur_cls = [None]

    def attr_field(e):
        # ast.F  or getattr(ast, 'F', <falsy default>)
        if isinstance(e, ast.Attribute) and isinstance(e.value, ast.Name) and e.value.id == 'ast':
            return e.attr
        if isinstance(e, ast.Call) and isinstance(e.func, ast.Name) and e.func.id == 'getattr' and ast.unparse(e.args[0]) == 'ast' and isinstance(e.args[1], ast.Constant):
            f = e.args[1].value
            c = cur_cls[0]
            if c and hasattr(ast, c) and f not in getattr(ast, c)._fields:
                return '!absent'   # statically falsy on this Python: the guarded return can never fire
            return f
        return None

    def instrs(fn: ast.FunctionDef):
        out = []
        for s in fn.body:
            if isinstance(s, ast.Return):
                v = s.value
                if isinstance(v, ast.Constant) and v.value is None:
                    out.append(('RetNone',))
                    return out
                # return ast.F.f
                if isinstance(v, ast.Attribute) and v.attr == 'f' and attr_field(v.value):
                    out.append(('RetReq', attr_field(v.value)))
                    return out
                return None
            if isinstance(s, ast.If) and not s.orelse and len(s.body) == 1 and isinstance(s.body[0], ast.Return):
                t, ret = s.test, ast.unparse(s.body[0].value)
                # if (idx := idx + 1) < len(a := ast.F): return a[idx].f
                if fwd and isinstance(t, ast.Compare) and ast.unparse(t.left).replace('(idx + 1)', 'idx + 1') == '(idx := idx + 1)' and isinstance(t.ops[0], ast.Lt):
                    c = t.comparators[0]
                    if (isinstance(c, ast.Call) and ast.unparse(c.func) == 'len' and isinstance(c.args[0], ast.NamedExpr)
                            and attr_field(c.args[0].value) and ret == f'{c.args[0].target.id}[idx].f'):
                        out.append(('IdxStep', attr_field(c.args[0].value)))
                        continue
                    return None
                # if (idx := idx - 1) >= 0: return ast.F[idx].f
                if not fwd and ast.unparse(t).replace('(idx - 1)', 'idx - 1') == '(idx := idx - 1) >= 0':
                    v = s.body[0].value
                    if (isinstance(v, ast.Attribute) and v.attr == 'f' and isinstance(v.value, ast.Subscript) and ast.unparse(v.value.slice) == 'idx'
                            and attr_field(v.value.value)):
                        out.append(('IdxStep', attr_field(v.value.value)))
                        continue
                    return None
                # if a := ast.F: return a[0].f / a[-1].f / a.f
                if isinstance(t, ast.NamedExpr) and attr_field(t.value):
                    a = t.target.id
                    f = attr_field(t.value)
                    if f == '!absent':
                        continue
                    if ret == (f'{a}[0].f' if fwd else f'{a}[-1].f'):
                        out.append(('EndOf', f))
                        continue
                    if ret == f'{a}.f':
                        out.append(('TryOpt', f))
                        continue
                return None
            return None
        return None

    out = {}
    for k, v in zip(table.keys, table.values):
        if not (isinstance(k, ast.Tuple) and isinstance(k.elts[0], ast.Name) and isinstance(k.elts[1], ast.Constant) and isinstance(v, ast.Name)):
            raise TranslationError(f'{table_name}: unsupported entry {ast.unparse(k)}')
        cls, field = k.elts[0].id, k.elts[1].value
        if not cls.startswith('_') and not hasattr(ast, cls):
            continue
        if field is not None and not cls.startswith('_') and field not in getattr(ast, cls)._fields:
            continue  # field of a newer Python
        cur_cls[0] = cls
        fn = funcs.get(v.id)
        if fn is None:
            raise TranslationError(f'{table_name}: function {v.id} not found')
        prog = instrs(fn)
        if prog is None:
            if cls not in SPECIAL_CLASSES:
                raise TranslationError(f'{table_name}[{cls},{field}] = {v.id}: body outside the recognised shapes')
        out[(cls, field)] = prog
    return out


def generate() -> list[str]:
    kinds = field_kinds()
    apath = os.path.join(SRC, 'astutil.py')
    children = parse_children(ast.parse(open(apath).read()), kinds)
    nxt = parse_steps(os.path.join(SRC, 'traverse_next.py'), 'NEXT_FUNCS', True)
    prv = parse_steps(os.path.join(SRC, 'traverse_prev.py'), 'PREV_FUNCS', False)
    q = lambda s: '"' + s + '"'

    def items_c(items):
        return 'None' if items is None else 'Some [' + '; '.join(f'CI {q(f)} {k}' for f, k in items) + ']'

    def prog_c(p):
        return 'None' if p is None else 'Some [' + '; '.join((i[0] if len(i) == 1 else f'{i[0]} {q(i[1])}') for i in p) + ']'

    lines = ['(* GENERATED by py/py2v/gen_traverse.py from astutil.py, traverse_next.py, traverse_prev.py -- do not edit *)',
             'From Coq Require Import List String.', 'From PF Require Import models.Traverse.', 'Import ListNotations.', 'Local Open Scope string_scope.', '',
             '(* class -> syntax-ordered child items (None = hand-coded special function) *)',
             'Definition children_tbl : list (string * option (list citem)) := [',
             ';\n'.join(f'  ({q(c)}, {items_c(it)})' for c, it in children.items()) + '].', '',
             'Definition next_tbl : list (string * option string * option (list instr)) := [',
             ';\n'.join(f'  ({q(c)}, {"None" if f is None else "Some " + q(f)}, {prog_c(p)})' for (c, f), p in nxt.items()) + '].', '',
             'Definition prev_tbl : list (string * option string * option (list instr)) := [',
             ';\n'.join(f'  ({q(c)}, {"None" if f is None else "Some " + q(f)}, {prog_c(p)})' for (c, f), p in prv.items()) + '].', '']
    text = '\n'.join(lines)
    write_if_changed(os.path.join(COQ, 'gen', 'TraverseTables.v'), text)
    h = hashlib.sha256(text.encode()).hexdigest()[:16]
    return [f'{apath}:_SYNTAX_ORDERED_CHILDREN({len(children)} classes); traverse_next.py:NEXT_FUNCS({len(nxt)}); traverse_prev.py:PREV_FUNCS({len(prv)}); ast.__doc__ ASDL kinds:{h}']
