"""Fail-closed translator of small first-order Python functions (ints, 'end' sentinels, lines of text) to Gallina.

Supported (anything else raises TranslationError, which the checks report as a broken obligation):
  statements : docstring, `x = e`, `x += e`, `x -= e`, if/elif/else, return e, return (a, b, ..) / NamedTuple ctor, raise
  expressions: names, int literals, + - * unary-, comparisons (chained), and/or/not, min/max (2 args), e1 if c else e2,
               len(lines[i][:j].encode()), len(lines[i].encode()), len(put_lines) where typed as lines
  'end'      : parameters annotated `int | Literal['end']` have Coq type `idx` (End | Ix z); tests `x == 'end'` and
               `x == 'end' or C` become a `match`, with x narrowed to Z in the other branch (Python would raise
               TypeError on arithmetic with 'end'; un-narrowed arithmetic use is rejected by the translator).
`raise` becomes `None`; every function returns `option T`.
"""

from __future__ import annotations

import ast
import hashlib


class TranslationError(Exception):
    pass


Z, IDX, BOOL, LINES = 'Z', 'idx', 'bool', 'lines'


def _fail(node, msg):
    raise TranslationError(f'line {getattr(node, "lineno", "?")}: {msg}: {ast.unparse(node)[:120] if isinstance(node, ast.AST) else node}')


def find_function(tree: ast.Module, name: str) -> ast.FunctionDef:
    for n in tree.body:
        if isinstance(n, ast.FunctionDef) and n.name == name:
            return n
    raise TranslationError(f'function {name} not found at module level')


def region_hash(src: str, fn: ast.FunctionDef) -> str:
    seg = '\n'.join(src.split('\n')[fn.lineno - 1:fn.end_lineno])
    return hashlib.sha256(seg.encode()).hexdigest()[:16]


def param_type(arg: ast.arg) -> str:
    ann = ast.unparse(arg.annotation) if arg.annotation else ''
    if ann == 'int':
        return Z
    if ann.replace(' ', '') in ("int|Literal['end']",):
        return IDX
    if ann.replace(' ', '') in ('list[str]',):
        return LINES
    _fail(arg, f'unsupported parameter annotation {ann!r}')


class FunTr:
    def __init__(self, fn: ast.FunctionDef, coq_name: str | None = None, ret_ctor: dict | None = None):
        self.fn = fn
        self.name = coq_name or fn.name.lstrip('_')
        self.ret_ctor = ret_ctor or {}
        self.ret_arity = None

    def tr(self) -> str:
        fn = self.fn
        if fn.args.vararg or fn.args.kwarg or fn.args.kwonlyargs or fn.args.posonlyargs:
            _fail(fn, 'unsupported signature')
        env = {}
        params = []
        for a in fn.args.args:
            t = param_type(a)
            env[a.arg] = t
            params.append(f'({a.arg} : {"pytext" if t == LINES else t})')
        body = list(fn.body)
        if body and isinstance(body[0], ast.Expr) and isinstance(body[0].value, ast.Constant) and isinstance(body[0].value.value, str):
            body = body[1:]
        code = self.block(body, env, 1)
        rt = 'Z' if self.ret_arity == 1 else ' * '.join(['Z'] * (self.ret_arity or 1))
        return f'Definition {self.name} {" ".join(params)} : option ({rt}) :=\n{code}.\n'

    # --- statements
    def block(self, stmts, env, ind) -> str:
        pad = '  ' * ind
        if not stmts:
            raise TranslationError(f'{self.fn.name}: control falls off the end of the function (unsupported)')
        s, rest = stmts[0], stmts[1:]
        if isinstance(s, ast.Assign):
            if len(s.targets) != 1 or not isinstance(s.targets[0], ast.Name):
                _fail(s, 'unsupported assignment target')
            x = s.targets[0].id
            e, t = self.expr(s.value, env)
            if t not in (Z,):
                _fail(s, f'assignment of non-int ({t})')
            env2 = dict(env)
            env2[x] = Z
            return f'{pad}let {x} := {e} in\n' + self.block(rest, env2, ind)
        if isinstance(s, ast.AugAssign):
            if not isinstance(s.target, ast.Name) or not isinstance(s.op, (ast.Add, ast.Sub)):
                _fail(s, 'unsupported augmented assignment')
            x = s.target.id
            if env.get(x) != Z:
                _fail(s, f'augmented assignment to non-int variable ({env.get(x)})')
            e, t = self.expr(s.value, env)
            if t != Z:
                _fail(s, 'augmented assignment of non-int')
            op = '+' if isinstance(s.op, ast.Add) else '-'
            return f'{pad}let {x} := ({x} {op} {e}) in\n' + self.block(rest, env, ind)
        if isinstance(s, ast.If):
            return self.if_(s.test, s.body + rest, (s.orelse or []) + rest, env, ind)
        if isinstance(s, ast.Return):
            return pad + self.ret(s, env)
        if isinstance(s, ast.Raise):
            return f'{pad}None'
        _fail(s, 'unsupported statement')

    def if_(self, test, then, orelse, env, ind) -> str:
        pad = '  ' * ind
        # 'end' narrowing
        m = self.end_test(test, env)
        if m:
            x, other = m
            env_end = dict(env)
            env_int = dict(env)
            env_int[x] = Z
            t_end = self.block(then, env_end, ind + 1)
            if other is None:
                t_int = self.block(orelse, env_int, ind + 1)
            else:
                t_int = self._if_plain(other, then, orelse, env_int, ind + 1)
            return f'{pad}match {x} with\n{pad}| End =>\n{t_end}\n{pad}| Ix {x} =>\n{t_int}\n{pad}end'
        return self._if_plain(test, then, orelse, env, ind)

    def _if_plain(self, test, then, orelse, env, ind) -> str:
        pad = '  ' * ind
        c, t = self.expr(test, env)
        if t == Z:
            c = f'negb ({c} =? 0)'
        elif t != BOOL:
            _fail(test, 'unsupported test type')
        return f'{pad}if {c} then\n{self.block(then, env, ind + 1)}\n{pad}else\n{self.block(orelse, env, ind + 1)}'

    def end_test(self, test, env):
        def is_end_cmp(n):
            return (isinstance(n, ast.Compare) and len(n.ops) == 1 and isinstance(n.ops[0], ast.Eq)
                    and isinstance(n.left, ast.Name) and env.get(n.left.id) == IDX
                    and isinstance(n.comparators[0], ast.Constant) and n.comparators[0].value == 'end')
        if is_end_cmp(test):
            return test.left.id, None
        if isinstance(test, ast.BoolOp) and isinstance(test.op, ast.Or) and is_end_cmp(test.values[0]):
            rest = test.values[1:]
            other = rest[0] if len(rest) == 1 else ast.BoolOp(op=ast.Or(), values=rest)
            return test.values[0].left.id, other
        return None

    def ret(self, s: ast.Return, env) -> str:
        v = s.value
        if v is None:
            _fail(s, 'bare return unsupported')
        if isinstance(v, ast.Call) and isinstance(v.func, ast.Name) and v.func.id in self.ret_ctor:
            elts = v.args
        elif isinstance(v, ast.Tuple):
            elts = v.elts
        else:
            elts = [v]
        if self.ret_arity is None:
            self.ret_arity = len(elts)
        elif self.ret_arity != len(elts):
            _fail(s, 'inconsistent return arity')
        parts = []
        for e in elts:
            c, t = self.expr(e, env)
            if t != Z:
                _fail(e, f'non-int return component ({t})')
            parts.append(c)
        return 'Some (' + ', '.join(parts) + ')'

    # --- expressions
    def expr(self, e, env) -> tuple[str, str]:
        if isinstance(e, ast.Name):
            if e.id not in env:
                _fail(e, 'unknown name')
            t = env[e.id]
            if t == IDX:
                _fail(e, "use of possibly-'end' value as int")
            return e.id, t
        if isinstance(e, ast.Constant):
            if isinstance(e.value, bool) or not isinstance(e.value, int):
                _fail(e, 'unsupported constant')
            return (f'({e.value})' if e.value < 0 else str(e.value)), Z
        if isinstance(e, ast.UnaryOp):
            c, t = self.expr(e.operand, env)
            if isinstance(e.op, ast.USub) and t == Z:
                return f'(- {c})', Z
            if isinstance(e.op, ast.Not):
                if t == Z:
                    return f'({c} =? 0)', BOOL
                if t == BOOL:
                    return f'(negb {c})', BOOL
            _fail(e, 'unsupported unary op')
        if isinstance(e, ast.BinOp):
            a, ta = self.expr(e.left, env)
            b, tb = self.expr(e.right, env)
            if ta != Z or tb != Z:
                _fail(e, 'non-int arithmetic')
            op = {ast.Add: '+', ast.Sub: '-', ast.Mult: '*'}.get(type(e.op))
            if not op:
                _fail(e, 'unsupported binary op')
            return f'({a} {op} {b})', Z
        if isinstance(e, ast.Compare):
            parts = []
            left = e.left
            for op, right in zip(e.ops, e.comparators):
                a, ta = self.expr(left, env)
                b, tb = self.expr(right, env)
                if ta != Z or tb != Z:
                    _fail(e, 'non-int comparison')
                o = {ast.Lt: '<?', ast.LtE: '<=?', ast.Gt: '>?', ast.GtE: '>=?', ast.Eq: '=?'}.get(type(op))
                if o:
                    parts.append(f'({a} {o} {b})')
                elif isinstance(op, ast.NotEq):
                    parts.append(f'(negb ({a} =? {b}))')
                else:
                    _fail(e, 'unsupported comparison')
                left = right
            return ('(' + ' && '.join(parts) + ')' if len(parts) > 1 else parts[0]), BOOL
        if isinstance(e, ast.BoolOp):
            cs = []
            for v in e.values:
                c, t = self.expr(v, env)
                if t == Z:
                    c = f'(negb ({c} =? 0))'
                elif t != BOOL:
                    _fail(v, 'unsupported boolean operand')
                cs.append(c)
            j = ' && ' if isinstance(e.op, ast.And) else ' || '
            return '(' + j.join(cs) + ')', BOOL
        if isinstance(e, ast.IfExp):
            c, tc = self.expr(e.test, env)
            a, ta = self.expr(e.body, env)
            b, tb = self.expr(e.orelse, env)
            if tc == Z:
                c = f'(negb ({c} =? 0))'
            if ta != tb:
                _fail(e, 'branches of different type')
            return f'(if {c} then {a} else {b})', ta
        if isinstance(e, ast.Call) and isinstance(e.func, ast.Name):
            if e.func.id in ('min', 'max') and len(e.args) == 2 and not e.keywords:
                a, ta = self.expr(e.args[0], env)
                b, tb = self.expr(e.args[1], env)
                if ta != Z or tb != Z:
                    _fail(e, 'non-int min/max')
                return f'(Z.{e.func.id} {a} {b})', Z
            if e.func.id == 'len' and len(e.args) == 1 and not e.keywords:
                return self.len_(e.args[0], env), Z
        _fail(e, 'unsupported expression')

    def len_(self, a, env) -> str:
        # len(lines)  |  len(X.encode()) with X = lines[i] | lines[i][:j] | lines[-1] | lines[-1][:j]
        if isinstance(a, ast.Name) and env.get(a.id) == LINES:
            return f'(Z.of_nat (length {a.id}))'
        if (isinstance(a, ast.Call) and isinstance(a.func, ast.Attribute) and a.func.attr == 'encode'
                and not a.args and not a.keywords):
            x = a.func.value
            upto = None
            if isinstance(x, ast.Subscript) and isinstance(x.slice, ast.Slice):
                sl = x.slice
                if sl.lower is not None or sl.step is not None or sl.upper is None:
                    _fail(a, 'unsupported slice')
                upto, tu = self.expr(sl.upper, env)
                if tu != Z:
                    _fail(a, 'non-int slice bound')
                x = x.value
            if isinstance(x, ast.Subscript) and isinstance(x.value, ast.Name) and env.get(x.value.id) == LINES:
                idx, ti = self.expr(x.slice, env)
                if ti != Z:
                    _fail(a, 'non-int line index')
                line = f'(py_line {x.value.id} {idx})'
                if upto is None:
                    return f'(blen {line})'
                return f'(blen (py_prefix {line} {upto}))'
        _fail(a, 'unsupported len() argument')


def translate_functions(path: str, specs: list[dict]) -> tuple[str, list[str]]:
    """specs: [{'py': name, 'coq': name, 'ret_ctor': {...}}]. Returns (coq text of definitions, provenance lines)."""
    src = open(path).read()
    tree = ast.parse(src)
    out, prov = [], []
    for sp in specs:
        fn = find_function(tree, sp['py'])
        tr = FunTr(fn, sp.get('coq'), sp.get('ret_ctor'))
        out.append(f'(* translated from {path}:{fn.lineno}-{fn.end_lineno} sha256/16={region_hash(src, fn)} *)')
        out.append(tr.tr())
        prov.append(f'{path}:{fn.name}:{fn.lineno}-{fn.end_lineno}:{region_hash(src, fn)}')
    return '\n'.join(out), prov
