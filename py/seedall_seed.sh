#!/bin/bash
# usage: py/seedall_seed.sh [workers] [tier] [seed] : like seedall_par.sh but runs every check with another PRNG seed (finds seeds that are only caught by luck of the random stages); writes seeded/RESULTS_seed<N>.txt
# directory and its own worktree of /repo (./check is relocatable and honours PFST_REPO), so neither /repo nor /verif/evidence is touched. Writes seeded/RESULTS.txt.
N=${1:-6}; TIER=${2:-quick}; SEED=${3:-7}
V=/verif; W=/tmp/seedpar2
rm -rf $W; mkdir -p $W
ls -d $V/seeded/C*_* | sort > $W/all.txt
for k in $(seq 1 $N); do
  rsync -a --exclude .git --exclude replays --exclude 'coq/corr' $V/ $W/v$k/
  git -C /repo worktree add --detach $W/r$k HEAD >/dev/null 2>&1
  awk -v n=$N -v k=$k 'NR % n == k % n' $W/all.txt > $W/list$k.txt
  (
    while read d; do
      id=$(basename $d); pid=${id%_*}
      cd $W/r$k; git checkout -q -- . 
      PYTHONPATH=$W/r$k/src /venv/bin/python $d/demo.py >/dev/null 2>&1; clean=$?
      if ! git apply $d/patch.diff 2>/dev/null; then echo "$id patch does not apply" >> $W/res$k.txt; continue; fi
      PYTHONPATH=$W/r$k/src /venv/bin/python $d/demo.py >/dev/null 2>&1; mut=$?
      out=$(PFST_REPO=$W/r$k $W/v$k/check $pid --tier $TIER --seed $SEED 2>&1); code=$?
      git checkout -q -- .
      echo "$id demo: clean=$clean mutated=$mut ; check $pid exit=$code" >> $W/res$k.txt
    done < $W/list$k.txt
  ) &
done
wait
cat $W/res*.txt | sort -V > $V/seeded/RESULTS_seed$SEED.txt
echo "DONE at /repo $(git -C /repo log --format=%h -1), $(grep -c 'exit=1' $V/seeded/RESULTS_seed$SEED.txt) of $(wc -l < $W/all.txt) caught" >> $V/seeded/RESULTS_seed$SEED.txt
for k in $(seq 1 $N); do git -C /repo worktree remove --force $W/r$k >/dev/null 2>&1; done
rm -rf $W
