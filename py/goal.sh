#!/bin/bash
# usage: py/goal.sh proofs/X.v LINE  -> prints goals after executing the first LINE lines
cd /verif/coq
head -n "$2" "$1" > /tmp/_goal.v
echo "Show." >> /tmp/_goal.v
timeout 120 coqtop -Q . PF -w -notation-overridden < /tmp/_goal.v 2>&1 | tail -n "${3:-40}"
