#!/bin/bash
# usage: py/seedtest.sh <dir with patch.diff demo.py meta.json> <property id> [tier]
# applies the seeded change to /repo, confirms the demo fails with it and passes without, runs the property's check, undoes.
D=$1; PID=$2; TIER=${3:-quick}
cd /repo || exit 2
git diff --quiet || { echo "repo not clean"; exit 2; }
PYTHONPATH=/repo/src /venv/bin/python $D/demo.py >/dev/null 2>&1; clean=$?
git apply $D/patch.diff || { echo "patch does not apply"; exit 2; }
PYTHONPATH=/repo/src /venv/bin/python $D/demo.py >/dev/null 2>&1; mutated=$?
cd /verif
out=$(./check $PID --tier $TIER 2>&1); code=$?
git -C /repo checkout -- .
echo "demo: clean=$clean mutated=$mutated ; check $PID exit=$code"
echo "$out" | grep -E "VIOLATION|obligations=" | head -4 | cut -c1-260
