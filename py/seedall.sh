#!/bin/bash
# usage: py/seedall.sh [tier] : re-tests every stored seed against the current /repo HEAD; writes seeded/RESULTS.txt and refreshes meta.json.confirmed
cd /verif
TIER=${1:-quick}
: > seeded/RESULTS.txt
for d in seeded/C*_*; do
  id=$(basename $d); pid=${id%_*}
  out=$(py/seedtest.sh /verif/$d $pid $TIER 2>&1)
  line=$(echo "$out" | grep -E "^demo:|does not apply|not clean" | head -1)
  echo "$id $line" >> seeded/RESULTS.txt
  /venv/bin/python - "$d" "$line" <<'PY'
import json,sys
d,line=sys.argv[1],sys.argv[2]
p=d+'/meta.json'
m=json.load(open(p)); m['confirmed']={'result': line, 'ran': f'py/seedtest.sh {d} (at /repo HEAD with all fix commits)'}
json.dump(m, open(p,'w'), indent=1)
PY
  git -C /repo checkout -- . 2>/dev/null
done
echo DONE >> seeded/RESULTS.txt
