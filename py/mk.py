"""dev helper: python py/mk.py target.vo ... (regenerates gen/*.v, _CoqProject/Makefile first)"""
import sys
from lib.common import coq_make
from py2v.all import generate_all
for k, v in generate_all().items():
    if isinstance(v, str):
        print(k, v)
ok, out = coq_make(sys.argv[1:] or ['all'])
print(out[-6000:])
sys.exit(0 if ok else 1)
