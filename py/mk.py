"""dev helper: python py/mk.py target.vo ... (regenerates _CoqProject/Makefile first)"""
import sys
from lib.common import coq_make
ok, out = coq_make(sys.argv[1:] or ['all'])
print(out[-6000:])
sys.exit(0 if ok else 1)
