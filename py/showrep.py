import json,sys,glob
pid=sys.argv[1]
keys=sys.argv[2:] 
for p in sorted(glob.glob(f'/verif/replays/{pid}-*.json')):
    d=json.load(open(p))
    r=d.get('replay',d)
    print('==',p.split('/')[-1], d.get('signature') or r.get('signature'))
    for k,v in r.items():
        if k in ('start_src','src','property','seed','tier','signature') and k not in keys: continue
        s=repr(v) if not isinstance(v,str) else repr(v)
        print('   ',k,':',s[:400])
