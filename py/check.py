"""Entry: check.py <ID> [--tier quick|thorough] [--seed N] [--replay file]"""
import argparse
import importlib
import os
import sys

sys.setrecursionlimit(20000)

from lib.common import Ctx, run_guarded


def main():
    ap = argparse.ArgumentParser()
    ap.add_argument('pid')
    ap.add_argument('--tier', default=os.environ.get('VERIF_TIER', 'quick'))
    ap.add_argument('--seed', type=int, default=int(os.environ.get('VERIF_SEED', '1') or 1))
    ap.add_argument('--replay', default=None)
    args = ap.parse_args()
    tier = 'thorough' if args.tier.startswith('t') else 'quick'
    mod = importlib.import_module(f'props.{args.pid}')
    if args.replay:
        sys.exit(mod.replay(args.replay))
    ctx = Ctx(args.pid, tier, args.seed, level=getattr(mod, 'LEVEL', 'proof'))
    run_guarded(ctx, mod.run)
    sys.exit(ctx.finish())


if __name__ == '__main__':
    main()
