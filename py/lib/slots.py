"""Expression / pattern slots and child kinds for C09: for every (parent kind, field) a source template with one hole,
the way to reach the hole in the parsed tree, and for every child kind a canonical example.  Written from the Python
language reference; pfst is not consulted."""

from __future__ import annotations

import ast

# child kind (named as pfst passes it to the precedence query: BinOp/UnaryOp/BoolOp by operator) -> example sources
CHILDREN = {
    'Name': ['xx'], 'Constant': ['1', "'s'", 'None', '1.5'], 'Attribute': ['xx.yy'], 'Subscript': ['xx[0]'], 'Call': ['ff(yy)'],
    'List': ['[xx, yy]'], 'Set': ['{xx, yy}'], 'Dict': ['{xx: yy}'], 'ListComp': ['[xx for xx in yy]'], 'SetComp': ['{xx for xx in yy}'],
    'DictComp': ['{xx: yy for xx in zz}'], 'GeneratorExp': ['(xx for xx in yy)'], 'JoinedStr': ["f'{xx}'"],
    'Tuple': ['xx, yy', 'xx,'], 'NamedExpr': ['xx := yy'], 'Yield': ['yield', 'yield xx'], 'YieldFrom': ['yield from xx'],
    'Lambda': ['lambda: xx', 'lambda aa: aa'], 'IfExp': ['xx if yy else zz'], 'Await': ['await xx'], 'Compare': ['xx < yy', 'xx is not yy'],
    'Or': ['xx or yy'], 'And': ['xx and yy'], 'Not': ['not xx'], 'Invert': ['~xx'], 'UAdd': ['+xx'], 'USub': ['-xx'],
    'Add': ['xx + yy'], 'Sub': ['xx - yy'], 'Mult': ['xx * yy'], 'MatMult': ['xx @ yy'], 'Div': ['xx / yy'], 'Mod': ['xx % yy'],
    'FloorDiv': ['xx // yy'], 'LShift': ['xx << yy'], 'RShift': ['xx >> yy'], 'BitOr': ['xx | yy'], 'BitXor': ['xx ^ yy'], 'BitAnd': ['xx & yy'],
    'Pow': ['xx ** yy'],
}
INT_CHILD = ('Constant', '1')

# pattern child kinds
PCHILDREN = {
    'MatchValue': ['1', 'xx.yy', "'s'"], 'MatchSingleton': ['None'], 'MatchSequence': ['[xx, yy]', 'xx, yy'], 'MatchMapping': ['{1: xx}'],
    'MatchClass': ['Cls(xx)'], 'MatchAs': ['xx', '_'], 'MatchAs_pat': ['xx as yy'], 'MatchOr': ['1 | 2'],
}


def _wrap_stmt(s: str, in_func=True, is_async=False) -> str:
    head = 'async def fn():' if is_async or 'await' in s or 'async' in s else 'def fn():'
    return head + '\n' + '\n'.join('    ' + l for l in s.split('\n')) + '\n'


# (parent, field) -> (statement template with {} hole, path from the wrapped function's body[0] to the hole, flags)
# `parent` is the type pfst passes: the operator type for BinOp / UnaryOp / BoolOp.
SLOTS: dict[tuple[str, str], tuple[str, str, dict]] = {
    ('Expr', 'value'): ('{}', 'value', {}),
    ('Assign', 'value'): ('t = {}', 'value', {}),
    ('AugAssign', 'value'): ('t += {}', 'value', {}),
    ('AnnAssign', 'value'): ('t: int = {}', 'value', {}),
    ('AnnAssign', 'annotation'): ('t: {} = 1', 'annotation', {}),
    ('Return', 'value'): ('return {}', 'value', {}),
    ('For', 'iter'): ('for t in {}: pass', 'iter', {}),
    ('If', 'test'): ('if {}: pass', 'test', {}),
    ('While', 'test'): ('while {}: pass', 'test', {}),
    ('Assert', 'test'): ('assert {}', 'test', {}),
    ('Assert', 'msg'): ('assert t, {}', 'msg', {}),
    ('Raise', 'exc'): ('raise {}', 'exc', {}),
    ('Raise', 'cause'): ('raise t from {}', 'cause', {}),
    ('withitem', 'context_expr'): ('with {} as t: pass', 'items[0].context_expr', {}),
    ('withitem', 'context_expr(noas)'): ('with {}: pass', 'items[0].context_expr', {}),
    ('withitem', 'context_expr(async)'): ('async with {} as t: pass', 'items[0].context_expr', {}),
    ('withitem', 'context_expr(async,noas)'): ('async with {}: pass', 'items[0].context_expr', {}),
    ('withitem', 'context_expr(second)'): ('with aa, {}: pass', 'items[1].context_expr', {}),
    ('For', 'iter(async)'): ('async for t in {}: pass', 'iter', {}),
    ('Match', 'subject'): ('match {}:\n    case _: pass', 'subject', {}),
    ('match_case', 'guard'): ('match t:\n    case _ if {}: pass', 'cases[0].guard', {}),
    ('FunctionDef', 'decorator_list'): ('@{}\ndef gg(): pass', 'decorator_list[0]', {}),
    ('FunctionDef', 'returns'): ('def gg() -> {}: pass', 'returns', {}),
    ('arguments', 'defaults'): ('def gg(aa={}): pass', 'args.defaults[0]', {}),
    ('arg', 'annotation'): ('def gg(aa: {}): pass', 'args.args[0].annotation', {}),
    ('ClassDef', 'bases'): ('class KK({}): pass', 'bases[0]', {'arglike': True}),
    ('keyword', 'value'): ('t = ff(kk={})', 'value.keywords[0].value', {}),
    ('Call', 'func'): ('t = {}(aa)', 'value.func', {}),
    ('Call', 'args'): ('t = ff({}, bb)', 'value.args[0]', {'arglike': True}),
    ('NamedExpr', 'value'): ('t = (nn := {})', 'value.value', {}),
    ('Lambda', 'body'): ('t = lambda: {}', 'value.body', {}),
    ('IfExp', 'body'): ('t = {} if cc else dd', 'value.body', {}),
    ('IfExp', 'test'): ('t = bb if {} else dd', 'value.test', {}),
    ('IfExp', 'orelse'): ('t = bb if cc else {}', 'value.orelse', {}),
    ('Dict', 'keys'): ('t = {{{}: vv}}', 'value.keys[0]', {}),
    ('Dict', 'values'): ('t = {{kk: {}}}', 'value.values[0]', {}),
    ('Dict', 'values**'): ('t = {{**{}}}', 'value.values[0]', {'dict_key_None': True}),
    ('Set', 'elts'): ('t = {{{}, bb}}', 'value.elts[0]', {}),
    ('List', 'elts'): ('t = [{}, bb]', 'value.elts[0]', {}),
    ('Tuple', 'elts'): ('t = ({}, bb)', 'value.elts[0]', {}),
    ('ListComp', 'elt'): ('t = [{} for ii in jj]', 'value.elt', {}),
    ('GeneratorExp', 'elt'): ('t = ({} for ii in jj)', 'value.elt', {}),
    ('DictComp', 'key'): ('t = {{{}: vv for ii in jj}}', 'value.key', {}),
    ('DictComp', 'value'): ('t = {{kk: {} for ii in jj}}', 'value.value', {}),
    ('comprehension', 'iter'): ('t = [ee for ii in {}]', 'value.generators[0].iter', {}),
    ('comprehension', 'ifs'): ('t = [ee for ii in jj if {}]', 'value.generators[0].ifs[0]', {}),
    ('Await', 'value'): ('t = await {}', 'value.value', {}),
    ('Yield', 'value'): ('t = yield {}', 'value.value', {}),
    ('YieldFrom', 'value'): ('t = yield from {}', 'value.value', {}),
    ('Compare', 'left'): ('t = {} < bb', 'value.left', {}),
    ('Compare', 'comparators'): ('t = aa < {}', 'value.comparators[0]', {}),
    ('Attribute', 'value'): ('t = {}.attr', 'value.value', {}),
    ('Subscript', 'value'): ('t = {}[0]', 'value.value', {}),
    ('Subscript', 'slice'): ('t = aa[{}]', 'value.slice', {}),
    ('Slice', 'lower'): ('t = aa[{}:bb]', 'value.slice.lower', {}),
    ('Slice', 'upper'): ('t = aa[bb:{}]', 'value.slice.upper', {}),
    ('Slice', 'step'): ('t = aa[::{}]', 'value.slice.step', {}),
    ('Starred', 'value'): ('t = [*{}]', 'value.elts[0].value', {}),
    ('Starred', 'value(arg)'): ('t = ff(*{})', 'value.args[0].value', {'arglike': True}),
    ('FormattedValue', 'value'): ("t = f'{{ {} }}'", 'value.values[0].value', {}),   # spaces: `{{` would be a lexical escape, not a grouping question
    ('Not', 'operand'): ('t = not {}', 'value.operand', {}),
    ('USub', 'operand'): ('t = -{}', 'value.operand', {}),
    ('UAdd', 'operand'): ('t = +{}', 'value.operand', {}),
    ('Invert', 'operand'): ('t = ~{}', 'value.operand', {}),
    ('And', 'values'): ('t = {} and bb', 'value.values[0]', {}),
    ('And', 'values(last)'): ('t = aa and {}', 'value.values[1]', {}),
    ('Or', 'values'): ('t = {} or bb', 'value.values[0]', {}),
    ('Or', 'values(last)'): ('t = aa or {}', 'value.values[1]', {}),
}
for _op, _sym in [('Add', '+'), ('Sub', '-'), ('Mult', '*'), ('MatMult', '@'), ('Div', '/'), ('Mod', '%'), ('FloorDiv', '//'), ('LShift', '<<'),
                  ('RShift', '>>'), ('BitOr', '|'), ('BitXor', '^'), ('BitAnd', '&'), ('Pow', '**')]:
    SLOTS[(_op, 'left')] = (f't = {{}} {_sym} bb', 'value.left', {})
    SLOTS[(_op, 'right')] = (f't = aa {_sym} {{}}', 'value.right', {})

PSLOTS: dict[tuple[str, str], tuple[str, str, dict]] = {
    ('match_case', 'pattern'): ('match t:\n    case {}: pass', 'cases[0].pattern', {}),
    ('MatchAs', 'pattern'): ('match t:\n    case {} as nn: pass', 'cases[0].pattern.pattern', {}),
    ('MatchOr', 'patterns'): ('match t:\n    case {} | 0: pass', 'cases[0].pattern.patterns[0]', {}),
    ('MatchOr', 'patterns(last)'): ('match t:\n    case 0 | {}: pass', 'cases[0].pattern.patterns[1]', {}),
    ('MatchSequence', 'patterns'): ('match t:\n    case [{}, 0]: pass', 'cases[0].pattern.patterns[0]', {}),
    ('MatchMapping', 'patterns'): ('match t:\n    case {{1: {}}}: pass', 'cases[0].pattern.patterns[0]', {}),
    ('MatchClass', 'patterns'): ('match t:\n    case Cls({}): pass', 'cases[0].pattern.patterns[0]', {}),
    ('MatchClass', 'kwd_patterns'): ('match t:\n    case Cls(kk={}): pass', 'cases[0].pattern.kwd_patterns[0]', {}),
}


def real_field(slot_field: str) -> str:
    return slot_field.split('(')[0].rstrip('*')


def build(template: str, child_src: str) -> str:
    return _wrap_stmt(template.format(child_src))


def hole(tree: ast.Module, path: str):
    node = tree.body[0].body[0]
    return eval('node.' + path, {'node': node})


def parse_child(kind: str, src: str, pattern=False):
    """the child as CPython parses it standalone"""
    if pattern:
        m = ast.parse(f'match t:\n    case {src}: pass')
        return m.body[0].cases[0].pattern
    if kind in ('Yield', 'YieldFrom', 'Await'):
        m = ast.parse(_wrap_stmt(f't = ({src})', is_async=True))
        return m.body[0].body[0].value
    return ast.parse(f'({src})', mode='eval').body
