"""Shared machinery for the pfst property checks: context, evidence, replays, known findings, Coq build/eval."""

from __future__ import annotations

import fcntl
import hashlib
import json
import os
import random
import re
import subprocess
import sys
import time
import traceback

VERIF = os.path.dirname(os.path.dirname(os.path.dirname(os.path.abspath(__file__))))
COQ = os.path.join(VERIF, 'coq')
REPO = os.environ.get('PFST_REPO', '/repo')
SRC = os.path.join(REPO, 'src', 'fst')
EVID = os.path.join(VERIF, 'evidence')
REPLAYS = os.path.join(VERIF, 'replays')
BUILD = os.path.join(VERIF, 'build')
KNOWN = os.path.join(VERIF, 'known_findings.json')

FORBIDDEN = re.compile(r'\b(Admitted|admit|Axiom|Axioms|Parameter|Parameters|Conjecture|Hypothesis|Hypotheses|Variable|Variables)\b'
                       r'|Unset\s+Guard|bypass_check|type-in-type|impredicative-set|Admit\s+Obligations|Unset\s+Positivity|Unset\s+Universe')


def sha(s: str | bytes) -> str:
    if isinstance(s, str):
        s = s.encode()
    return hashlib.sha256(s).hexdigest()[:16]


def write_if_changed(path: str, text: str) -> bool:
    try:
        with open(path) as f:
            if f.read() == text:
                return False
    except FileNotFoundError:
        pass
    os.makedirs(os.path.dirname(path), exist_ok=True)
    tmp = path + '.tmp%d' % os.getpid()
    with open(tmp, 'w') as f:
        f.write(text)
    os.replace(tmp, path)
    return True


class Lock:
    def __init__(self, name='coq'):
        os.makedirs(BUILD, exist_ok=True)
        self.path = os.path.join(BUILD, name + '.lock')

    def __enter__(self):
        self.f = open(self.path, 'w')
        fcntl.flock(self.f, fcntl.LOCK_EX)
        return self

    def __exit__(self, *a):
        fcntl.flock(self.f, fcntl.LOCK_UN)
        self.f.close()


# ----------------------------------------------------------------------------------------------------------------------
# Coq

def coq_files() -> list[str]:
    out = []
    for d in ('kernel', 'gen', 'models', 'proofs', 'props'):
        p = os.path.join(COQ, d)
        if os.path.isdir(p):
            for fn in sorted(os.listdir(p)):
                if fn.endswith('.v'):
                    out.append(f'{d}/{fn}')
    return out


def coq_project() -> None:
    """(Re)write _CoqProject and Makefile when the file list changed."""
    files = coq_files()
    text = '-Q . PF\n-arg -w -arg -notation-overridden,-deprecated-hint-without-locality,-deprecated-instance-without-locality\n' + '\n'.join(files) + '\n'
    changed = write_if_changed(os.path.join(COQ, '_CoqProject'), text)
    if changed or not os.path.exists(os.path.join(COQ, 'Makefile')):
        subprocess.run(['coq_makefile', '-f', '_CoqProject', '-o', 'Makefile'], cwd=COQ, check=True,
                       stdout=subprocess.DEVNULL, stderr=subprocess.DEVNULL)


def grep_gate(files: list[str] | None = None) -> list[str]:
    """Return offending 'file:line: text' for forbidden vernacular in our development (comments stripped)."""
    bad = []
    for rel in (files or coq_files()):
        try:
            txt = open(os.path.join(COQ, rel)).read()
        except FileNotFoundError:
            continue
        txt2 = strip_coq_comments(txt)
        in_section = 0
        for i, line in enumerate(txt2.split('\n'), 1):
            s = line.strip()
            if re.match(r'Section\b', s):
                in_section += 1
            elif re.match(r'End\b', s) and in_section:
                in_section -= 1
            m = FORBIDDEN.search(line)
            if m:
                w = m.group(0)
                if w in ('Variable', 'Variables', 'Hypothesis', 'Hypotheses') and in_section:
                    continue
                bad.append(f'{rel}:{i}: {line.strip()[:120]}')
    return bad


def strip_coq_comments(txt: str) -> str:
    out = []
    depth = 0
    i = 0
    n = len(txt)
    instr = False
    while i < n:
        c = txt[i]
        if depth == 0 and c == '"':
            instr = not instr
            out.append(c)
            i += 1
        elif not instr and txt.startswith('(*', i):
            depth += 1
            i += 2
        elif not instr and depth and txt.startswith('*)', i):
            depth -= 1
            i += 2
        else:
            if depth == 0:
                out.append(c)
            elif c == '\n':
                out.append(c)
            i += 1
    return ''.join(out)


def coq_make(targets: list[str], timeout: int = 900, force: list[str] | None = None) -> tuple[bool, str]:
    """make the given .vo targets (full .vo build). `force` lists .v files whose .vo is removed first so that their
    output (Print Assumptions) is produced again."""
    with Lock('coq'):
        coq_project()
        for f in force or []:
            for ext in ('o', 'ok', 'os'):
                try:
                    os.remove(os.path.join(COQ, f + ext))
                except FileNotFoundError:
                    pass
        cmd = ['timeout', str(timeout), 'make', '-j%d' % min(16, os.cpu_count() or 4), '-k'] + targets
        p = subprocess.run(cmd, cwd=COQ, stdout=subprocess.PIPE, stderr=subprocess.STDOUT, text=True)
        return p.returncode == 0, p.stdout


def coqc_file(rel: str, timeout: int = 600) -> tuple[bool, str]:
    """Compile one file (under coq/) with coqc directly; used for corr/cases_*.v (not part of the project)."""
    cmd = ['timeout', str(timeout), 'coqc', '-Q', '.', 'PF', '-w', '-notation-overridden,-deprecated-hint-without-locality', rel]
    p = subprocess.run(cmd, cwd=COQ, stdout=subprocess.PIPE, stderr=subprocess.STDOUT, text=True)
    return p.returncode == 0, p.stdout


def parse_assumptions(out: str) -> dict[str, str]:
    """Map theorem name -> assumptions text from the output of a props file that prints
    `(* PA: name *)` markers via `Print Assumptions`. We rely on the order of Print Assumptions commands."""
    res = {}
    blocks = re.split(r'\n(?=Closed under the global context|Axioms:)', '\n' + out)
    return {str(i): b.strip() for i, b in enumerate(blocks[1:])}


def theorem_names(rel: str) -> list[str]:
    txt = strip_coq_comments(open(os.path.join(COQ, rel)).read())
    return re.findall(r'^\s*(?:Theorem|Corollary)\s+([A-Za-z0-9_\']+)', txt, re.M)


# ----------------------------------------------------------------------------------------------------------------------
# Coq literal encoders

def cz(n: int) -> str:
    return f'({n})%Z' if n < 0 else f'{n}%Z'


def cnat(n: int) -> str:
    assert 0 <= n < 5000, n
    return f'{n}%nat'


def cN(n: int) -> str:
    assert n >= 0
    return f'{n}%N'


def clist(items, enc) -> str:
    return '[' + '; '.join(enc(x) for x in items) + ']'


def cline(s: str) -> str:
    """a line of text as list N of code points"""
    return '[' + ';'.join(str(ord(c)) for c in s) + ']%N' if s else '[]'


def clines(lines) -> str:
    return '[' + '; '.join(cline(l) for l in lines) + ']'


def cbool(b) -> str:
    return 'true' if b else 'false'


def copt(x, enc) -> str:
    return 'None' if x is None else f'(Some {enc(x)})'


def cstr(s: str) -> str:
    assert all(32 <= ord(c) < 127 for c in s), s
    return '"' + s.replace('"', '""') + '"%string'


def coq_eval_bools(name: str, header: str, terms: list[str], shard: int = 400, timeout: int = 600, jobs: int = 8) -> list[int]:
    """Each term is a Coq `bool` expression (model result compared with the implementation's result).
    Returns indices of terms that evaluate to false. Evaluated with vm_compute inside coqc, sharded and parallel."""
    os.makedirs(os.path.join(COQ, 'corr'), exist_ok=True)
    # the compiled modules the header names must exist (a check must not depend on another check having built them)
    need = []
    for m in re.finditer(r'From PF Require (?:Import|Export)\s+(.*?)\.(?=\s|$)', header, re.S):
        for mod in m.group(1).split():
            rel = mod.replace('.', '/') + '.vo'
            if not os.path.exists(os.path.join(COQ, rel)) or os.path.getmtime(os.path.join(COQ, rel)) < os.path.getmtime(os.path.join(COQ, rel[:-1])):
                need.append(rel)
    if need:
        ok, out = coq_make(need, timeout=timeout)
        if not ok:
            raise CoqEvalError(f'cannot build {need} for {name}:\n{out[-3000:]}')
    shards = [terms[i:i + shard] for i in range(0, len(terms), shard)]
    files = []
    for k, sh in enumerate(shards):
        rel = f'corr/cases_{name}_{k}.v'
        body = [header, 'Require Import List. Import ListNotations.',
                'Fixpoint failed_ (i : nat) (l : list bool) : list nat := match l with [] => [] | b :: r => if b then failed_ (S i) r else i :: failed_ (S i) r end.',
                'Definition cases_ : list bool := [']
        body.append(';\n'.join('  (' + t + ')' for t in sh))
        body.append('].')
        body.append('Eval vm_compute in (failed_ 0 cases_).')
        write_if_changed(os.path.join(COQ, rel), '\n'.join(body) + '\n')
        files.append(rel)
    procs = []
    results: list[tuple[bool, str]] = [None] * len(files)  # type: ignore
    idx = 0
    running = []
    while idx < len(files) or running:
        while idx < len(files) and len(running) < jobs:
            cmd = ['timeout', str(timeout), 'coqc', '-Q', '.', 'PF', '-w', '-notation-overridden', files[idx]]
            running.append((idx, subprocess.Popen(cmd, cwd=COQ, stdout=subprocess.PIPE, stderr=subprocess.STDOUT, text=True)))
            idx += 1
        i, p = running.pop(0)
        out, _ = p.communicate()
        results[i] = (p.returncode == 0, out)
    failed = []
    for k, (ok, out) in enumerate(results):
        if not ok:
            raise CoqEvalError(f'coqc failed on {files[k]}:\n{out[-3000:]}')
        m = re.search(r'=\s*\[(.*?)\]\s*:\s*list nat', out, re.S)
        if not m:
            raise CoqEvalError(f'cannot parse output of {files[k]}:\n{out[-2000:]}')
        body = m.group(1).strip()
        if body:
            for tok in body.split(';'):
                failed.append(k * shard + int(tok.strip().replace('%nat', '')))
    for rel in files:
        for ext in ('', 'o', 'ok', 'os'):
            try:
                os.remove(os.path.join(COQ, rel + ext))
            except FileNotFoundError:
                pass
        base = os.path.join(COQ, rel)[:-2]
        for extra in (base + '.glob', os.path.join(os.path.dirname(base), '.' + os.path.basename(base) + '.aux')):
            try:
                os.remove(extra)
            except FileNotFoundError:
                pass
    return failed


def coq_eval_value(name: str, header: str, term: str, timeout: int = 300) -> str:
    """Evaluate one term and return the raw printed value (for diagnostics in replays)."""
    rel = f'corr/cases_{name}_val.v'
    write_if_changed(os.path.join(COQ, rel), f'{header}\nRequire Import List. Import ListNotations.\nEval vm_compute in ({term}).\n')
    ok, out = coqc_file(rel, timeout)
    for ext in ('', 'o', 'ok', 'os'):
        try:
            os.remove(os.path.join(COQ, rel + ext))
        except FileNotFoundError:
            pass
    return out.strip()[-2000:]


class CoqEvalError(Exception):
    pass


# ----------------------------------------------------------------------------------------------------------------------
# Context

class Ctx:
    def __init__(self, pid: str, tier: str, seed: int, level: str = 'proof'):
        self.pid = pid
        self.tier = tier
        self.seed = seed
        self.level = level
        self.rng = random.Random(seed * 1000003 + int(pid[1:]))
        self.t0 = time.time()
        self.obligations: list[dict] = []      # {'name','ok','detail'}
        self.corr: list[dict] = []             # {'name','cases','mismatches'}
        self.violations: list[dict] = []       # {'signature','what','replay'}
        self.known_hits: list[dict] = []
        self.samples: list = []
        self.evaluations = 0
        self.nontrivial: set = set()
        self.dist: dict[str, int] = {}
        self.trusted: list[str] = []
        self.assumptions: list[str] = []
        self.rule = ''
        self.checker_cmd = ''
        self.extra: dict = {}
        self.broken: list[dict] = []           # broken obligations / correspondences (name, detail)
        self.known = load_known(pid)
        self.nreplay = 0
        self.thorough = tier == 'thorough'
        self.stage_times = {}
        try:
            for fn in os.listdir(REPLAYS):
                if fn.startswith(f'{pid}-'):
                    os.remove(os.path.join(REPLAYS, fn))
        except FileNotFoundError:
            pass

    # --- recording
    def scale(self, quick: int, thorough: int) -> int:
        return thorough if self.thorough else quick

    def tick(self, key=None, kind: str | None = None):
        """count one evaluation; `key` (hashable) identifies a distinct non-trivial case."""
        self.evaluations += 1
        if key is not None:
            self.nontrivial.add(key if isinstance(key, (str, int, tuple)) else repr(key))
        if kind:
            self.dist[kind] = self.dist.get(kind, 0) + 1

    def sample(self, x, limit=6):
        if len(self.samples) < limit:
            self.samples.append(x)

    def obligation(self, name: str, ok: bool, detail: str = ''):
        self.obligations.append({'name': name, 'ok': bool(ok), 'detail': detail[:1500]})
        if not ok:
            self.broken.append({'kind': 'obligation', 'name': name, 'detail': detail[:3000]})

    def correspondence(self, name: str, cases: int, mismatches: list):
        self.stage_times[name[:40]] = round(time.time() - self.t0, 1)
        self.corr.append({'name': name, 'cases': cases, 'mismatches': len(mismatches)})
        if mismatches:
            self.broken.append({'kind': 'correspondence', 'name': name, 'detail': json.dumps(mismatches[:5], default=repr)[:3000]})

    def write_replay(self, obj: dict) -> str:
        os.makedirs(REPLAYS, exist_ok=True)
        self.nreplay += 1
        path = os.path.join(REPLAYS, f'{self.pid}-{self.seed}-{self.nreplay}.json')
        obj = dict(obj)
        obj.setdefault('property', self.pid)
        obj.setdefault('seed', self.seed)
        obj.setdefault('tier', self.tier)
        with open(path, 'w') as f:
            json.dump(obj, f, indent=1, default=repr)
        return path

    def violation(self, signature: str, what: str, replay: dict):
        """A concrete failure of the property on the implementation (or model witness replayed on it)."""
        for k in self.known:
            if k.get('status', 'open') == 'open' and known_match(k, signature):
                if not any(h['signature'] == k['signature'] for h in self.known_hits):
                    self.known_hits.append({'signature': k['signature'], 'what': k.get('what', what), 'example': signature})
                return False
        if len(self.violations) < 25:
            path = self.write_replay({'signature': signature, 'what': what, **replay})
            self.violations.append({'signature': signature, 'what': what, 'replay': path})
        return True

    # --- coq
    def build_props(self, extra_targets: list[str] | None = None, timeout: int = 1200) -> bool:
        """Regenerated gen files must already be in place. Builds props/<pid>.vo fully and records one obligation per
        theorem in it, with its Print Assumptions output."""
        rel = f'props/{self.pid}.v'
        self.checker_cmd = f'cd {COQ} && coq_makefile -f _CoqProject -o Makefile && make props/{self.pid}.vo   (coqc 8.16.1, full .vo build; regenerated gen/*.v from {SRC})'
        bad = grep_gate()
        if bad:
            self.obligation('grep_gate(no Axiom/Admitted/Parameter/unset checks)', False, '\n'.join(bad))
        else:
            self.obligation('grep_gate(no Axiom/Admitted/Parameter/unset checks)', True)
        ok, out = coq_make([f'props/{self.pid}.vo'] + [t for t in (extra_targets or [])], timeout=timeout, force=[rel])
        names = theorem_names(rel)
        # assumptions blocks in order of Print Assumptions commands
        blocks = re.findall(r'(Closed under the global context|Axioms:\n(?:.+\n?)*?(?=\n\S|\Z))', out)
        if ok:
            txt = strip_coq_comments(open(os.path.join(COQ, rel)).read())
            pa = re.findall(r'Print Assumptions\s+([A-Za-z0-9_\']+)', txt)
            amap = {}
            for i, nm in enumerate(pa):
                amap[nm] = blocks[i].strip() if i < len(blocks) else '?'
            for nm in names:
                a = amap.get(nm, 'no Print Assumptions')
                self.obligation(f'theorem {nm}', True, a)
                if a != 'Closed under the global context':
                    t = f'{nm}: {a}'
                    if t not in self.trusted:
                        self.trusted.append(t)
            self.extra['print_assumptions'] = amap
        else:
            # find failing file
            m = re.findall(r'File "\./([^"]+)", line (\d+), characters [\d-]+:\nError:((?:.|\n)*?)(?=\nmake|\nFile|\Z)', out)
            detail = '; '.join(f'{f}:{l}: {e.strip()[:400]}' for f, l, e in m[:4]) or out[-1500:]
            for nm in names or ['build']:
                self.obligation(f'theorem {nm}', False, detail)
            self.extra['build_error'] = detail
        return ok

    # --- finish
    def finish(self) -> int:
        wall = time.time() - self.t0
        lines = []
        code = 0
        for h in self.known_hits:
            lines.append(f'KNOWN-FINDING: property={self.pid} {h["what"]} [{h["signature"]}]')
        # every listed (open) finding of this property gets its line; those the inputs of this run (tier / seed) did not reach are marked as such
        hit = {h['signature'] for h in self.known_hits}
        for k in self.known:
            if k.get('status', 'open') == 'open' and k.get('signature') not in hit:
                lines.append(f'KNOWN-FINDING: property={self.pid} {k.get("what", "")} [{k.get("signature")}] (listed; not reached by the inputs of this run)')
        if self.violations:
            code = 1
            for v in self.violations[:10]:
                lines.append(f'VIOLATION property={self.pid} replay={v["replay"]}')
        elif self.broken:
            code = 1
            path = self.write_replay({'kind': 'broken-obligation-or-correspondence', 'broken': self.broken,
                                      'note': 'no concrete failing input was found by the targeted search; the named theorem(s)/correspondence(s) no longer check against the current /repo source'})
            lines.append(f'VIOLATION property={self.pid} replay={path} no-failing-input-found')
        nobl = len(self.obligations)
        ndis = sum(1 for o in self.obligations if o['ok'])
        cov = {
            'obligations': nobl,
            'discharged': ndis,
            'checker_cmd': self.checker_cmd or 'n/a',
            'trusted_base': ['Coq 8.16.1 kernel + coqc (vm_compute used, no native_compute)'] + self.trusted,
            'evaluations': self.evaluations,
            'distinct_nontrivial': len(self.nontrivial),
            'rule': self.rule,
            'samples': self.samples or ['(none)'],
            'obligation_list': self.obligations,
            'correspondence': self.corr,
            'traces_validated_against_impl': sum(c['cases'] for c in self.corr),
            'input_distribution': self.dist,
            'known_findings_hit': self.known_hits,
            'violations_detail': [{'signature': v['signature'], 'what': v['what']} for v in self.violations],
            'broken': self.broken,
        }
        cov['stage_times_s'] = self.stage_times
        cov.update(self.extra)
        ev = {
            'property_id': self.pid,
            'tier': self.tier,
            'seed': self.seed,
            'level': self.level,
            'coverage': cov,
            'assumptions': self.assumptions,
            'wall_s': round(wall, 2),
            'violations': len(self.violations) + (1 if (self.broken and not self.violations) else 0),
        }
        os.makedirs(EVID, exist_ok=True)
        with open(os.path.join(EVID, f'{self.pid}.json'), 'w') as f:
            json.dump(ev, f, indent=1, default=repr)
        print(f'[{self.pid}] tier={self.tier} seed={self.seed} obligations={ndis}/{nobl} '
              f'evaluations={self.evaluations} distinct_nontrivial={len(self.nontrivial)} '
              f'corr={[(c["name"], c["cases"], c["mismatches"]) for c in self.corr]} wall={wall:.1f}s')
        for l in lines:
            print(l)
        sys.stdout.flush()
        return code


def load_known(pid: str) -> list[dict]:
    try:
        with open(KNOWN) as f:
            data = json.load(f)
    except FileNotFoundError:
        return []
    return [k for k in data.get('findings', []) if k.get('property') == pid]


def known_match(k: dict, signature: str) -> bool:
    if 'signature_re' in k:
        return re.fullmatch(k['signature_re'], signature, re.S) is not None
    return k.get('signature') == signature


def run_guarded(ctx: Ctx, fn, *a, **kw):
    """Run a driver stage; an internal crash of the harness is reported as a broken correspondence (fail closed)."""
    try:
        return fn(ctx, *a, **kw)
    except CoqEvalError as e:
        ctx.broken.append({'kind': 'correspondence', 'name': fn.__name__, 'detail': 'model evaluation failed: ' + str(e)[:3000]})
    except Exception:
        ctx.broken.append({'kind': 'harness', 'name': fn.__name__, 'detail': traceback.format_exc()[-3000:]})
