"""Program corpus for the checks: hand-written programs that cover every node type in many layouts, a seeded random
program generator, and a layout mutator.  Everything is deterministic given the random.Random passed in."""

from __future__ import annotations

import ast
import random

# ----------------------------------------------------------------------------------------------------------------------
# hand-written corpus (Python 3.12)

CORPUS: list[str] = [
# 0 simple statements / expressions
'''\
a = 1
b, c = a, 2
d = [a, b, c]
e = {a: b, **d, 'k': [1, 2]}
f = {a, b, c}
g = (a, b)
h = a if b else c
i = lambda x, /, y=1, *z, k, m=2, **kw: x + y
j = a + b * c - d / e // f % g ** h @ i
k = not a and b or c
l = a < b <= c != d is not e not in f
m = -a + ~b - +c
n = a[1:2, ::3, ...]
o = a.b.c(d, *e, f=g, **h)
p = f'x{a!r:>{w}}y{b=}' 'z' "w"
q = (yield)
r = [x for x in y if x if z for w in x]
s = {x: y for x, y in z}
t = {x async for x in y}
u = (x for x in y)
v = await w
del a, b[0], c.d
assert a, 'msg'
''',
# 1 blocks
'''\
import os, sys as system
from . import a
from ..b.c import (d as e, f,)
global_var = 0
def func(a, b=1, /, c: int = 2, *args: str, d, e=3, **kwargs) -> None:
    """docstring"""
    global global_var
    if a:
        return b
    elif c:
        pass
    else:
        raise ValueError('x') from None
    for i in range(10):
        if i: continue
        break
    else:
        i = 0
    while a > 0:
        a -= 1
    else:
        a = None
    with open(a) as f, open(b):
        pass
    try:
        x = 1
    except (A, B) as exc:
        raise
    except C:
        pass
    else:
        y = 2
    finally:
        z = 3
    return a, b

@decorator
@other.deco(arg)
class Cls(Base, metaclass=Meta):
    """Class doc."""
    attr: int = 5
    other: str

    async def method(self):
        async with a as b:
            async for x in y:
                await z
        nonlocal_test = 1
        def inner():
            nonlocal nonlocal_test
            nonlocal_test += 1
''',
# 2 match
'''\
match command.split():
    case [action]:
        pass
    case [action, obj]:
        x = 1
    case Point(x=0, y=0) | Other():
        print("Origin")
    case {"key": value, **rest} if value > 1:
        pass
    case [1, 2, *others] as whole:
        pass
    case None | True | False:
        pass
    case -1 | 2.5 | 1+2j | 'str' | a.b.c:
        pass
    case (x, y, *_):
        pass
    case _:
        pass
''',
# 3 layout: comments, continuations, parens
'''\
# leading comment
x = (  # trailing open
    a +  # plus
    b
)  # after

y = [
    1,  # one
    2,
    # own line
    3,
]

z = a \\
    + b \\
    + c

if (a and
        b):  # hdr
    pass  # body comment
# dedent comment
else:
    # pre
    call(a,
         b,
         c=d,
         )

def f(
    a,  # first
    b=2,
    *,
    c,
):
    return (
        a
    )
''',
# 4 semicolons, tabs, unicode
'''\
a = 1; b = 2; c = 3
if a: b = 1; c = 2
try: x
except: y
finally: z
ünïcode = 'стр' + "日本語"  # коммент
def ф(α, β=2): return α + β
class Ω: λ = 1; μ = 2
''',
# 5 type params / 3.12
'''\
type Alias[T, *Ts, **P] = Callable[P, tuple[T, *Ts]]
def generic[T: int, U: (str, bytes)](a: T, b: U) -> T: pass
class G[T](Base[T]): pass
try:
    pass
except* ValueError as eg:
    pass
except* (A, B):
    pass
x = f"{a}{b!s}{c:{d}.{e}}"
y = f\'\'\'multi
line {x
} end\'\'\'
''',
# 6 nested functions/lambdas/comprehension scopes
'''\
def outer(p, q=lambda: d0):
    loc = 1
    def mid(r=loc):
        nonlocal loc
        loc = [i for i in range(r) if (w := i) > p]
        return lambda z: z + loc + glob
    class K(p.base):
        attr = loc
        def m(self): return attr, loc
    return {k: v for k, v in mid() if k for v in k}
glob = outer(1)
''',
# 7 multi-line strings and docstrings
'''\
def f():
    """Multi
    line
      docstring
    """
    x = """not
  a docstring"""
    y = (
        'implicit'
        "concat"
    )
    return f"""a
{x}
b"""

class C:
    \'\'\'single quoted doc\'\'\'
    def g(self):
        'one-liner'
        pass
''',
# 8 decorators, async, starred, walrus, chained compare
'''\
@a.b
@c(d)(e)
@(yield_)
async def coro(*, kw=None):
    async with a, b as c: pass
    async for i in aiter(): pass
    else: pass
    first, *rest = items
    *init, last = items
    [a, [b, *c]] = nested
    print(*args, sep='', **kw)
    if (n := len(a)) > 10 > m: pass
    return [*a, *b], {**c, **d}, {*e}
''',
# 9 with-items parenthesized, long calls, subscripts
'''\
with (
    open(a) as f,
    open(b) as g,
):
    pass
with (yield): pass
with (a, b): pass
with (a, b) as c: pass
result = function_name(arg_one, arg_two)(chained)[index].attr[1:2][::2]
x[a, b:c, *d] = 1
x[()] = 2
d = dict(a=1, **b, c=2)
call(x for x in y)
call(a, (x for x in y))
''',
# 10 elif chains, nested blocks, trailing comments
'''\
def g(x):
    if x == 1:
        return 'one'  # 1
    elif x == 2:
        return 'two'  # 2
    elif x == 3:
        # three
        return 'three'
    else:
        if x:
            return None
        else:
            return ...


    # trailing in func

class Empty: pass


for a in b:
    for c in d:
        while e:
            try:
                pass
            finally:
                pass
''',
# 11 operators all
'''\
a += 1; a -= 2; a *= 3; a /= 4; a //= 5; a %= 6; a **= 7; a @= 8
a <<= 1; a >>= 2; a |= 3; a &= 4; a ^= 5
x = a << b >> c | d & e ^ f
y = a == b != c < d <= e > f >= g is h is not i in j not in k
z = (a, b), [c, d], {e: f}, {g}
w = a if b else (c if d else e)
v = (lambda: (yield))()
u = a or b and not c
t = -(-a) ** -b
s = (a + b) * (c - d) / (e * f)
r = a[b][c](d)(e).f.g
''',
# 12 imports / global
'''\
import a.b.c as d, e.f
from g.h import (
    i,
    j as k,  # comment
    l,
)
from . import *
global m, n, o
def p():
    global m, n
    nonlocal_ = 1
''',
# 13 annotated, return annotations, defaults across lines
'''\
x: int
y: list[int] = []
(z): str = 'a'
a.b: float = 1.0
c[0]: int = 2
def h(a: int = 1,
      b: "str" = 'x', *,
      c: list[int] = [1, 2],
      **kw: Any) -> dict[str,
                         int]:
    pass
''',
# 14 raise / assert / return / yield forms
'''\
def gen():
    x = yield 1
    y = yield from other()
    yield x, y
    yield
    return
    raise E
    raise E from F
    assert a
    assert a, b
    await c
''',
# 15 dict / set / comprehension layouts
'''\
d = {
    'a': 1,  # first
    'b': {
        'c': [1, 2, 3],
        **nested,
    },
    **other,
}
s = {1, 2,
     3}
lc = [
    x * 2
    for x in range(10)
    if x % 2
    if x > 3
]
gc = sum(x for x in y)
dc = {k: v for (k, v) in items if k}
''',
# 15b multi-line bytes / str statements in indented blocks, optional-entry lists (None first) inside blocks
'''\
def f():
    b"""bytes line one
    line two
      line three"""
    x = 1
    """not a docstring
    but a string statement"""
    return x
class K:
    def g(self, *, a, b=1, c, d=[1]):
        e = {**base, 'k': v, **more, 2: 3}
        return e
if cond:
    b\'\'\'single
  weird\'\'\'
    def h(*, p, q=2): pass
    lam = lambda *, r, s=3: {**r, s: 1}
''',
# 16 class bases/keywords interleaved, call args/keywords interleaved
'''\
class A(B, *C, metaclass=M, **kw): pass
f(a, *b, c=1, *d, **e, f=2)
g(*a, b, *c, d=1)
class X(*bases, k=1, *more): pass
''',
# 16b interleaved star / keyword arguments over several lines (column order differs from source order)
'''\
func(key=1,
    *rest)
class Cls(Base, metaclass=Meta,
    *mixins): pass
r = f(a, k=1,
  *b, j=2,
 *c, **d)
class D(
        A, k=1,
    *B,
  j=2): pass
g(x,
            kw=1,
  *args)
call(a=1, *b, c=2, d=3, e=4)
class E(k=1, *B, m=2, n=3, **kw): pass
h(p, q=1, *r, s=2, *t, u=3, v=4, w=5)
d2 = {a: b, **c}
d3 = {**x, **y, k: v, **z}
''',
# 17 try variants, nested try
'''\
try:
    try:
        a
    except E1:
        b
    else:
        c
except E2 as e:
    d
try:
    f
finally:
    g
''',
# 18 string kinds
'''\
a = 'single'
b = "double"
c = b'bytes'
d = r'raw\\n'
e = \'\'\'triple\'\'\'
f = 'a' 'b' \\
    'c'
g = 1_000 + 0x10 + 0o7 + 0b1 + 1.5e3 + 2j
h = ... , None, True, False
''',
# 19 lambda and ifexp in odd places
'''\
x = [lambda: 1, lambda a=2: a, (lambda *a, **k: (a, k))]
y = {lambda: 1: lambda: 2}
z = f(lambda: (yield))
w = a if (b if c else d) else e
v = [a if b else c for d in e if f if g]
u = (a := 1, b := 2)
t = [a := 1, (b := 2)]
''',
    # 16: line continuations before ';', parenthesized annotated targets, or-patterns under an enclosing pattern's column, parentheses glued to keywords
    '''if x:
    a \\
  ;
    b
while y:
    c; \\
    d
(ann): int = 1
(obj.attr): str
class K:
    (field): list = []
match v:
    case [
         a | b | c,
         d]:
        pass
    case C(
         x | y):
        pass
    case {'k':
         1 | 2}:
        pass
r = a if(b)else c
s = not(a)
for i in(j):
    pass
t = [i for i in(j)if(k)]
def fg():
    global g1, g2, g3
    return(g1)
''',
]

# expression snippets usable as replacement code for any expression slot (C01/C09/C12)
EXPRS: list[str] = [
    'x', '1', "'s'", 'None', 'a.b', 'a[b]', 'f(a)', 'f(a, b=c)', '[a, b]', '(a, b)', '()', '{a: b}', '{a, b}',
    'a + b', 'a * b', 'a ** b', '-a', 'not a', 'a and b', 'a or b', 'a < b', 'a < b < c', 'a if b else c',
    'lambda: a', 'lambda x: x', 'a, b', '*a', 'a := b', 'yield', 'yield a', 'yield from a', 'await a',
    '[x for x in y]', '(x for x in y)', '{x for x in y}', '{k: v for k, v in z}', "f'{a}'", 'a is not b',
    'a not in b', '~a', 'a @ b', 'a // b', 'a | b', 'a & b', 'a ^ b', 'a << b', 'a >> b', '1.5', '1j', '-1',
    '(a\n + b)', '(a,\n b)', 'f(\n a,\n b\n)', '[\n a,  # c\n b\n]', 'a  \\\n + b', '...', 'a.b.c', 'a[1:2]',
    'a[::2]', 'a[b, c]', 'not not a', '- - a', 'a ** -b', '(yield)', 'a if b else c if d else e',
    'a < (b < c)', '(a < b) < c', 'a and (b or c)', '(a, b), c', '[*a, b]', '{**a}', 'b""', 'ü', "'é'",
]

STMTS: list[str] = [
    'pass', 'x = 1', 'a, b = c', 'del x', 'return', 'return x', 'raise', 'raise E', 'assert a', 'import m',
    'from m import n', 'global gg', 'x += 1', 'x: int = 1', 'f()', 'break', 'continue',
    'if a: pass', 'if a:\n    b\nelse:\n    c', 'for i in j: pass', 'while a: pass', 'with a as b: pass',
    'try: pass\nexcept: pass', 'try:\n    a\nfinally:\n    b', 'def f(): pass', 'class C: pass',
    'def g(a, b=1):\n    """doc"""\n    return a', '# comment\nx = 2  # trailing', 'match a:\n    case 1: pass',
    'async def h(): await x', 'x = (\n    1\n)', 'type T = int', '@d\ndef k(): pass', 'a = 1; b = 2',
    'if a:\n    b\nelif c:\n    d', 'for a in b:\n    c\nelse:\n    d', "'''doc'''",
]

PATTERNS: list[str] = ['x', '1', '_', 'None', "'s'", '-1', 'a.b', '[a, b]', '(a, *b)', '{1: a}', '{**r}', 'C()',
                       'C(a, b=c)', 'a | b', 'a as b', '[a] | (b as c)', '1+2j', '*_', '{1: a, **r}', 'C(a)']


def corpus(rng: random.Random | None = None, n: int | None = None, gen: int = 0, size=(3, 12)) -> list[str]:
    """The hand corpus, optionally sampled to n programs, followed by `gen` generated programs."""
    progs = list(CORPUS)
    if n is not None and rng is not None and n < len(progs):
        progs = rng.sample(progs, n)
    if gen and rng is not None:
        g = ProgGen(rng)
        for _ in range(gen):
            progs.append(g.module(rng.randint(*size)))
    return progs


# ----------------------------------------------------------------------------------------------------------------------
# seeded generator of (mostly valid) programs; result is always checked with ast.parse by the generator

class ProgGen:
    NAMES = ['a', 'b', 'c', 'x', 'y', 'foo', 'bar', 'ü', 'v1', '_t']

    def __init__(self, rng: random.Random):
        self.r = rng

    def name(self):
        return self.r.choice(self.NAMES)

    def atom(self):
        r = self.r
        k = r.randrange(9)
        if k < 4:
            return self.name()
        if k == 4:
            return str(r.randrange(100))
        if k == 5:
            return r.choice(["'s'", '"d"', "'é'", 'None', 'True', '1.5', "b'x'", '...'])
        if k == 6:
            return f'{self.name()}.{self.name()}'
        if k == 7:
            return f'{self.name()}[{self.atom()}]'
        return f'{self.name()}({self.atom()})'

    def expr(self, d=2):
        r = self.r
        if d <= 0 or r.random() < 0.3:
            return self.atom()
        k = r.randrange(20)
        e = lambda: self.expr(d - 1)
        if k == 0:
            return f'{e()} {r.choice(["+", "-", "*", "/", "//", "%", "@", "**", "<<", ">>", "|", "&", "^"])} {e()}'
        if k == 1:
            return f'{e()} {r.choice(["and", "or"])} {e()}'
        if k == 2:
            return f'{r.choice(["-", "+", "~", "not "])}{e()}'
        if k == 3:
            return f'{e()} {r.choice(["<", ">", "==", "!=", "<=", ">=", "is", "is not", "in", "not in"])} {e()}'
        if k == 4:
            return f'({e()} if {e()} else {e()})'
        if k == 5:
            return '[' + ', '.join(e() for _ in range(r.randrange(4))) + ']'
        if k == 6:
            n = r.randrange(4)
            return '(' + ', '.join(e() for _ in range(n)) + (',' if n == 1 else '') + ')'
        if k == 7:
            return '{' + ', '.join(f'{e()}: {e()}' for _ in range(r.randrange(3))) + '}'
        if k == 8:
            return '{' + ', '.join(e() for _ in range(1 + r.randrange(3))) + '}'
        if k == 9:
            args = [e() for _ in range(r.randrange(3))] + [f'{self.name()}={e()}' for _ in range(r.randrange(2))]
            return f'{self.name()}(' + ', '.join(args) + ')'
        if k == 10:
            return f'(lambda {self.name()}: {e()})'
        if k == 11:
            return f'[{e()} for {self.name()} in {e()}' + (f' if {e()}' if r.random() < .5 else '') + ']'
        if k == 12:
            return f'({e()})'
        if k == 13:
            return f'{self.atom()}[{e()}:{e()}]'
        if k == 14:
            return f'({self.name()} := {e()})'
        if k == 15:
            return "f'{" + self.name() + "}'"
        if k == 16:
            return f'{e()} + \\\n    {e()}'
        if k == 17:
            return f'(\n    {e()},  # c\n    {e()}\n)'
        if k == 18:
            return f'{{{self.name()}: {e()} for {self.name()} in {e()}}}'
        return f'{self.atom()}.{self.name()}'

    def simple(self, ind, d=2):
        r = self.r
        k = r.randrange(14)
        if k < 3:
            return f'{ind}{self.name()} = {self.expr(d)}'
        if k == 3:
            return f'{ind}{self.name()}, {self.name()} = {self.expr(d)}'
        if k == 4:
            return f'{ind}{self.expr(d)}'
        if k == 5:
            return f'{ind}{self.name()} {r.choice(["+=", "-=", "*=", "|="])} {self.expr(d)}'
        if k == 6:
            return f'{ind}pass'
        if k == 7:
            return f'{ind}del {self.name()}'
        if k == 8:
            return f'{ind}assert {self.expr(d)}'
        if k == 9:
            return f'{ind}import {self.name()}'
        if k == 10:
            return f'{ind}{self.name()}: int = {self.expr(d)}'
        if k == 11:
            return f'{ind}{self.name()} = {self.expr(1)}; {self.name()} = {self.expr(1)}'
        if k == 12:
            return f'{ind}{self.name()} = {self.expr(d)}  # {self.name()}'
        return f'{ind}# comment {self.name()}\n{ind}{self.name()}({self.expr(d)})'

    def block(self, ind, n, depth, infunc=False, inloop=False):
        out = []
        for _ in range(max(1, n)):
            out.append(self.stmt(ind, depth, infunc, inloop))
        return '\n'.join(out)

    def stmt(self, ind, depth, infunc=False, inloop=False):
        r = self.r
        if depth <= 0 or r.random() < 0.55:
            if infunc and r.random() < 0.15:
                return f'{ind}return {self.expr(1)}'
            if inloop and r.random() < 0.1:
                return f'{ind}{r.choice(["break", "continue"])}'
            return self.simple(ind)
        k = r.randrange(9)
        i2 = ind + '    '
        b = lambda **kw: self.block(i2, r.randrange(1, 3), depth - 1, kw.get('infunc', infunc), kw.get('inloop', inloop))
        if k == 0:
            s = f'{ind}if {self.expr(1)}:\n{b()}'
            while r.random() < 0.3:
                s += f'\n{ind}elif {self.expr(1)}:\n{b()}'
            if r.random() < 0.4:
                s += f'\n{ind}else:\n{b()}'
            return s
        if k == 1:
            s = f'{ind}for {self.name()} in {self.expr(1)}:\n{b(inloop=True)}'
            if r.random() < 0.2:
                s += f'\n{ind}else:\n{b()}'
            return s
        if k == 2:
            return f'{ind}while {self.expr(1)}:\n{b(inloop=True)}'
        if k == 3:
            doc = f'{i2}"""doc {self.name()}"""\n' if r.random() < 0.3 else ''
            deco = f'{ind}@{self.name()}\n' if r.random() < 0.2 else ''
            args = ', '.join([self.name() + str(i) for i in range(r.randrange(3))] + ([f'k={self.atom()}'] if r.random() < .3 else []))
            return f'{deco}{ind}def {self.name()}({args}):\n{doc}{b(infunc=True, inloop=False)}'
        if k == 4:
            return f'{ind}class {self.name().capitalize()}:\n{b(infunc=False, inloop=False)}'
        if k == 5:
            s = f'{ind}try:\n{b()}'
            if r.random() < 0.7:
                s += f'\n{ind}except {self.name()} as {self.name()}:\n{b()}'
                if r.random() < 0.3:
                    s += f'\n{ind}else:\n{b()}'
                if r.random() < 0.3:
                    s += f'\n{ind}finally:\n{b()}'
            else:
                s += f'\n{ind}finally:\n{b()}'
            return s
        if k == 6:
            return f'{ind}with {self.expr(1)} as {self.name()}:\n{b()}'
        if k == 7:
            return f'{ind}if {self.expr(1)}: {self.simple("", 1).splitlines()[-1]}'
        return f'{ind}match {self.name()}:\n{i2}case {r.choice(PATTERNS)}:\n{self.block(i2 + "    ", 1, depth - 1, infunc, inloop)}\n{i2}case _:\n{i2}    pass'

    def module(self, n=6, depth=3) -> str:
        for _ in range(50):
            src = '\n'.join(self.stmt('', depth) for _ in range(n)) + '\n'
            try:
                ast.parse(src)
                return src
            except (SyntaxError, ValueError, RecursionError):
                continue
        return 'pass\n'


# ----------------------------------------------------------------------------------------------------------------------
# layout mutator: token-preserving re-layout (same AST, different text)

def relayout(src: str, rng: random.Random) -> str:
    """Return a differently laid-out program with the same AST (checked), or src itself."""
    import io
    import tokenize
    try:
        toks = list(tokenize.generate_tokens(io.StringIO(src).readline))
    except Exception:
        return src
    lines = src.split('\n')
    # choose operator tokens inside brackets after which to insert extra spaces / newline+indent / comment
    depth = 0
    edits = []  # (line, col, text)
    for t in toks:
        if t.type == tokenize.OP:
            if t.string in '([{':
                depth += 1
            elif t.string in ')]}':
                depth -= 1
            elif depth > 0 and t.string == ',' and rng.random() < 0.35:
                ind = ' ' * rng.choice([0, 1, 2, 4, 8, 13])   # inside brackets any indentation is legal: later lines may start left of earlier elements
                edits.append((t.end[0] - 1, t.end[1], rng.choice(['  ', '\n' + ind, '  # c\n' + ind, ' \\\n' + ind])))
            elif depth == 0 and t.string in ('+', '-', '*', '==', 'and', 'or') and rng.random() < 0.2:
                edits.append((t.end[0] - 1, t.end[1], rng.choice(['  ', ' \\\n      '])))
    for ln, col, text in sorted(edits, reverse=True):
        l = lines[ln]
        lines[ln] = l[:col] + text + l[col:]
    new = '\n'.join(lines)
    try:
        if ast.dump(ast.parse(new)) == ast.dump(ast.parse(src)):
            return new
    except Exception:
        pass
    return src
