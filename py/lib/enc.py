"""Encoders from live pfst/CPython objects to Gallina literals used by the correspondence checks."""

from __future__ import annotations

import ast

from lib.common import cz, cnat, copt, clines


def preorder(a: ast.AST, children) -> list[ast.AST]:
    """nodes in the order `flat_pos` of models/Offset.v enumerates them (node, then kids in syntax order)"""
    out = []

    def rec(n):
        out.append(n)
        for k in children(n):
            if k is not None:
                rec(k)
    rec(a)
    return out


def node_pos(n: ast.AST):
    if getattr(n, 'end_col_offset', None) is None:
        return None
    return (n.lineno, n.col_offset, n.end_lineno, n.end_col_offset)


def stree(a: ast.AST, children, ids: dict | None = None) -> tuple[str, dict]:
    """Gallina `stree` literal of the AST rooted at `a`; children(n) is the syntax-ordered child list (None allowed).
    Returns (literal, {id(node): number})."""
    if ids is None:
        ids = {}

    def rec(n) -> str:
        i = ids.setdefault(id(n), len(ids))
        p = node_pos(n)
        deco = getattr(n, 'decorator_list', None)
        d0 = deco[0].lineno if deco else None
        kids = []
        for k in children(n):
            kids.append('None' if k is None else f'Some ({rec(k)})')
        ps = 'None' if p is None else f'(Some ({cz(p[0])}, {cz(p[1])}, {cz(p[2])}, {cz(p[3])}))'
        return f'SNode {i} {ps} {copt(d0, cz)} [{"; ".join(kids)}]'
    return rec(a), ids


def positions_literal(nodes: list[ast.AST]) -> str:
    out = []
    for n in nodes:
        p = node_pos(n)
        out.append('None' if p is None else f'Some ({cz(p[0])}, {cz(p[1])}, {cz(p[2])}, {cz(p[3])})')
    return '[' + '; '.join(out) + ']'


def tri(x) -> str:
    return 'TTrue' if x is True else 'TFalse' if x is False else 'TNone'


# ---- Ordered (the hypothesis of the K2 theorems) evaluated on a live tree, mirroring models/Offset.v:Ordered ----------

def pos_le(l1, c1, l2, c2):
    return (l1, c1) <= (l2, c2)


def ordered_violations(a: ast.AST, children, limit=3) -> list[str]:
    bad = []

    def all_pos(n):
        out = []
        p = node_pos(n)
        if p:
            out.append(p)
        for k in children(n):
            if k is not None:
                out += all_pos(k)
        return out

    def rec(n):
        if len(bad) >= limit:
            return
        p = node_pos(n)
        kids = [k for k in children(n)]
        kpos = [all_pos(k) if k is not None else [] for k in kids]
        if p:
            l, c, el, ec = p
            if not pos_le(l, c, el, ec):
                bad.append(f'{type(n).__name__}: start after end {p}')
            deco = getattr(n, 'decorator_list', None)
            low = min(deco[0].lineno, l) if deco else l
            for qs in kpos:
                for q in qs:
                    if not pos_le(q[2], q[3], el, ec):
                        bad.append(f'{type(n).__name__}{p}: descendant {q} ends after parent')
                    if q[0] < low:
                        bad.append(f'{type(n).__name__}{p}: descendant {q} starts above parent line {low}')
        for j, k in enumerate(kids):
            if k is None:
                continue
            pk = node_pos(k)
            if pk:
                for i in range(j):
                    for q in kpos[i]:
                        if not pos_le(q[2], q[3], pk[2], pk[3]):
                            bad.append(f'{type(n).__name__}: earlier sibling sub-tree span {q} ends after later sibling {type(k).__name__}{pk}')
        for k in kids:
            if k is not None:
                rec(k)
    rec(a)
    return bad[:limit]
