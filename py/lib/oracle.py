"""Independent oracles: AST comparison (types, fields, ctx, positions) that shares no code with pfst, re-parse of a
tree's source by CPython, token streams."""

from __future__ import annotations

import ast
import io
import tokenize

POS = ('lineno', 'col_offset', 'end_lineno', 'end_col_offset')


def cmp_ast(a, b, positions: bool = True, ctx: bool = True, path: str = '', out: list | None = None, limit: int = 8,
            type_comments: bool = False) -> list[str]:
    """Return a list of human-readable differences between two ASTs (empty list = equal)."""
    if out is None:
        out = []
    if len(out) >= limit:
        return out
    if isinstance(a, ast.AST) or isinstance(b, ast.AST):
        if type(a) is not type(b):
            out.append(f'{path}: type {type(a).__name__} != {type(b).__name__}')
            return out
        if isinstance(a, ast.expr_context):
            return out
        for f in a._fields:
            if f == 'ctx' and not ctx:
                continue
            if f == 'type_comment' and not type_comments:
                continue
            if f == 'kind':  # Constant.kind ('u' prefix) is not structural
                continue
            cmp_ast(getattr(a, f, None), getattr(b, f, None), positions, ctx, f'{path}.{f}', out, limit)
        if positions and isinstance(a, (ast.expr, ast.stmt, ast.pattern, ast.excepthandler, ast.arg, ast.keyword,
                                        ast.alias, ast.type_param)):
            pa = tuple(getattr(a, p, None) for p in POS)
            pb = tuple(getattr(b, p, None) for p in POS)
            if pa != pb:
                out.append(f'{path}<{type(a).__name__}>: pos {pa} != {pb}')
        return out
    if isinstance(a, list) or isinstance(b, list):
        if not (isinstance(a, list) and isinstance(b, list)):
            out.append(f'{path}: list vs non-list')
            return out
        if len(a) != len(b):
            out.append(f'{path}: len {len(a)} != {len(b)}')
            return out
        for i, (x, y) in enumerate(zip(a, b)):
            cmp_ast(x, y, positions, ctx, f'{path}[{i}]', out, limit)
        return out
    if type(a) is not type(b) or a != b:
        # float nan etc.
        if not (isinstance(a, float) and isinstance(b, float) and repr(a) == repr(b)):
            out.append(f'{path}: value {a!r} != {b!r}')
    return out


def dump(a, attrs=False) -> str:
    return ast.dump(a, include_attributes=attrs)


def struct_dump(a) -> str:
    """structure only, ctx erased"""
    import re
    return re.sub(r', ctx=(Load|Store|Del)\(\)|ctx=(Load|Store|Del)\(\), |ctx=(Load|Store|Del)\(\)', '', ast.dump(a))


def parse_like_root(src: str, a: ast.AST):
    """Parse `src` from scratch with CPython in the way appropriate for the kind of root `a`; None if the root kind has
    no direct CPython entry (fragment roots are handled by the C05 embeddings)."""
    if isinstance(a, ast.Module):
        return ast.parse(src)
    if isinstance(a, ast.Expression):
        return ast.parse(src, mode='eval')
    if isinstance(a, ast.Interactive):
        return ast.parse(src, mode='single')
    return None


def reparse_diffs(root, positions=True) -> list[str] | None:
    """C01 predicate: root.src parsed from scratch equals the live tree. None when not applicable (fragment root)."""
    a = root.a
    try:
        ref = parse_like_root(root.src, a)
    except SyntaxError as e:
        return [f'source does not parse: {e}']
    if ref is None:
        ref = parse_fragment(root.src, a)
        if ref is None:
            return None
        if isinstance(ref, str):
            return [ref]
    return cmp_ast(a, ref, positions=positions)


def parse_fragment(src: str, a: ast.AST):
    """Independent parse of an expression/statement fragment root: expression kinds through '(' + src + ')' is NOT used
    (would shift columns); we only handle roots CPython can parse directly after trying exec/eval."""
    if isinstance(a, ast.stmt):
        try:
            m = ast.parse(src)
        except SyntaxError as e:
            return f'stmt root does not parse: {e}'
        if len(m.body) != 1:
            return f'stmt root parses to {len(m.body)} statements'
        return m.body[0]
    if isinstance(a, ast.expr) and not isinstance(a, (ast.Starred, ast.Slice)):
        try:
            return ast.parse(src, mode='eval').body
        except SyntaxError:
            # unparenthesized tuple/yield/walrus/multi-line: parse as an expression statement or in parentheses
            try:
                m = ast.parse(src)
                if len(m.body) == 1 and isinstance(m.body[0], ast.Expr) and type(m.body[0].value) is type(a):
                    return m.body[0].value
            except SyntaxError:
                pass
            try:
                lines = src.split('\n')
                m = ast.parse('(\n' + src + '\n)', mode='eval').body
                ast.increment_lineno(m, -1)
                if isinstance(m, ast.Tuple) and isinstance(a, ast.Tuple) and not src.lstrip().startswith('('):
                    # the added parentheses became the tuple's own: its extent is not comparable, its elements are
                    for p_ in POS:
                        setattr(m, p_, getattr(a, p_, None))
                return m
            except SyntaxError as e:
                return f'expr root does not parse: {e}'
    return None


def tokens(src: str):
    """(type, string) stream without layout-only tokens; COMMENT kept."""
    out = []
    try:
        for t in tokenize.generate_tokens(io.StringIO(src).readline):
            if t.type in (tokenize.NL, tokenize.NEWLINE, tokenize.INDENT, tokenize.DEDENT, tokenize.ENDMARKER):
                continue
            out.append((t.type, t.string, t.start, t.end))
    except (tokenize.TokenError, IndentationError, SyntaxError):
        return None
    return out


def canon(a, ctx: bool = False, args_flat: bool = True):
    """Canonical structural value of an AST (nested tuples): no positions; ctx optional; `arguments` flattened to the
    ordered list of (star-kind, name, annotation, default) so that positional/keyword-only category is not compared
    (the virtual field `_all` is a flat list)."""
    if isinstance(a, ast.AST):
        if isinstance(a, ast.expr_context):
            return type(a).__name__ if ctx else None
        if args_flat and isinstance(a, ast.arguments):
            out = []
            pos = list(a.posonlyargs) + list(a.args)
            nd = len(a.defaults)
            for i, x in enumerate(pos):
                d = a.defaults[i - (len(pos) - nd)] if i >= len(pos) - nd else None
                out.append(('', canon(x, ctx), canon(d, ctx)))
            if a.vararg:
                out.append(('*', canon(a.vararg, ctx), None))
            for x, d in zip(a.kwonlyargs, a.kw_defaults):
                out.append(('', canon(x, ctx), canon(d, ctx)))
            if a.kwarg:
                out.append(('**', canon(a.kwarg, ctx), None))
            return ('arguments', tuple(out))
        vals = []
        for f in a._fields:
            if f in ('type_comment', 'kind'):
                continue
            if f == 'ctx' and not ctx:
                continue
            vals.append((f, canon(getattr(a, f, None), ctx, args_flat)))
        return (type(a).__name__, tuple(vals))
    if isinstance(a, list):
        return tuple(canon(x, ctx, args_flat) for x in a)
    if isinstance(a, float):
        return ('float', repr(a))
    if isinstance(a, complex):
        return ('complex', repr(a))
    if isinstance(a, bytes):
        return ('bytes', a)
    return a
