"""Random structured-edit engine over a live pfst tree.  One engine, many judges: every property driver that needs edit
sequences (C01 C02 C04 C12 ...) draws ops from here and applies its own predicate after each op.

An op is described by a plain dict (replayable): kind, target path (list of (field, idx) from the root AST), arguments.
`apply(root, op)` executes it through the public API and returns ('ok', info) or ('exc', exception)."""

from __future__ import annotations

import ast
import random

from lib.progs import EXPRS, STMTS, PATTERNS

OPTION_SPACE = {
    'trivia': [True, False, 'all', 'block', 'none', ('all', 'line'), ('block+1', 'all'), (False, False), 'all-', ('none', 'block'),
               (True, 'line+2'), (True, 'line+'), (False, 'block+2'), ('block', 'line+1'), ('none+', 'none+1'), ('all', 'block+')],
    'pep8space': [True, False, 1],
    'elif_': [True, False],
    'docstr': [True, False, 'strict'],
    'pars': ['auto', True],
    'pars_walrus': [False, True, None],
    'pars_arglike': [True, False, None],
    'norm': [True],
}


def rand_options(rng: random.Random, p=0.35) -> dict:
    o = {'norm': True}
    for k, vals in OPTION_SPACE.items():
        if k != 'norm' and rng.random() < p:
            o[k] = rng.choice(vals)
    return o


# ---- paths (independent of FST.child_path)

def path_of(root_a: ast.AST, node: ast.AST):
    """path from root AST to node as list of (field, idx|None), by identity search"""
    stack = [(root_a, [])]
    while stack:
        a, p = stack.pop()
        if a is node:
            return p
        for f in a._fields:
            v = getattr(a, f, None)
            if isinstance(v, ast.AST):
                stack.append((v, p + [(f, None)]))
            elif isinstance(v, list):
                for i, x in enumerate(v):
                    if isinstance(x, ast.AST):
                        stack.append((x, p + [(f, i)]))
    return None


def node_at(root_a: ast.AST, path):
    a = root_a
    for f, i in path:
        a = getattr(a, f)
        if i is not None:
            a = a[i]
    return a


def all_nodes(root_a):
    return list(ast.walk(root_a))


STMT_LIST_FIELDS = ('body', 'orelse', 'finalbody')


def gen_op(rng: random.Random, root, allow_fail: bool = False) -> dict | None:
    """Pick a random applicable op for the current tree. Code operands come from the pools; `form` says how the code is
    passed (src / fst / ast)."""
    import fst
    a = root.a
    nodes = all_nodes(a)
    kind = rng.choice(['replace_expr', 'replace_expr', 'replace_expr', 'remove', 'put_slice_stmts', 'insert_stmt', 'append_stmt',
                       'cut', 'replace_stmt', 'put_slice_exprs', 'put_docstr', 'put_line_comment', 'attr_assign', 'attr_del',
                       'view_set', 'view_del', 'replace_pattern', 'put_one', 'prepend_stmt', 'replace_op', 'replace_op'])
    form = rng.choice(['src', 'src', 'fst', 'ast'])
    opts = rand_options(rng)
    op = {'kind': kind, 'form': form, 'options': opts}
    exprs = [n for n in nodes if isinstance(n, ast.expr) and not isinstance(n, (ast.JoinedStr, ast.FormattedValue))
             and isinstance(getattr(n, 'ctx', ast.Load()), ast.Load)]
    stmts = [n for n in nodes if isinstance(n, ast.stmt)]
    blocks = [(n, f) for n in nodes for f in STMT_LIST_FIELDS if isinstance(getattr(n, f, None), list) and
              (getattr(n, f) or f != 'body') and not isinstance(n, ast.Lambda) and (getattr(n, f) == [] or isinstance(getattr(n, f)[0], ast.stmt))]
    if kind == 'replace_expr' and exprs:
        n = rng.choice(exprs)
        op.update(path=path_of(a, n), code=rng.choice(EXPRS))
    elif kind == 'replace_op':
        cands = [n for n in nodes if isinstance(n, (ast.BinOp, ast.BoolOp, ast.UnaryOp, ast.AugAssign, ast.Compare))]
        if not cands:
            return None
        n = rng.choice(cands)
        if isinstance(n, ast.BinOp):
            code, fld, idx = rng.choice(['+', '-', '*', '/', '//', '%', '@', '**', '<<', '>>', '|', '&', '^']), 'op', None
        elif isinstance(n, ast.AugAssign):
            code, fld, idx = rng.choice(['+=', '-=', '*=', '/=', '**=', '>>=', '|=', '@=']), 'op', None
        elif isinstance(n, ast.BoolOp):
            code, fld, idx = rng.choice(['and', 'or']), 'op', None
        elif isinstance(n, ast.UnaryOp):
            code, fld, idx = rng.choice(['-', '+', '~', 'not']), 'op', None
        else:
            code, fld, idx = rng.choice(['<', '>', '==', '!=', '<=', '>=', 'is', 'is not', 'in', 'not in']), 'ops', rng.randrange(len(n.ops))
        op.update(path=path_of(a, n), field=fld, idx=idx, code=code, form='src', via=rng.choice(['put', 'replace']))
    elif kind == 'replace_stmt' and stmts:
        n = rng.choice(stmts)
        op.update(path=path_of(a, n), code=rng.choice(STMTS))
    elif kind == 'replace_pattern':
        pats = [n for n in nodes if isinstance(n, ast.pattern)]
        if not pats:
            return None
        op.update(path=path_of(a, rng.choice(pats)), code=rng.choice(PATTERNS))
    elif kind in ('remove', 'cut'):
        cands = []
        for n in nodes:
            for f in n._fields:
                v = getattr(n, f, None)
                if isinstance(v, list) and v and isinstance(v[0], ast.AST) and not isinstance(v[0], (ast.expr_context, ast.cmpop, ast.comprehension)):
                    if f in ('ops', 'comparators', 'keys', 'values', 'kwd_patterns', 'kw_defaults', 'defaults', 'posonlyargs', 'args', 'kwonlyargs') \
                            and not (isinstance(n, ast.Call) and f == 'args'):
                        continue
                    cands += v
        if not cands:
            return None
        op.update(path=path_of(a, rng.choice(cands)))
    elif kind in ('put_slice_stmts', 'insert_stmt', 'append_stmt', 'prepend_stmt') and blocks:
        n, f = rng.choice(blocks)
        L = len(getattr(n, f))
        code = '\n'.join(rng.choice(STMTS) for _ in range(rng.randrange(1, 3)))
        op.update(path=path_of(a, n), field=f, code=code)
        if kind == 'put_slice_stmts':
            s = rng.randrange(0, L + 1)
            e = rng.randrange(s, L + 1)
            op.update(start=s, stop=e)
            if rng.random() < 0.2:
                op['code'] = None
                if s == e:
                    return None
        elif kind == 'insert_stmt':
            op.update(idx=rng.choice([rng.randrange(-L - 1, L + 2), 'end']))
    elif kind == 'put_slice_exprs':
        cands = [(n, 'elts') for n in nodes if isinstance(n, (ast.List, ast.Tuple, ast.Set)) and isinstance(getattr(n, 'ctx', ast.Load()), ast.Load)]
        cands += [(n, 'args') for n in nodes if isinstance(n, ast.Call)]
        if not cands:
            return None
        n, f = rng.choice(cands)
        L = len(getattr(n, f))
        s = rng.randrange(0, L + 1)
        e = rng.randrange(s, L + 1)
        k = rng.randrange(0, 3)
        code = ', '.join(rng.choice([x for x in EXPRS if ',' not in x and 'yield' not in x and ':=' not in x and not x.startswith('*')]) for _ in range(k))
        if k == 1:
            code += ','
        if k == 0:
            code = None
            if s == e:
                return None
        op.update(path=path_of(a, n), field=f, start=s, stop=e, code=code)
    elif kind == 'put_one':
        cands = [(n, 'elts') for n in nodes if isinstance(n, (ast.List, ast.Tuple, ast.Set)) and n.elts and isinstance(getattr(n, 'ctx', ast.Load()), ast.Load)]
        cands += [(n, 'args') for n in nodes if isinstance(n, ast.Call) and n.args]
        cands += [(n, 'values') for n in nodes if isinstance(n, ast.BoolOp)]
        if not cands:
            return None
        n, f = rng.choice(cands)
        L = len(getattr(n, f))
        op.update(path=path_of(a, n), field=f, idx=rng.randrange(-L, L), code=rng.choice(EXPRS))
    elif kind == 'put_docstr':
        defs = [n for n in nodes if isinstance(n, (ast.FunctionDef, ast.AsyncFunctionDef, ast.ClassDef, ast.Module))]
        if not defs:
            return None
        text = rng.choice(['doc', 'multi\nline', 'quotes " and \'', 'back\\slash', 'triple """ inside', 'ünï\tcode', None, 'ends with "',
                           'line1\n\n  indented\nlast', "'''", 'x' * 3])
        op.update(path=path_of(a, rng.choice(defs)), text=text, form='src')
    elif kind == 'put_line_comment' and stmts:
        n = rng.choice(stmts)
        op.update(path=path_of(a, n), comment=rng.choice(['c', 'new comment', None, 'ü', '#x', 'a # b']), form='src')
    elif kind in ('attr_assign', 'attr_del'):
        cands = []
        for n in nodes:
            for f in n._fields:
                v = getattr(n, f, None)
                if kind == 'attr_del':
                    if isinstance(v, ast.expr) and f in ('returns', 'value', 'msg', 'cause', 'exc', 'annotation', 'type', 'lower', 'upper', 'step',
                                                         'optional_vars', 'guard', 'orelse', 'format_spec'):
                        if isinstance(n, (ast.Return, ast.FunctionDef, ast.AsyncFunctionDef, ast.Assert, ast.Raise, ast.arg, ast.ExceptHandler, ast.Slice,
                                          ast.withitem, ast.match_case, ast.AnnAssign, ast.Yield)):
                            if not (isinstance(n, ast.Assert) and f == 'test') and not (isinstance(n, ast.AnnAssign) and f != 'value'):
                                cands.append((n, f))
                    elif isinstance(v, list) and v and f in ('decorator_list', 'orelse', 'finalbody', 'keywords', 'bases', 'type_params'):
                        cands.append((n, f))
                else:
                    if isinstance(v, ast.expr) and isinstance(getattr(v, 'ctx', ast.Load()), ast.Load) and not isinstance(n, (ast.JoinedStr, ast.FormattedValue)):
                        cands.append((n, f))
        if not cands:
            return None
        n, f = rng.choice(cands)
        op.update(path=path_of(a, n), field=f)
        if kind == 'attr_assign':
            op['code'] = rng.choice(EXPRS)
    elif kind in ('view_set', 'view_del'):
        cands = [(n, f) for n in nodes for f in ('body', 'elts', 'args', 'targets', 'names', 'orelse', 'decorator_list', 'values')
                 if isinstance(getattr(n, f, None), list) and getattr(n, f) and not isinstance(n, (ast.Dict, ast.JoinedStr, ast.arguments, ast.Lambda, ast.IfExp))
                 and isinstance(getattr(n, f)[0], ast.AST)]
        if not cands:
            return None
        n, f = rng.choice(cands)
        L = len(getattr(n, f))
        i = rng.randrange(-L, L)
        op.update(path=path_of(a, n), field=f, idx=i)
        if kind == 'view_set':
            el = getattr(n, f)[i]
            op['code'] = rng.choice(STMTS if isinstance(el, ast.stmt) else EXPRS)
    else:
        return None
    if op.get('path') is None:
        return None
    return op


def make_code(op, rng=None):
    """the code operand in the requested form (src / fst / ast)"""
    import fst
    code = op.get('code')
    if code is None or op['form'] == 'src':
        return code
    kind = op['kind']
    try:
        if kind in ('replace_stmt', 'put_slice_stmts', 'insert_stmt', 'append_stmt', 'prepend_stmt') or (kind == 'view_set' and code in STMTS):
            f = fst.FST(code, 'exec')
        elif kind == 'replace_pattern':
            f = fst.FST(code, 'pattern')
        elif kind == 'put_slice_exprs':
            f = fst.FST(code, 'Tuple')
        else:
            f = fst.FST(code, 'expr')
    except Exception:
        return code
    return f if op['form'] == 'fst' else f.a


def apply(root, op):
    """execute; returns ('ok', None) or ('exc', exception)"""
    import fst
    kind = op['kind']
    opts = dict(op.get('options') or {})
    try:
        n = node_at(root.a, op['path'])
        f = n.f
        code = make_code(op)
        if kind in ('replace_expr', 'replace_stmt', 'replace_pattern'):
            f.replace(code, **opts)
        elif kind == 'replace_op':
            if op['via'] == 'put':
                if op['idx'] is None:
                    f.put(code, op['field'], **opts)
                else:
                    f.put(code, op['idx'], op['field'], **opts)
            else:
                o = getattr(f, op['field'])
                (o if op['idx'] is None else o[op['idx']]).replace(code, **opts)
        elif kind == 'remove':
            f.remove(**opts)
        elif kind == 'cut':
            f.cut(**opts)
        elif kind == 'put_slice_stmts' or kind == 'put_slice_exprs':
            f.put_slice(code, op['start'], op['stop'], op['field'], **opts)
        elif kind == 'insert_stmt':
            f.insert(code, op['idx'], op['field'], one=False, **opts)
        elif kind == 'append_stmt':
            f.extend(code, op['field'], **opts)
        elif kind == 'prepend_stmt':
            getattr(f, op['field']).prextend(code, **opts)
        elif kind == 'put_one':
            f.put(code, op['idx'], op['field'], **opts)
        elif kind == 'put_docstr':
            f.put_docstr(op['text'], **{k: v for k, v in opts.items() if k in ('trivia', 'pep8space', 'norm')})
        elif kind == 'put_line_comment':
            f.put_line_comment(op['comment'])
        elif kind == 'attr_assign':
            with fst.FST.options(**opts):
                setattr(f, op['field'], code)
        elif kind == 'attr_del':
            with fst.FST.options(**opts):
                delattr(f, op['field'])
        elif kind == 'view_set':
            with fst.FST.options(**opts):
                getattr(f, op['field'])[op['idx']] = code
        elif kind == 'view_del':
            with fst.FST.options(**opts):
                del getattr(f, op['field'])[op['idx']]
        else:
            raise AssertionError(kind)
        return 'ok', None
    except Exception as e:
        return 'exc', e


def op_brief(op):
    d = {k: v for k, v in op.items() if k not in ('options',)}
    o = {k: v for k, v in (op.get('options') or {}).items() if k != 'norm'}
    if o:
        d['options'] = o
    return d


def eof_trailing_space_case(before_src: str, op: dict) -> bool:
    """the known-finding class: a statement-level put at the very end of a source that has NO trailing newline, made with a
    trailing-trivia option that asks for following blank lines ('...+' / '...+N')"""
    tr = (op.get('options') or {}).get('trivia', True)
    if isinstance(tr, list):
        tr = tuple(tr)
    trail = tr[-1] if isinstance(tr, tuple) and tr else None
    if not (isinstance(trail, str) and '+' in trail):
        return False
    if before_src.endswith('\n'):
        return False
    try:
        n = node_at(ast.parse(before_src), op['path'])
    except Exception:
        return False
    if op['kind'] in ('put_slice_stmts', 'insert_stmt', 'append_stmt', 'prepend_stmt', 'view_set', 'view_del', 'attr_assign', 'attr_del'):
        v = getattr(n, op.get('field', ''), None)
        if isinstance(v, list) and v and isinstance(v[-1], ast.AST):
            n = v[-1]
    last = len(before_src.split('\n'))
    return getattr(n, 'end_lineno', None) == last


def continuation_semicolon_case(before_src: str, op: dict) -> bool:
    """the known-finding class: a statement-level put / delete whose (last) target statement is followed by a line continuation and a ';' on the next
    physical line ('a \\<newline>  ;'), made with an explicit trailing-trivia option (a kind other than the default 'line', or a '+N' space part)"""
    tr = (op.get('options') or {}).get('trivia', True)
    if isinstance(tr, list):
        tr = tuple(tr)
    trail = tr[-1] if isinstance(tr, tuple) and tr else None
    if not isinstance(trail, str):
        return False
    try:
        n = node_at(ast.parse(before_src), op['path'])
    except Exception:
        return False
    if op['kind'] in ('put_slice_stmts', 'insert_stmt', 'append_stmt', 'prepend_stmt', 'view_set', 'view_del', 'attr_assign', 'attr_del'):
        v = getattr(n, op.get('field', ''), None)
        if isinstance(v, list) and v and isinstance(v[0], ast.AST):
            cands = v
        else:
            cands = [n]
    else:
        cands = [n]
    lines = before_src.split('\n')
    for c in cands:
        el, ec = getattr(c, 'end_lineno', None), getattr(c, 'end_col_offset', None)
        if el is None or el >= len(lines):
            continue
        rest = lines[el - 1].encode()[ec:].decode().strip()
        if rest == '\\' and lines[el].lstrip().startswith(';'):
            return True
    return False


def stmt_before_continuation_semicolon(src: str, stmt) -> bool:
    """`stmt` (an ast statement of ast.parse(src), or anything with end_lineno / end_col_offset) is followed by a line continuation and a ';' that stands
    alone (nothing but white space / a comment after it) on the next physical line: the known-finding layout for put_line_comment"""
    lines = src.split('\n')
    el, ec = getattr(stmt, 'end_lineno', None), getattr(stmt, 'end_col_offset', None)
    if el is None or el >= len(lines):
        return False
    rest = lines[el - 1].encode()[ec:].decode().strip()
    nxt = lines[el].strip()
    return rest == '\\' and nxt.startswith(';') and (nxt[1:].strip() == '' or nxt[1:].strip().startswith('#'))
