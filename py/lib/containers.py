"""Container templates: for every list-like field kind a way to render a program from a list of element source strings,
the path to the container node, the field name, how a slice of new elements is written as code, and element pools.
Rendering from element strings gives an *independent* expected result: the expected tree after an edit is simply
ast.parse(render(expected element list)) - no pfst code involved."""

from __future__ import annotations

import random
from dataclasses import dataclass, field as dfield
from typing import Callable

E_SIMPLE = ['a', 'b', 'c', 'd', 'e1', 'x.y', 'f(z)', '1', "'s'", 'g[0]', '(p, q)', '[r]', 'u + v', '-w', '(yy)',
            'a if b else c', 'lambda: 0', 'ü', '{k: v}', 'n ** 2', 'not t', 'i < j', 'a and b', 'f(\n  z\n)']
E_NAMES = ['a', 'b', 'c', 'd', 'e1', 'ü', 'nm', 'x_1', 'zz']
E_TARGETS = ['a', 'b.c', 'd[0]', 'e1', '(f, g)', '[h]', 'x.y.z', 'ü']
E_DEL = ['a', 'b.c', 'd[0]', 'e1', 'x.y.z', 'ü', '(f, g)']
E_ALIAS = ['a', 'b', 'c as d', 'e1', 'f as g', 'ü']
E_ALIAS_DOT = ['a', 'b.c', 'd as e', 'f.g as h', 'i1']
E_WITH = ['a', 'b as c', 'f(x) as g', 'd', 'h as (i, j)', 'k.l']
E_DICT = ['a: b', '1: 2', "'k': v", '**d', 'x.y: f(z)', '(p, q): [r]', 'c: {e: f}']
E_KW = ['a', 'b', '*c', 'k=d', '**e', 'f(x)', 'm=n.o', '1']
E_BASES = ['A', 'B', 'c.D', 'metaclass=M', 'k=1', 'G[T]', '*bs']
E_ARGS = ['a', 'b', 'c: int', 'd=1', 'e: str = "s"', '*args', 'k', '**kw', 'f=None']
E_DECO = ['a', 'b.c', 'd(e)', 'f(g)(h)', 'ü']
E_PAT = ['a', '1', '_', "'s'", 'None', 'b.c', '[d, e]', '{1: f}', 'C()', 'C(g, h=i)', '(j | k)', '(l as m)', '-1']
E_PAT_OR = ['1', "'s'", 'None', 'b.c', '[d, e]', '{1: f}', 'C()', 'C(g, h=2)', '-1']
E_PAT_MAP = ['1: a', "'k': b", 'c.d: [e]', '2: C()', '-1: _', '3: (f | g)']
E_IFS = ['a', 'b > 1', 'c and d', 'f(e)', 'not g', '(h if i else j)', 'k.l']
E_GENS = ['a in b', 'c, d in e', 'f in g if h', 'i in j if k if l', '(m, n) in o.p']
E_TP = ['T', 'U', '*Ts', '**P', 'V: int', 'W: (str, bytes)']
E_STMT = ['a = 1', 'b()', 'pass', 'del c', 'd += 1', 'import e', 'if f: pass', 'for g in h: pass', 'x = (\n    1\n)',
          'while i: break', 'def j(): pass', 'class K: pass', 'try: l\nfinally: m', 'return_ = 1  # c', 'with n: o',
          '# pre\np = 2', 'q: int = 3', 'assert r', 'raise S', 'if t:\n    u\nelse:\n    v', '@dd\ndef w(): pass',
          's = """a\nb"""']
E_HANDLERS = ['except A: pass', 'except B as b: c', 'except (C, D): e', 'except E:\n    f\n    g']
E_CASES = ['case 1: pass', 'case [a, b]: c', 'case {"k": v}: d', 'case C(x=1) if g: e', 'case _:\n    f\n    h']
E_CMP = [('<', 'a'), ('>', 'b'), ('==', 'c.d'), ('is not', 'f(e)'), ('in', '[g]'), ('not in', '(h + i)'), ('<=', '1')]
E_BOOL = ['a', 'b.c', 'f(d)', 'not e', 'g < h', '(i or j)', '(k if l else m)', 'n + o']


@dataclass
class Container:
    name: str
    cls: str
    field: str
    pool: list
    render: Callable[[list], str]            # elements -> program source
    code: Callable[[list], str]              # elements -> slice code source to put
    path: str                                # python expression from module FST `m` to the container node
    min_len: int = 0
    valid: Callable[[list], bool] = lambda els: True   # independent validity of an element sequence (ordering rules)
    one_ok: bool = True                      # single-element put(code, idx, field) supported
    kind: str = 'expr'
    seps: tuple = (', ',)
    one: Callable[[str], str] = lambda e: e  # code for a single-element put
    weight: int = 1                          # relative number of iterations (interleaving-heavy containers get more)


def _join(els, sep=', '):
    return sep.join(els)


def _seq(els):
    return _join(els) + (',' if len(els) == 1 else '')


def _wrap(pre, post, open_, close, empty=None, trail1=False):
    def render(els, sep=', '):
        if not els and empty is not None:
            return pre + empty + post
        body = _join(els, sep)
        if trail1 and len(els) == 1:
            body += ','
        return f'{pre}{open_}{body}{close}{post}'
    return render


PRE = 'before = 0\n'
POST = '\nafter = 1\n'


def _kw_valid(els):
    # positional (incl *x) may not follow **kw; plain positional may not follow keyword
    seen_kw = seen_dstar = False
    for e in els:
        if e.startswith('**'):
            seen_dstar = True
        elif e.startswith('*'):
            if seen_dstar:
                return False
        elif '=' in e and not e.startswith('('):
            seen_kw = True
        else:
            if seen_kw or seen_dstar:
                return False
    return True


def _args_valid(els):
    # a, b=1, *args, k, **kw ordering; at most one *x and one **x; no non-default after default before *
    seen_def = seen_star = seen_dstar = False
    names = set()
    for e in els:
        nm = e.lstrip('*').split(':')[0].split('=')[0].strip()
        if nm in names:
            return False
        names.add(nm)
        if seen_dstar:
            return False
        if e.startswith('**'):
            seen_dstar = True
        elif e.startswith('*'):
            if seen_star:
                return False
            seen_star = True
        elif '=' in e:
            seen_def = True
        elif seen_def and not seen_star:
            return False
    return True


def _dict_valid(els):
    return True


def _tp_valid(els):
    names = [e.lstrip('*').split(':')[0].strip() for e in els]
    return len(set(names)) == len(names)


def _names_unique(els):
    return True


def _patmap_valid(els):
    keys = [e.split(':')[0].strip() for e in els]
    return len(set(keys)) == len(keys)


def _cmp_render(els):
    # els are (op, operand); first op ignored
    if not els:
        return None
    s = els[0][1]
    for op, x in els[1:]:
        s += f' {op} {x}'
    return s


def _pat_seq_valid(els):
    return sum(1 for e in els if e.startswith('*')) <= 1


CONTAINERS: list[Container] = [
    Container('List.elts', 'List', 'elts', E_SIMPLE + ['*st'],
              lambda e: f'{PRE}v = [{_join(e)}]{POST}', lambda e: _seq(e), 'm.body[1].value'),
    Container('Tuple.elts', 'Tuple', 'elts', E_SIMPLE + ['*st'],
              lambda e: f'{PRE}v = ({_join(e)}{"," if len(e) == 1 else ""}){POST}', lambda e: _seq(e), 'm.body[1].value'),
    Container('Tuple.elts(unpar)', 'Tuple', 'elts', E_SIMPLE,
              lambda e: f'{PRE}v = {_join(e)}{"," if len(e) == 1 else ""}{POST}' if e else f'{PRE}v = (){POST}',
              lambda e: _seq(e), 'm.body[1].value', min_len=1),
    Container('Set.elts', 'Set', 'elts', E_SIMPLE + ['*st'],
              lambda e: f'{PRE}v = {{{_join(e)}}}{POST}' if e else f'{PRE}v = {{*()}}{POST}',
              lambda e: _seq(e), 'm.body[1].value', min_len=1),
    Container('Call.args', 'Call', 'args', E_SIMPLE + ['*st'],
              lambda e: f'{PRE}fn({_join(e)}){POST}', lambda e: _seq(e), 'm.body[1].value'),
    Container('Call._args', 'Call', '_args', E_KW,
              lambda e: f'{PRE}fn({_join(e)}){POST}', lambda e: _join(e), 'm.body[1].value', valid=_kw_valid, weight=5),
    Container('Dict._all', 'Dict', '_all', E_DICT,
              lambda e: f'{PRE}v = {{{_join(e)}}}{POST}', lambda e: f'{{{_join(e)}}}', 'm.body[1].value', one_ok=False),
    Container('Delete.targets', 'Delete', 'targets', E_DEL,
              lambda e: f'{PRE}del {_join(e)}{POST}' if e else None, lambda e: _seq(e), 'm.body[1]', min_len=1),
    Container('Assign.targets', 'Assign', 'targets', E_TARGETS,
              lambda e: f'{PRE}{"".join(x + " = " for x in e)}val{POST}' if e else None,
              lambda e: "".join(x + " = " for x in e), 'm.body[1]', min_len=1),
    Container('Global.names', 'Global', 'names', E_NAMES,
              lambda e: f'{PRE}global {_join(e)}{POST}' if e else None, lambda e: _join(e), 'm.body[1]', min_len=1, kind='name'),
    Container('Nonlocal.names', 'Nonlocal', 'names', E_NAMES,
              lambda e: f'def outer():\n    nonlocal {_join(e)}{POST}' if e else None, lambda e: _join(e), 'm.body[0].body[0]',
              min_len=1, kind='name'),
    Container('Import.names', 'Import', 'names', E_ALIAS_DOT,
              lambda e: f'{PRE}import {_join(e)}{POST}' if e else None, lambda e: _join(e), 'm.body[1]', min_len=1, kind='alias'),
    Container('ImportFrom.names', 'ImportFrom', 'names', E_ALIAS,
              lambda e: f'{PRE}from mod import {_join(e)}{POST}' if e else None, lambda e: _join(e), 'm.body[1]', min_len=1, kind='alias'),
    Container('ImportFrom.names(par)', 'ImportFrom', 'names', E_ALIAS,
              lambda e: f'{PRE}from mod import (\n    {_join(e, ",  # c\n    ")},\n){POST}' if e else None, lambda e: _join(e),
              'm.body[1]', min_len=1, kind='alias'),
    Container('With.items', 'With', 'items', E_WITH,
              lambda e: f'{PRE}with {_join(e)}:\n    pass{POST}' if e else None, lambda e: _join(e), 'm.body[1]', min_len=1, kind='withitem'),
    Container('AsyncWith.items(par)', 'AsyncWith', 'items', E_WITH,
              lambda e: f'async def co():\n    async with ({_join(e)}):\n        pass{POST}' if e else None, lambda e: _join(e),
              'm.body[0].body[0]', min_len=1, kind='withitem'),
    Container('BoolOp.values', 'BoolOp', 'values', E_BOOL,
              lambda e: f'{PRE}v = {_join(e, " and ")}{POST}' if len(e) >= 2 else None, lambda e: _join(e, ' and '),
              'm.body[1].value', min_len=2, kind='boolop'),
    Container('ClassDef.bases', 'ClassDef', 'bases', ['A', 'B', 'c.D', 'G[T]', 'f(x)', '*bs'],
              lambda e: f'{PRE}class C({_join(e)}):\n    pass{POST}' if e else f'{PRE}class C:\n    pass{POST}',
              lambda e: _seq(e), 'm.body[1]'),
    Container('ClassDef._bases', 'ClassDef', '_bases', E_BASES,
              lambda e: f'{PRE}class C({_join(e)}):\n    pass{POST}' if e else f'{PRE}class C:\n    pass{POST}',
              lambda e: _join(e), 'm.body[1]', valid=_kw_valid, weight=5),
    Container('arguments._all', 'arguments', '_all', E_ARGS,
              lambda e: f'{PRE}def fn({_join(e)}):\n    pass{POST}', lambda e: _join(e), 'm.body[1].args', valid=_args_valid, kind='args'),
    Container('Lambda.arguments._all', 'arguments', '_all', ['a', 'b', 'd=1', '*args', 'k', '**kw', 'f=None'],
              lambda e: f'{PRE}v = lambda {_join(e)}: 0{POST}' if e else f'{PRE}v = lambda: 0{POST}', lambda e: _join(e),
              'm.body[1].value.args', valid=_args_valid, kind='args'),
    Container('FunctionDef.decorator_list', 'FunctionDef', 'decorator_list', E_DECO,
              lambda e: f'{PRE}{"".join("@" + x + chr(10) for x in e)}def fn():\n    pass{POST}',
              lambda e: '\n'.join('@' + x for x in e), 'm.body[1]', kind='deco'),
    Container('MatchSequence.patterns', 'MatchSequence', 'patterns', E_PAT + ['*rest'],
              lambda e: f'{PRE}match s:\n    case [{_join(e)}]:\n        pass{POST}', lambda e: _seq(e),
              'm.body[1].cases[0].pattern', valid=_pat_seq_valid, kind='pattern'),
    Container('MatchOr.patterns', 'MatchOr', 'patterns', E_PAT_OR,
              lambda e: f'{PRE}match s:\n    case {_join(e, " | ")}:\n        pass{POST}' if len(e) >= 2 else None,
              lambda e: _join(e, ' | '), 'm.body[1].cases[0].pattern', min_len=2, kind='pattern'),
    Container('MatchMapping._all', 'MatchMapping', '_all', E_PAT_MAP,
              lambda e: f'{PRE}match s:\n    case {{{_join(e)}}}:\n        pass{POST}', lambda e: f'{{{_join(e)}}}',
              'm.body[1].cases[0].pattern', valid=_patmap_valid, one_ok=False, kind='pattern'),
    Container('MatchClass.patterns', 'MatchClass', 'patterns', E_PAT,
              lambda e: f'{PRE}match s:\n    case Cls({_join(e)}):\n        pass{POST}', lambda e: _seq(e),
              'm.body[1].cases[0].pattern', kind='pattern'),
    Container('comprehension.ifs', 'comprehension', 'ifs', E_IFS,
              lambda e: f'{PRE}v = [x for x in y{"".join(" if " + i for i in e)}]{POST}', lambda e: ' '.join('if ' + i for i in e),
              'm.body[1].value.generators[0]', kind='ifs'),
    # the iterable in grouping parentheses (the first `if` goes BEHIND them), also spread over lines
    Container('comprehension.ifs(iter in parentheses)', 'comprehension', 'ifs', E_IFS,
              lambda e: f'{PRE}v = [x for x in ((y)){"".join(" if " + i for i in e)}]{POST}', lambda e: ' '.join('if ' + i for i in e),
              'm.body[1].value.generators[0]', kind='ifs'),
    Container('comprehension.ifs(iter in parentheses over lines)', 'comprehension', 'ifs', E_IFS,
              lambda e: f'{PRE}v = {{x: 1 for x in (\n y\n){"".join(" if " + i for i in e)}}}{POST}', lambda e: ' '.join('if ' + i for i in e),
              'm.body[1].value.generators[0]', kind='ifs'),
    Container('ListComp.generators', 'ListComp', 'generators', E_GENS,
              lambda e: f'{PRE}v = [x{"".join(" for " + g for g in e)}]{POST}' if e else None, lambda e: ' '.join('for ' + g for g in e),
              'm.body[1].value', min_len=1, kind='gens', one=lambda e: 'for ' + e),
    Container('FunctionDef.type_params', 'FunctionDef', 'type_params', E_TP,
              lambda e: f'{PRE}def fn[{_join(e)}]():\n    pass{POST}' if e else f'{PRE}def fn():\n    pass{POST}', lambda e: _join(e),
              'm.body[1]', valid=_tp_valid, kind='tp'),
    Container('TypeAlias.type_params', 'TypeAlias', 'type_params', E_TP,
              lambda e: f'{PRE}type A[{_join(e)}] = int{POST}' if e else f'{PRE}type A = int{POST}', lambda e: _join(e),
              'm.body[1]', valid=_tp_valid, kind='tp'),
    Container('Module.body', 'Module', 'body', E_STMT,
              lambda e: '\n'.join(e) + '\n', lambda e: '\n'.join(e), 'm', kind='stmt'),
    Container('If.body', 'If', 'body', E_STMT,
              lambda e: f'{PRE}if cond:\n' + _indent('\n'.join(e), '    ') + POST if e else None, lambda e: '\n'.join(e),
              'm.body[1]', min_len=1, kind='stmt'),
    Container('If.orelse', 'If', 'orelse', E_STMT,
              lambda e: f'{PRE}if cond:\n    pass' + ('\nelse:\n' + _indent('\n'.join(e), '    ') if e else '') + POST, lambda e: '\n'.join(e),
              'm.body[1]', kind='stmt'),
    Container('FunctionDef._body', 'FunctionDef', '_body', [s for s in E_STMT if not s.startswith(('import', 's = """'))],
              lambda e: f'{PRE}def fn():\n    """doc"""\n' + _indent('\n'.join(e), '    ') + POST if e else None, lambda e: '\n'.join(e),
              'm.body[1]', min_len=1, kind='stmt'),
    Container('Try.finalbody', 'Try', 'finalbody', E_STMT,
              lambda e: f'{PRE}try:\n    pass\nexcept E:\n    pass' + ('\nfinally:\n' + _indent('\n'.join(e), '    ') if e else '') + POST,
              lambda e: '\n'.join(e), 'm.body[1]', kind='stmt'),
    Container('For.body(nested)', 'For', 'body', E_STMT,
              lambda e: f'class K:\n    def fn(self):\n        for i in j:\n' + _indent('\n'.join(e), '            ') + POST if e else None,
              lambda e: '\n'.join(e), 'm.body[0].body[0].body[0]', min_len=1, kind='stmt'),
    Container('Try.handlers', 'Try', 'handlers', E_HANDLERS,
              lambda e: f'{PRE}try:\n    pass\n' + '\n'.join(e) + ('' if e else 'finally:\n    pass') + POST, lambda e: '\n'.join(e),
              'm.body[1]', min_len=1, kind='handler'),
    Container('Match.cases', 'Match', 'cases', E_CASES,
              lambda e: f'{PRE}match subj:\n' + _indent('\n'.join(e), '    ') + POST if e else None, lambda e: '\n'.join(e),
              'm.body[1]', min_len=1, kind='case'),
]


def _indent(s: str, ind: str) -> str:
    out = []
    instr = False
    for l in s.split('\n'):
        out.append((ind + l) if l and not instr else l)
        if l.count('"""') % 2:
            instr = not instr
    return '\n'.join(out)


BY_NAME = {c.name: c for c in CONTAINERS}


def pick_elems(c: Container, rng: random.Random, n: int, avoid: set | None = None, prefix: str = '') -> list:
    """n distinct elements from the pool (distinctness makes element identity observable)."""
    pool = [p for p in c.pool if not avoid or p not in avoid]
    rng.shuffle(pool)
    return pool[:n]


def render_ok(c: Container, els: list) -> str | None:
    import ast
    if len(els) < c.min_len or not c.valid(els):
        return None
    try:
        src = c.render(els)
    except Exception:
        return None
    if src is None:
        return None
    try:
        ast.parse(src)
    except (SyntaxError, ValueError):
        return None
    return src
