"""Trace correspondence: log every low-level FST._offset / FST._put_src call made while public API edits run (class
attributes are replaced by logging wrappers inside this process only; /repo is untouched) and turn each logged call
into a Coq boolean term  model(before) == after.  Validates the K1/K2 models on exactly the argument patterns real
edits use."""

from __future__ import annotations

from lib import enc
from lib.common import cz, cbool, copt, clines


class Tracer:
    def __init__(self, budget_offset=200, budget_put=200, max_nodes=250, rng=None, sample=1.0):
        self.terms_offset = []
        self.meta_offset = []
        self.terms_put = []
        self.meta_put = []
        self.budget_offset = budget_offset
        self.budget_put = budget_put
        self.max_nodes = max_nodes
        self.rng = rng
        self.sample = sample
        self.calls = {'_offset': 0, '_put_src': 0}
        self.context = None  # set by the driver: description of the API edit in progress
        self.patterns = {}

    def __enter__(self):
        import fst
        from fst.astutil import syntax_ordered_children
        self.fst = fst
        self.kids = syntax_ordered_children
        self.orig_offset = fst.FST._offset
        self.orig_put_src = fst.FST._put_src
        tr = self

        def w_offset(inst, ln, col, dln, dcol_offset, tail=False, head=True, exclude=None, *, offset_excluded=True, self_=True):
            tr.calls['_offset'] += 1
            rec = None
            key = (tail, head, exclude is not None, offset_excluded, self_, (dln > 0) - (dln < 0), (dcol_offset > 0) - (dcol_offset < 0))
            tr.patterns[key] = tr.patterns.get(key, 0) + 1
            if len(tr.terms_offset) < tr.budget_offset and (tr.rng is None or tr.rng.random() < tr.sample):
                try:
                    rec = tr.snap_offset(inst, ln, col, dln, dcol_offset, tail, head, exclude, offset_excluded, self_)
                except Exception:
                    rec = None
            r = tr.orig_offset(inst, ln, col, dln, dcol_offset, tail, head, exclude, offset_excluded=offset_excluded, self_=self_)
            if rec is not None:
                try:
                    tr.finish_offset(rec)
                except Exception:
                    pass
            return r

        def w_put_src(inst, src, ln, col, end_ln, end_col, tail=..., head=True, exclude=None, *, offset_excluded=True):
            tr.calls['_put_src'] += 1
            rec = None
            if len(tr.terms_put) < tr.budget_put and (tr.rng is None or tr.rng.random() < tr.sample):
                try:
                    lines = [str(l) for l in inst.root._lines]
                    if len(lines) <= 25:
                        rec = (lines, src if not isinstance(src, list) else list(map(str, src)), ln, col, end_ln, end_col, inst.root)
                except Exception:
                    rec = None
            r = tr.orig_put_src(inst, src, ln, col, end_ln, end_col, tail, head, exclude, offset_excluded=offset_excluded)
            if rec is not None:
                try:
                    tr.finish_put(rec, r)
                except Exception:
                    pass
            return r

        fst.FST._offset = w_offset
        fst.FST._put_src = w_put_src
        return self

    def __exit__(self, *a):
        self.fst.FST._offset = self.orig_offset
        self.fst.FST._put_src = self.orig_put_src

    # ---- _offset
    def snap_offset(self, f, ln, col, dln, dcol, tail, head, exclude, oe, self_flag):
        root_a = f.root.a
        nodes = enc.preorder(root_a, self.kids)
        if len(nodes) > self.max_nodes:
            return None
        lit, ids = enc.stree(root_a, self.kids)
        # colo exactly as the property of the coordinates: negative/zero col = byte offset, else char -> byte via the line
        if col <= 0:
            colo = -col
        else:
            ls = f.root._lines
            if ln < len(ls):
                l = ls[ln]
                colo = len(str(l)[:min(col, len(l))].encode())
            else:
                colo = 0x7fffffffffffffff
        ex = None
        if exclude is not None and isinstance(exclude, self.fst.FST):
            ex = ids.get(id(exclude.a))
            if ex is None:
                ex = 10 ** 6  # an FST outside this tree: never matches
        if id(f.a) not in ids:
            return None
        return dict(nodes=nodes, lit=lit, self_id=ids[id(f.a)], lno=ln + 1, colo=colo, dln=dln, dcol=dcol, tail=tail, head=head,
                    ex=ex, oe=oe, self_flag=self_flag)

    def finish_offset(self, r):
        exp = enc.positions_literal(r['nodes'])
        model = (f'apply_at {r["self_id"]} (offset_top {cz(r["lno"])} {cz(r["colo"])} {cz(r["dln"])} {cz(r["dcol"])} {enc.tri(r["tail"])} {enc.tri(r["head"])} '
                 f'{copt(r["ex"], lambda v: str(v) + "%nat")} {cbool(r["oe"])} {cbool(r["self_flag"])}) ({r["lit"]})')
        self.terms_offset.append(f'lpos_eqb (flat_pos ({model})) {exp}')
        self.meta_offset.append({'edit': self.context, 'call': {k: r[k] for k in ('self_id', 'lno', 'colo', 'dln', 'dcol', 'tail', 'head', 'ex', 'oe', 'self_flag')},
                                 'tree': r['lit'][:3000]})

    # ---- _put_src
    def finish_put(self, rec, ret):
        lines, src, ln, col, end_ln, end_col, root = rec
        if not (0 <= ln <= end_ln < len(lines)):
            return
        col = min(col, len(lines[ln]))
        end_col = min(end_col, len(lines[end_ln]))  # Python slicing clips; the code passes 0x7fff... sentinels
        new_lines = [str(l) for l in root._lines]
        if not src:
            P = 'None'
        elif isinstance(src, str):
            P = f'(Some {clines(src.split(chr(10)))})'
        else:
            P = f'(Some {clines(src)})'
        self.terms_put.append(f'txt_eqb (put_src {clines(lines)} {P} {ln}%nat {col}%nat {end_ln}%nat {end_col}%nat) {clines(new_lines)}')
        self.meta_put.append({'edit': self.context, 'lines': lines, 'src': src, 'region': [ln, col, end_ln, end_col], 'new_lines': new_lines})
