"""C11 - Whitespace-only source edits in offset mode keep every node on its text."""

from __future__ import annotations

import ast
import copy
import io
import json
import tokenize

from lib.common import *
from lib import enc
from lib.oracle import cmp_ast
from lib.progs import corpus

LEVEL = 'proof'
HDR = ('From Coq Require Import ZArith NArith List Bool.\n'
       'From PF Require Import kernel.PyBase kernel.Text kernel.OffsetBase gen.ParamsOffset gen.OffsetNode models.Offset models.View.\n'
       'Import ListNotations.\nLocal Open Scope Z_scope.\n'
       'Fixpoint ln_eqb (a b : list N) : bool := match a, b with [], [] => true | x :: a\', y :: b\' => N.eqb x y && ln_eqb a\' b\' | _, _ => false end.\n'
       'Fixpoint txt_eqb (a b : list (list N)) : bool := match a, b with [], [] => true | x :: a\', y :: b\' => ln_eqb x y && txt_eqb a\' b\' | _, _ => false end.\n'
       'Definition p4_eqb (a : option (Z*Z*Z*Z)) (b : Z*Z*Z*Z) : bool := match a with Some (a1,a2,a3,a4) => let \'(b1,b2,b3,b4) := b in (a1 =? b1) && (a2 =? b2) && (a3 =? b3) && (a4 =? b4) | None => false end.\n')

ALPHA = ['a', 'b', ' ', ' ', '\t', '#', '\\', 'é', 'ℵ', '😀', ',', '(', 'x']


def stage_translate(ctx: Ctx) -> bool:
    from py2v.all import generate_all
    ok = True
    for name, res in generate_all().items():
        if isinstance(res, str):
            ctx.obligation(f'translate {name} (py2v, fail-closed)', False, res)
            ok = False
        else:
            ctx.obligation(f'translate {name} (py2v, fail-closed)', True, '; '.join(res))
            ctx.trusted.append(f'translator py/py2v/{name}.py over ' + '; '.join(res))
    return ok


def rand_line(rng, maxlen=8):
    return ''.join(rng.choice(ALPHA) for _ in range(rng.randrange(0, maxlen)))


def rand_region(rng, lines):
    ln = rng.randrange(len(lines))
    eln = rng.randrange(ln, min(len(lines), ln + 3))
    col = rng.randrange(len(lines[ln]) + 1)
    if eln == ln:
        ecol = rng.randrange(col, len(lines[ln]) + 1)
    else:
        ecol = rng.randrange(len(lines[eln]) + 1)
    return ln, col, eln, ecol


def stage_text_corr(ctx: Ctx):
    """K1: real FST._put_src / _get_src / _params_offset vs kernel/Text.v and gen/ParamsOffset.v on random texts."""
    import fst
    from fst.fst_core import _params_offset
    rng = ctx.rng
    terms, meta = [], []
    n = ctx.scale(400, 6000)
    for i in range(n):
        lines = [rand_line(rng) for _ in range(rng.randrange(1, 5))]
        ln, col, eln, ecol = rand_region(rng, lines)
        kind = rng.choice(['del', 'one', 'one', 'multi', 'multi', 'empty1'])
        if kind == 'del':
            put, P = None, 'None'
            put_lines = ['']
        elif kind == 'empty1':
            put_lines = ['']
            put = put_lines
            # passing [''] is "not src" only for '' / None / []; a list [''] is truthy -> goes the put path
            P = f'(Some {clines(put_lines)})'
        else:
            put_lines = [rand_line(rng, 5) for _ in range(1 if kind == 'one' else rng.randrange(2, 4))]
            put = list(put_lines)
            P = f'(Some {clines(put_lines)})'
        root = fst.FST('pass', 'exec')
        root._lines[:] = [fst.astutil.bistr(l) for l in lines]
        exp_params = tuple(_params_offset(list(lines), put_lines, ln, col, eln, ecol))
        got_src = root._get_src(ln, col, eln, ecol, True)
        root._put_src(put, ln, col, eln, ecol)
        new_lines = [str(l) for l in root._lines]
        terms.append(f'txt_eqb (put_src {clines(lines)} {P} {ln}%nat {col}%nat {eln}%nat {ecol}%nat) {clines(new_lines)}'
                     f' && txt_eqb (get_src {clines(lines)} {ln}%nat {col}%nat {eln}%nat {ecol}%nat) {clines([str(x) for x in got_src])}'
                     f' && p4_eqb (params_offset {clines(lines)} {clines(put_lines)} {cz(ln)} {cz(col)} {cz(eln)} {cz(ecol)}) '
                     f'({cz(exp_params[0])}, {cz(exp_params[1])}, {cz(exp_params[2])}, {cz(exp_params[3])})')
        m = {'lines': lines, 'put': put, 'region': [ln, col, eln, ecol], 'new_lines': new_lines, 'params': exp_params}
        meta.append(m)
        branch = kind + ('/same' if eln == ln else '/multi')
        ctx.tick(('text', branch, len(lines), ln, col, eln, ecol, tuple(put_lines)), 'put_src:' + branch)
    ctx.sample({'put_src_case': meta[0]})
    failed = coq_eval_bools('C11_text', HDR, terms, shard=500)
    ctx.correspondence('kernel/Text.v put_src,get_src + gen/ParamsOffset.v == FST._put_src,_get_src,_params_offset (random texts with 1-4 byte code points, all five branches)',
                       len(terms), [meta[i] for i in failed])
    return [meta[i] for i in failed]


def children_fn():
    from fst.astutil import syntax_ordered_children
    return syntax_ordered_children


def stage_offset_corr(ctx: Ctx, progs):
    """K2: real FST._offset vs models/Offset.v:offset_top (walk with translated per-node rule) on real parsed trees."""
    import fst
    rng = ctx.rng
    kids = children_fn()
    terms, meta = [], []
    n = ctx.scale(150, 2500)
    for i in range(n):
        src = rng.choice(progs)
        root = fst.FST(src, 'exec')
        nodes = enc.preorder(root.a, kids)
        lit, ids = enc.stree(root.a, kids)
        posn = [p for p in (enc.node_pos(x) for x in nodes) if p]
        # offset point: a node boundary (interesting) or random
        if posn and rng.random() < 0.8:
            p = rng.choice(posn)
            lno, colo = rng.choice([(p[0], p[1]), (p[2], p[3])])
            if rng.random() < 0.2:
                colo = max(0, colo + rng.choice([-1, 1]))
        else:
            lno, colo = rng.randrange(1, len(root._lines) + 2), rng.randrange(0, 12)
        dln = rng.choice([0, 0, 0, 1, 2, -1])
        dcol = rng.choice([0, 1, 2, 3, -1, -2])
        tail = rng.choice([True, False, None])
        head = rng.choice([True, False, None])
        self_node = root.a if rng.random() < 0.5 else rng.choice(nodes)
        excl = rng.choice(nodes) if rng.random() < 0.5 else None
        oe = rng.random() < 0.6
        self_ = rng.random() < 0.6
        try:
            self_node.f._offset(lno - 1, -colo, dln, dcol, tail, head, excl.f if excl else None, offset_excluded=oe, self_=self_)
        except Exception as e:
            ctx.broken.append({'kind': 'harness', 'name': 'stage_offset_corr', 'detail': f'_offset raised {e!r}'})
            continue
        exp = enc.positions_literal(nodes)
        model = (f'apply_at {ids[id(self_node)]} (offset_top {cz(lno)} {cz(colo)} {cz(dln)} {cz(dcol)} {enc.tri(tail)} {enc.tri(head)} '
                 f'{copt(ids[id(excl)] if excl else None, lambda v: str(v) + "%nat")} {cbool(oe)} {cbool(self_)}) ({lit})')
        terms.append(f'lpos_eqb (flat_pos ({model})) {exp}')
        m = {'src': src, 'point': [lno, colo], 'dln': dln, 'dcol': dcol, 'tail': tail, 'head': head,
             'self': ids[id(self_node)], 'exclude': ids[id(excl)] if excl else None, 'offset_excluded': oe, 'self_': self_}
        meta.append(m)
        ctx.tick(('off', hash(src) & 0xffff, lno, colo, dln, dcol, tail, head, m['self'], m['exclude'], oe, self_), '_offset')
    ctx.sample({'offset_case': {k: v for k, v in meta[0].items() if k != 'src'}})
    failed = coq_eval_bools('C11_off', HDR, terms, shard=60)
    ctx.correspondence('models/Offset.v offset_top (hand walk + TRANSLATED per-node rule) == FST._offset on real trees (random point/deltas/tail/head/exclude/offset_excluded/self_)',
                       len(terms), [meta[i] for i in failed])
    return [meta[i] for i in failed]


# ----------------------------------------------------------------------------------------------------------------------

def sig_tokens(src):
    out = []
    for t in tokenize.generate_tokens(io.StringIO(src).readline):
        if t.type in (tokenize.NL, tokenize.COMMENT, tokenize.ENDMARKER):
            continue
        if t.type == tokenize.NEWLINE:
            out.append((t.type, ''))
        elif t.type in (tokenize.INDENT, tokenize.DEDENT):
            out.append((t.type, ''))
        else:
            out.append((t.type, t.string))
    return out


def gaps_of(src):
    """gaps between consecutive significant tokens: (start(ln,col), end(ln,col), bracket depth), 0-based lines, char cols."""
    toks = [t for t in tokenize.generate_tokens(io.StringIO(src).readline)]
    out = []
    depth = 0
    prev = None
    for t in toks:
        if t.type in (tokenize.NL, tokenize.COMMENT, tokenize.INDENT, tokenize.DEDENT, tokenize.ENDMARKER):
            continue
        if t.type == tokenize.NEWLINE:
            if prev is not None and depth == 0:     # the rest of the line behind the last token: spaces and a line comment, trivia of the enclosing block
                out.append(((prev.end[0] - 1, prev.end[1]), (t.start[0] - 1, t.start[1]), -1, prev.string, 'NEWLINE'))
            prev = None
            continue
        if prev is not None:
            out.append(((prev.end[0] - 1, prev.end[1]), (t.start[0] - 1, t.start[1]), depth, prev.string, t.string))
        if t.type == tokenize.OP:
            if t.string in '([{':
                depth += 1
            elif t.string in ')]}':
                depth -= 1
        prev = t
    return out


REPL_IN = ['', ' ', '  ', '\t', ' \\\n ', '\n', '  # c\n  ', '\n\n    ', ' # é\n']
REPL_OUT = ['', ' ', '  ', '\t', ' \\\n ']
REPL_EOL = ['', ' ', '   ', '  # new', ' # \u00e9', '\t# t']


def innermost(nodes_locs, gs, ge, root_f):
    best = None
    for f, loc in nodes_locs:
        s = (loc[0], loc[1])
        e = (loc[2], loc[3])
        if s <= gs and ge <= e and (f is root_f or (gs < e and ge > s)):
            size = (e[0] - s[0], e[1] - s[1] if e[0] == s[0] else e[1])
            key = (e[0] - s[0], (e[1] - s[1]) if e[0] == s[0] else 10 ** 6 + e[1] - s[1])
            if best is None or key < best[0] or (key == best[0] and True):
                # on equal spans prefer the deeper node (later in walk order)
                if best is None or key <= best[0]:
                    best = (key, f)
    return best[1] if best else None


def dump_modulo_debug_text(tree):
    """ast.dump with the blanks of string constants that are literal parts of f-strings removed: inside a self-documenting field `{a = }` the
    whitespace between tokens is also TEXT of the preceding constant; such an edit is still trivia for the expression nodes"""
    tree = copy.deepcopy(tree)
    for n in ast.walk(tree):
        if isinstance(n, ast.JoinedStr):
            for v in n.values:
                if isinstance(v, ast.Constant) and isinstance(v.value, str):
                    v.value = ''.join(v.value.split()).replace('\\', '').replace('#c', '').replace('#é', '')
    return ast.dump(tree)


def stage_oracle(ctx: Ctx, progs):
    """The property itself on the implementation: every token gap x trivia-preserving replacements, compared with a
    from-scratch parse of the new source; also model (offset_mode over translated params/rule) vs implementation."""
    import fst
    rng = ctx.rng
    kids = children_fn()
    per_prog = ctx.scale(18, 10 ** 9)
    terms, meta = [], []
    nmodel = 0
    max_model = ctx.scale(120, 1200)
    ordered_checked = 0
    for pi, src in enumerate(progs):
        try:
            root = fst.FST(src, 'exec')
        except Exception as e:
            ctx.broken.append({'kind': 'harness', 'name': 'stage_oracle', 'detail': f'corpus program {pi} does not build: {e!r}'})
            continue
        bad = enc.ordered_violations(root.a, kids)
        ordered_checked += 1
        if bad:
            ctx.broken.append({'kind': 'hypothesis', 'name': 'Ordered(parse tree)', 'detail': f'program {pi}: {bad}'})
        gaps = gaps_of(src)
        if len(gaps) > per_prog:
            gaps = rng.sample(gaps, per_prog)
        base_tokens = sig_tokens(src)
        base_dump = dump_modulo_debug_text(ast.parse(src))
        for (gs, ge, depth, ptok, ntok) in gaps:
            cur = root.src
            if cur != src:  # keep every gap experiment independent of the previous ones
                root = fst.FST(src, 'exec')
            lines = src.split('\n')
            old = '\n'.join([lines[gs[0]][gs[1]:]] + lines[gs[0] + 1:ge[0]] + [lines[ge[0]][:ge[1]]]) if ge[0] != gs[0] else lines[gs[0]][gs[1]:ge[1]]
            cands = [r for r in (REPL_IN if depth > 0 else REPL_EOL if depth < 0 else REPL_OUT) if r != old]
            rng.shuffle(cands)
            done = 0
            for repl in cands:
                if done >= ctx.scale(2, 5):
                    break
                pl = src.split('\n')
                before = '\n'.join(pl[:gs[0]] + [pl[gs[0]][:gs[1]]])
                after = '\n'.join([pl[ge[0]][ge[1]:]] + pl[ge[0] + 1:])
                new_src = before + repl + after
                try:
                    if sig_tokens(new_src) != base_tokens or dump_modulo_debug_text(ast.parse(new_src)) != base_dump:
                        continue
                except Exception:
                    continue
                done += 1
                if root.src != src:
                    root = fst.FST(src, 'exec')
                nodes = enc.preorder(root.a, kids)
                locs = []
                for a_ in nodes:
                    f = a_.f
                    loc = f.loc
                    if loc is not None:
                        locs.append((f, loc))
                # the literal text of an f-string is not a node the blanks are trivia FOR (inside a self-documenting field they are its content)
                cand = [(f_, l_) for f_, l_ in locs if not (isinstance(f_.a, ast.Constant) and f_.parent is not None and isinstance(f_.parent.a, ast.JoinedStr))]
                node = innermost(cand, gs, ge, root)
                if node is None:
                    continue
                want_model = nmodel < max_model and len(nodes) < 400 and rng.random() < 0.5
                if want_model:
                    lit, ids = enc.stree(root.a, kids)
                desc = {'src': src, 'gap': [gs[0], gs[1], ge[0], ge[1]], 'old': old, 'repl': repl, 'node': type(node.a).__name__,
                        'node_loc': list(node.loc), 'between': [ptok, ntok]}
                # a tool has looked at the tree before it edits: the answers it got are cached
                warm = rng.random() < 0.7
                if warm:
                    for f_, _ in locs:
                        f_.bloc
                        if isinstance(f_.a, (ast.expr, ast.pattern)):
                            f_.pars()
                # the same coordinates counted from the end of the line (negative columns)
                c0, c1 = gs[1], ge[1]
                sl = src.split('\n')
                if rng.random() < 0.3 and c0 < len(sl[gs[0]]):
                    c0 -= len(sl[gs[0]])
                if rng.random() < 0.3 and c1 < len(sl[ge[0]]):
                    c1 -= len(sl[ge[0]])
                desc['put_src_args'] = [gs[0], c0, ge[0], c1]
                desc['queried_before'] = warm
                try:
                    node.put_src(repl, gs[0], c0, ge[0], c1, 'offset')
                except Exception as e:
                    ctx.violation(f'raise|{type(node.a).__name__}|{type(e).__name__}', 'offset-mode put of pure trivia raised', {**desc, 'error': repr(e)})
                    root = fst.FST(src, 'exec')
                    continue
                ctx.tick((pi, gs, ge, repl), 'gap:' + ('in-brackets' if depth > 0 else 'end-of-line' if depth < 0 else 'top') + (':multiline' if '\n' in repl or ge[0] != gs[0] else ''))
                diffs = []
                if root.src != new_src:
                    diffs.append('source text is not the requested splice')
                else:
                    diffs = cmp_ast(root.a, ast.parse(new_src), positions=True)
                    if not diffs:
                        fresh = fst.FST(new_src, 'exec')
                        for a1, a2 in zip(ast.walk(root.a), ast.walk(fresh.a)):
                            f1, f2 = a1.f, a2.f
                            if (tuple(f1.loc) if f1.loc else None) != (tuple(f2.loc) if f2.loc else None):
                                diffs.append(f'{type(a1).__name__}: loc {f1.loc} != {f2.loc}')
                            elif (tuple(f1.bloc) if f1.bloc else None) != (tuple(f2.bloc) if f2.bloc else None):
                                diffs.append(f'{type(a1).__name__}: bloc (location with trailing line comment / decorators) {f1.bloc} != {f2.bloc}')
                            elif isinstance(a1, (ast.expr, ast.pattern)) and tuple(f1.pars()) != tuple(f2.pars()):
                                diffs.append(f'{type(a1).__name__}: pars {f1.pars()} != {f2.pars()}')
                            if len(diffs) > 5:
                                break
                if diffs:
                    ctx.violation(f'pos|{type(node.a).__name__}|{ptok!r}|{ntok!r}|{repl!r}', 'tree after offset-mode put differs from a from-scratch parse of the new source',
                                  {**desc, 'diffs': diffs, 'result_src': root.src})
                    root = fst.FST(src, 'exec')
                    continue
                if want_model:
                    nmodel += 1
                    put_lines = repl.split('\n')
                    exp = enc.positions_literal(nodes)
                    L = clines(src.split('\n'))
                    P = clines(put_lines)
                    t = (f'match params_offset {L} {P} {cz(gs[0])} {cz(gs[1])} {cz(ge[0])} {cz(ge[1])} with '
                         f'Some (l_, co_, dl_, dc_) => lpos_eqb (flat_pos (offset_mode (l_ + 1) (- co_) dl_ dc_ {ids[id(node.a)]} ({lit}))) {exp}'
                         f' && txt_eqb (put_src {L} (Some {P}) {gs[0]}%nat {gs[1]}%nat {ge[0]}%nat {ge[1]}%nat) {clines(new_src.split(chr(10)))}'
                         f' | None => false end')
                    terms.append(t)
                    meta.append(desc)
                if len(ctx.samples) < 5 and rng.random() < 0.02:
                    ctx.sample({'gap_case': {k: v for k, v in desc.items() if k != 'src'}})
    ctx.extra['ordered_hypothesis_checked_on_trees'] = ordered_checked
    ctx.extra['programs'] = len(progs)
    if terms:
        failed = coq_eval_bools('C11_mode', HDR, terms, shard=25)
        ctx.correspondence("models/Offset.v offset_mode o gen/ParamsOffset.v o kernel/Text.v == FST.put_src(action='offset') (all node positions + text, real programs, token gaps)",
                           len(terms), [meta[i] for i in failed])


def stage_edges(ctx: Ctx, progs):
    """Gaps at the very start / end of the node the edit is made on (documented semantics of action='offset': the spot is
    INSIDE self and its parents - their start stays, their end follows - while every other node moves iff it starts at
    or after the spot). Checked against that geometric rule computed here, independent of pfst and of the Coq model."""
    import fst
    rng = ctx.rng
    kids = children_fn()
    n = ctx.scale(250, 4000)
    for it in range(n):
        src = rng.choice(progs)
        root = fst.FST(src, 'exec')
        nodes = [a for a in enc.preorder(root.a, kids) if enc.node_pos(a) and a.f.loc is not None]
        if not nodes:
            continue
        a = rng.choice(nodes)
        f = a.f
        ln, col, eln, ecol = f.loc
        at_end = rng.random() < 0.6
        sp = (eln, ecol) if at_end else (ln, col)
        ins = rng.choice([' ', '  ', '\t'])
        anc = set()
        p = f
        while p is not None:
            anc.add(id(p.a))
            p = p.parent
        before = {id(x): enc.node_pos(x) for x in nodes}
        lines = src.split('\n')
        bcol = len(lines[sp[0]][:sp[1]].encode())
        dbytes = len(ins.encode())
        try:
            f.put_src(ins, sp[0], sp[1], sp[0], sp[1], 'offset')
        except Exception as e:
            ctx.violation(f'edge-raise|{type(a).__name__}|{type(e).__name__}', 'offset-mode insertion at a node boundary raised',
                          {'src': src, 'node': type(a).__name__, 'loc': [ln, col, eln, ecol], 'spot': sp, 'error': repr(e)})
            continue
        ctx.tick(('edge', hash(src) & 0xffff, ln, col, eln, ecol, at_end, ins), 'edge:' + ('end' if at_end else 'start'))
        bad = []
        for x in nodes:
            l, c, el, ec = before[id(x)]
            def mv(pl, pc, at_moves):
                if pl - 1 == sp[0] and (pc > bcol or (pc == bcol and at_moves)):
                    return pl, pc + dbytes
                return pl, pc
            if id(x) in anc:
                exp = (l, c) + mv(el, ec, True)          # container: start stays, an end at the spot follows
            else:
                inside_self = False
                q = x.f.parent
                while q is not None:
                    if q is f:
                        inside_self = True
                        break
                    q = q.parent
                if inside_self and (l, c) == (el, ec) and l - 1 == sp[0] and c == bcol:
                    # an empty child exactly at the spot (e.g. an empty Constant of an f-string format spec): it must stay empty,
                    # whether it stays before or moves after the insertion is a tie the property does not judge
                    got = enc.node_pos(x)
                    if got not in ((l, c, el, ec), (l, c + dbytes, el, ec + dbytes)):
                        bad.append((type(x).__name__, before[id(x)], got, 'empty node at the spot: stays or moves as a whole'))
                    continue
                if inside_self:
                    exp = mv(l, c, True) + mv(el, ec, False)   # child of self: start at spot moves, end at spot stays
                else:
                    # neither container nor below self: an end exactly at the spot belongs to an earlier node (stays unless the
                    # node is empty), a start exactly at the spot belongs to a later node... phase 1 uses tail=True/head=False
                    # for these; the property only says: strictly before stays, strictly after moves. Ties are not judged.
                    e1 = mv(l, c, False) + mv(el, ec, False)
                    e2 = mv(l, c, True) + mv(el, ec, True)
                    e3 = mv(l, c, False) + mv(el, ec, True)
                    got = enc.node_pos(x)
                    if got not in (e1, e2, e3):
                        bad.append((type(x).__name__, before[id(x)], got, 'one of', e1, e2, e3))
                    continue
            got = enc.node_pos(x)
            if got != exp:
                bad.append((type(x).__name__, before[id(x)], got, exp))
        if bad:
            ctx.violation(f'edge|{type(a).__name__}|{"end" if at_end else "start"}', 'after inserting trivia at the boundary of self, a node is not where the before/after/container rule puts it',
                          {'src': src, 'self': type(a).__name__, 'self_loc': [ln, col, eln, ecol], 'spot': sp, 'insert': ins, 'wrong': bad[:5]})


def run(ctx: Ctx):
    ctx.rule = ('(1) random texts/regions/put-lines for the text kernel (distinct = branch+geometry+content); (2) random _offset parameter '
                'tuples on corpus trees (distinct = full tuple); (3) every/sampled gap between consecutive tokens of corpus programs x '
                'trivia-preserving replacements (validated by identical significant token stream and AST), put through '
                "put_src(action='offset') on the innermost strictly-containing node; distinct = (program, gap, replacement)")
    ctx.assumptions += ['OH1: CPython positions are token extents (cross-checked by ast.parse on every case)',
                        'Ordered (syntax order of spans) holds of parser output: checked on every corpus tree',
                        'syntax_ordered_children of the implementation gives the child order used to encode trees']
    ok = stage_translate(ctx)
    progs = corpus(ctx.rng, gen=ctx.scale(6, 60))
    if ok:
        ctx.build_props()
        run_guarded(ctx, stage_text_corr)
        run_guarded(ctx, stage_offset_corr, progs)
    # small programs whose every gap is tried: self-documenting f-string fields behind non-ASCII text, multi-line holders whose first line is longer than the last
    extra = ["x = f'é {a = }'\n", "y = f'ü{b=!r:>10} ñ {c = } {d  =  }'\n", "z = f'''ö\n {e = } é {f=}'''\n", 'w = foo(a,  b ,\n    c)\n', 'v = [aaaa,   bbbb,\n]\n',
             "s = f'{ {1, 2} }' + f'é{ (x) = }'\n", "q = 1\nx = f'''{a + \\\n b = }'''\n", "y = f'{a is not b = }'\n", "z = f'{a not in b = } {c   is   not   d=}'\n",
             "if x:\n    w = f'{(a,\n  b) = !r}'\n", "k = 0\nu = f'{a +\\\n  b = } {f(c,\n d) = :>{w}}'\n", 'def f():\n  if a:\n    x = 1  # c\ny = 2\n', '@d1\n@d2(a,  b)\ndef g(a,  b ,\n      c): pass\n',
             # positional and keyword arguments interleaved in every way (the syntax order of a Call / ClassDef merges two lists): starred arguments behind the last keyword, keywords between them
             'f(k=1, *a, *b, *c)\ng(x, k=1, *a, j=2, *b, *c, **d)\n', 'class K(A, m=1, *B, *C, *D): pass\nh(*a, k=1, *b, l=2, *c, *d, *e)\n', 'r = f(k=1,\n      *a,\n  *b,  *c)\n']
    run_guarded(ctx, stage_oracle, extra + progs)
    run_guarded(ctx, stage_edges, progs)


def replay(path):
    d = json.load(open(path))
    print(json.dumps(d, indent=1)[:4000])
    return 0
