"""C07 - Copying never disturbs the tree; extraction is faithful and loses nothing."""

from __future__ import annotations

import ast
import collections
import json

from lib.common import *
from lib.oracle import cmp_ast, reparse_diffs, tokens
from lib.progs import corpus
from props.C11 import stage_translate
from props.C08 import VIRTUAL, list_fields, parents, squash_multiline_strings

LEVEL = 'proof'
HDR = ('From Coq Require Import NArith List Bool Arith.\nFrom PF Require Import kernel.PyBase kernel.Text models.Extract.\nImport ListNotations.\n'
       'Fixpoint ln_eqb (a b : list N) : bool := match a, b with [], [] => true | x :: a\', y :: b\' => N.eqb x y && ln_eqb a\' b\' | _, _ => false end.\n'
       'Fixpoint txt_eqb (a b : list (list N)) : bool := match a, b with [], [] => true | x :: a\', y :: b\' => ln_eqb x y && txt_eqb a\' b\' | _, _ => false end.\n')


class DedentTracer:
    """records every FST._dedent_lns / _indent_lns call (before lines, string, computed line set, after lines) and every
    _make_fst_and_dedent call without prefix/suffix (original lines, copy_loc, resulting lines) made while active"""

    def __init__(self, budget=400, rng=None, max_lines=60):
        self.terms, self.meta = [], []
        self.budget = budget
        self.rng = rng
        self.max_lines = max_lines
        self.calls = collections.Counter()
        self.context = None
        self.stack = []

    def __enter__(self):
        import fst
        F = fst.FST
        self.orig = (F._dedent_lns, F._indent_lns, F._make_fst_and_dedent)
        tr = self
        od, oi, om = self.orig

        def wrap_lns(orig, kind):
            def w(inst, s=None, lns=None, *, skip=1, docstr=True, docstr_strict_exclude=None):
                root = inst.root
                if s is None:
                    s = root.indent
                if lns is None:
                    lns = inst._get_indentable_lns(skip, docstr=docstr, docstr_strict_exclude=docstr_strict_exclude)
                before = [str(l) for l in root._lines]
                r = orig(inst, s, lns, skip=skip, docstr=docstr, docstr_strict_exclude=docstr_strict_exclude)
                after = [str(l) for l in root._lines]
                tr.calls[kind] += 1
                if tr.stack:
                    tr.stack[-1]['nested'].append((kind, s, sorted(lns)))
                if len(before) <= tr.max_lines and len(tr.terms) < tr.budget and (tr.rng is None or tr.rng.random() < 0.5) and s != '':
                    fn = 'dedent_lns' if kind == 'dedent' else 'indent_lns'
                    tr.terms.append(f'txt_eqb ({fn} {cline(s)} [{"; ".join(str(x) for x in sorted(lns))}] {clines(before)}) {clines(after)}')
                    tr.meta.append({'call': kind, 'string': s, 'lns': sorted(lns), 'before': before, 'after': after, 'context': tr.context})
                return r
            return w

        def wmake(inst, indent, ast_, copy_loc, prefix=None, suffix=None, put_loc=None, put_lines=None, **kw):
            lines0 = [str(l) for l in inst.root._lines]
            tr.stack.append({'nested': []})
            try:
                res = om(inst, indent, ast_, copy_loc, prefix, suffix, put_loc, put_lines, **kw)
            finally:
                fr = tr.stack.pop()
            tr.calls['make'] += 1
            fst_ = res[0]
            out = [str(l) for l in fst_._lines]
            if not prefix and not suffix and len(lines0) <= tr.max_lines and len(tr.terms) < tr.budget and len(fr['nested']) <= 1:
                ln, col, eln, ecol = copy_loc
                term = f'(copy_text {clines(lines0)} {ln} {col} {eln} {ecol})'
                for kind, s, lns in fr['nested']:
                    if kind != 'dedent':
                        return res
                    term = f'(dedent_lns {cline(s)} [{"; ".join(map(str, lns))}] {term})'
                tr.terms.append(f'txt_eqb {term} {clines(out)}')
                tr.meta.append({'call': 'make_fst_and_dedent', 'lines': lines0, 'copy_loc': list(copy_loc), 'nested': fr['nested'], 'result': out, 'context': tr.context})
                if put_loc is not None:
                    # the remainder of the cut: put_lines in place of put_loc
                    after = [str(l) for l in inst.root._lines]
                    pl = [str(l) for l in put_lines] if put_lines else None
                    pln, pcol, peln, pecol = put_loc
                    if pl is None or len(pl) >= 1:
                        tr.terms.append(f'txt_eqb (put_spec {clines(lines0)} {clines(pl) if pl else "[]"} {pln} {pcol} {peln} {pecol}) {clines(after)}')
                        tr.meta.append({'call': 'cut remainder', 'lines': lines0, 'put_loc': list(put_loc), 'put_lines': pl, 'after': after, 'context': tr.context})
            return res

        F._dedent_lns = wrap_lns(od, 'dedent')
        F._indent_lns = wrap_lns(oi, 'indent')
        F._make_fst_and_dedent = wmake
        return self

    def __exit__(self, *a):
        import fst
        F = fst.FST
        F._dedent_lns, F._indent_lns, F._make_fst_and_dedent = self.orig
        return False


SEPARATORS = {'finally', '@', '/', ',', '(', ')', '[', ']', '{', '}', ':', ';', '|', 'if', 'elif', 'else', '=', 'and', 'or', '\\', 'pass', '.', 'as', '*', '**', '()'}
CMPOPS = {'==', '!=', '<', '<=', '>', '>=', 'is', 'not', 'in'}


def tok_multiset(src):
    ts = tokens(src)
    if ts is None:
        return None, None
    code = collections.Counter(t[1] for t in ts if t[0] != 61 and t[1].strip())   # tokenize.COMMENT == 61 in 3.12? use name below
    import tokenize
    code = collections.Counter((' '.join(t[1].split()) if t[0] == tokenize.STRING and '\n' in t[1] else t[1]) for t in ts if t[0] != tokenize.COMMENT and t[1].strip())
    com = collections.Counter(t[1].rstrip() for t in ts if t[0] == tokenize.COMMENT)
    return code, com


def inside_clause_head(src, comment):
    """the comment stands on its own line(s) directly below an else / except / finally header, above the first statement of that clause"""
    lines = src.split('\n')
    for k, l in enumerate(lines):
        if l.strip() == comment.strip():
            for m in reversed(lines[:k]):
                t = m.strip()
                if not t or t.startswith('#'):
                    continue
                return t.split('#')[0].rstrip().endswith(':') and t.split(':')[0].split(' ')[0].rstrip(':') in ('else', 'except', 'finally', 'except*')
    return False


def before_clause_header(src, comment):
    """the comment stands on its own line(s) directly above an else/elif/except/finally header"""
    lines = src.split('\n')
    for k, l in enumerate(lines):
        if l.strip() == comment.strip():
            for m in lines[k + 1:]:
                t = m.strip()
                if not t or t.startswith('#'):
                    continue
                if t.split(':')[0].split(' ')[0].rstrip(':') in ('else', 'elif', 'except', 'finally', 'except*'):
                    return True
                break
    return False


def child_dumps(a):
    out = []
    for c in ast.iter_child_nodes(a):
        if isinstance(c, (ast.expr_context, ast.boolop)):
            continue
        out.append(ast.dump(squash_multiline_strings(c) if False else c))
    return out


def norm_dump(a):
    import re
    return re.sub(r'ctx=(Load|Store|Del)\(\)', 'ctx=_', ast.dump(a))


def expected_elements(g, fl, i, j):
    a = g.a
    if fl == '_all':
        if isinstance(a, ast.Dict):
            return [k for k in a.keys[i:j] if k is not None] + a.values[i:j]
        if isinstance(a, ast.MatchMapping):
            return a.keys[i:j] + a.patterns[i:j]
        if isinstance(a, ast.Compare):
            return ([a.left] + a.comparators)[i:j]
        if isinstance(a, ast.arguments):
            return None
    v = getattr(a, fl, None)
    if isinstance(v, list) and v and isinstance(v[0], str):
        return [ast.Name(id=x, ctx=ast.Load()) for x in v[i:j]]      # identifiers (Global / Nonlocal names) come out as Names
    return v[i:j] if isinstance(v, list) else None


TARGETED_PROGS = [
    # multi-line f-strings with a NESTED f-string that starts on a later line than the outer one (the lines between are part of the string value: never dedented)
    'class K:\n    def m(self):\n        header = f"""<table>\n      {f"<tr>{a}</tr>"}\n  </table>"""\n        return header\n',
    "if x:\n    y = f'''a\n  b {f'{c}'}\n d {f'''e\n{g}'''}\n'''\n    z = 1\n",
    'def f():\n    if a:\n        return f"""\n{b}\n   {f"{c!r:>{w}}"}\n""" + "t"\n',
    'try:\n    pass\nexcept A:\n    s = "déjà vu"  # ü\nexcept B:\n    t = "naïve"\nfinally:\n    u = "é"\n',
    'def first():\n    pass\n# explains second()\ndef second():\n    pass\n',
    'def first():\n    pass\n\n# explains second()\ndef second():\n    pass\nx = 1\n',
    'class K:\n    def a(self): pass\n    # about b\n    def b(self): pass\n\n    # about c\n    c = 1\n',
    'match x:\n    case 1:\n        s = "é"  # ö\n    case _:\n        t = "ü"\n',
    'import a\n# about f\ndef f(): pass\n\n\n# about g\ndef g(): pass\nx = 1\n',
    'if a:\n    class C: pass\n    # about d\n    d = "ñ"\nelse:\n    e = "ß"  # ä\n',
    'x = (a\n     and  # why\n                          b\n     and c)\ny = (p or  # cp\n     q or  # cq\n     r)\n',
    'z = (a\n     <  # lt\n            b\n     <= c)\nw = [\n    e1,  # c1\n    e2,  # c2\n    e3  # c3\n]\n',
    'match v:\n    case (a  # ca\n          | b  # cb\n          | c  # cc\n          ): pass\n',
    # a multi-line BYTES literal standing alone as a statement in an indented block (no docstring: its lines are content); list fields that start with None and hold nodes behind it
    'def f():\n    b\"\"\"x\n    y\"\"\"\n    return 1\nclass K:\n    def m(self):\n        x = 1\n        b\'\'\'p\n        q\'\'\'\n',
    'if x:\n    def f(*, a, b=1): pass\n    y = {**base, "k": v}\n    z = lambda *, p, q=2: p\n',
    # statements joined by a line continuation and a ';' on the next physical line (recorded finding of the statement slice engine for trailing-trivia kinds beyond the line)
    'if x:\n    a \\\n  ;\n    b\nwhile y:\n    c; \\\n    d\n',
    # sequences inside replacement fields of f-strings: the self-documenting text and the "{{" guard must be maintained by cuts as by deletes
    "x = f'{[a, b, c]=}'\ny = f'{a, {b}, c}'\nz = f'{ {k: v, l: w} }'\nw = f'{[p, q] = !r:>{n}}'\n",
]


def targeted_cases():
    """every (start, stop) of every statement-like list field of the targeted programs, with the default and two explicit trailing-trivia options"""
    import fst
    for src in TARGETED_PROGS:
        probe = fst.FST(src, 'exec')
        for h in probe.walk(True):
            for fl in ('body', 'handlers', 'cases', 'orelse', 'finalbody', 'values', 'elts', 'patterns', '_all'):
                v = getattr(h.a, fl, None) if fl != '_all' else (list(getattr(h, '_all')) if isinstance(h.a, ast.Compare) else None)
                if fl == '_all' and isinstance(h.a, ast.Dict):
                    v = list(getattr(h, '_all'))
                if fl in ('values', 'elts', 'patterns', '_all') and not isinstance(h.a, (ast.BoolOp, ast.List, ast.MatchOr, ast.Compare, ast.Tuple, ast.Set, ast.Dict)):
                    continue
                if isinstance(v, list) and v and (fl == '_all' or isinstance(v[0], ast.AST)):
                    for i in range(len(v)):
                        for j in range(i + 1, len(v) + 1):
                            for opts in ({}, {'trivia': ('block', 'line+1')}, {'trivia': (False, 'block+2')}, {'trivia': (False, 'all')}, {'trivia': ('all', 'all+1')}):
                                yield {'src': src, 'path': probe.child_path(h), 'field': fl, 'i': i, 'j': j, 'opts': dict(opts)}


def targeted_copy_cases():
    """copy() of every statement of the targeted programs under the explicit trailing-trivia options"""
    import fst
    for src in TARGETED_PROGS:
        probe = fst.FST(src, 'exec')
        for h in probe.walk(True):
            if isinstance(h.a, ast.stmt):
                for opts in ({'trivia': (False, 'all')}, {'trivia': ('block', 'all')}, {'trivia': (False, 'block')}, {'trivia': ('all', 'line+2')}):
                    yield {'src': src, 'path': probe.child_path(h), 'kind': 'copy', 'opts': dict(opts)}


TARGETED_SEQ_PROGS = ['del (a), (b), (c)\n', 'x = (a), (b), (c)\n', 'import a, b.c as d, e\n', 'from m import (a, b as c, d)\n', 'def g():\n    global a, b, c\n', 'with (a), (b) as (c), (d): pass\n',
                      '(a) = (b) = (c) = d\n', 'x = a[(i), (j), (k)]\n', '@(d1)\n@d2(x)\n@d3\ndef f(): pass\n', 'class K((A), (B), k=(1), j=(2)): pass\n', 'f((a), *(b), k=(1), **(c))\n',
                      'def f(*args, a=1, b=2): pass\n', 'def f(a, *, b=1, c=2): pass\n', 'def f(a, /, b=(1), *c, d, e=(2), **g): pass\n', 'lambda a, b=(1), *c, d=(2), **e: 0\n',
                      'x = [i for i in (j) if (k) if (l) for m in (n) if (o)]\n', 'def f[T, *U, **V](): pass\n', 'x = {**(a), (b): (c), **(d)}\n', 'match v:\n  case C((a), (b), k=(c), j=(d)): pass\n  case {1: (a), 2: (b), **r}: pass\n',
                      'if a:\n    del (a), (b)\nelse:\n    del c, (d)\n', 'for i in (j), (k), (l): pass\n', 'return_ = (a), (b)\n']
# non-ASCII text inside what is removed and before what stays on the same line (byte columns and character columns differ), trailing separators kept
TARGETED_SEQ_PROGS += ['é = b = 1\n', 't = ("é", ü,)\n', 'match x:\n case ("é", ü,): pass\n', 'del é, b\n', 'ü = [é, "ö", b,]\n', 'f(é, "ü", k=1,)\n', 'class C(É, b,): pass\n', 'def f(é, ü=1,): pass\n',
                       'with é as ü, b as c: pass\n', 'import é, b\n', 'from m import é, b\n', 'def g():\n    global é, b\n', 'x = {é: "ü", b: c,}\n', 'v = é < "ü" < b\n', 'v = é and "ü" and b\n',
                       'match x:\n case {"é": ü, "b": c,}: pass\n', 'match x:\n case C("é", ü=b,): pass\n', 'match x:\n case "é" | "ü" | b: pass\n', 'type T[É, Ü,] = int\n',
                       'x = [i for i in é if "ü" if b]\n', 'x = a["é", ü,]\n', '"é"; é = b = c = 1\n', 'x = {"é", ü,}\n', 'x = {"é", ü,}; y = [é, b,]\n']
# identifiers written un-normalized (the tree holds their NFKC form, which is shorter than the source text)
TARGETED_SEQ_PROGS += ['def g():\n    global \ufb01, b, \ufb02\n', 'def g():\n    def h():\n        nonlocal a, \ufb01, b\n', 'import \ufb01, b, \ufb02.c as \ufb03\n', 'from m import (\ufb01 as \ufb02, b, \ufb03)\n',
                       'def f(\ufb01, \ufb02=1, *\ufb03, \ufb00, **\ufb04): pass\n', 'class C(\ufb01, k=\ufb02): pass\n', 'del \ufb01, b, \ufb02\n', 'with \ufb01 as \ufb02, b as \ufb03: pass\n',
                       'match x:\n case {1: \ufb01, 2: b, **\ufb02}: pass\n', 'match x:\n case C(\ufb01, \ufb02=1, \ufb03=b): pass\n', 'type T[\ufb01, *\ufb02, **\ufb03] = int\n', '\ufb01 = \ufb02 = b = 1\n',
                       'f(\ufb01, \ufb02=1, *\ufb03)\n', 'match x:\n case [\ufb01, *\ufb02, b]: pass\n', 'match x:\n case \ufb01.a | \ufb02.b | c.d: pass\n']
# an or-pattern / operand chain inside a parent that goes on for another line: the parent's end column on the later line takes every value around the column where the inner
# node ends after the removal (positions are fixed up by comparing with the old end)
TARGETED_SEQ_PROGS += [f'match x:\n    case [a | b | c,\n{" " * 10}{"d" * w}]:\n        pass\n' for w in range(1, 12)]
TARGETED_SEQ_PROGS += [f'match x:\n    case C(a | b | c,\n{" " * 6}{"d" * w}):\n        pass\n' for w in range(4, 16)]
TARGETED_SEQ_PROGS += [f'match x:\n    case {{1: a | b | c,\n{" " * 6}2: {"d" * w}}}:\n        pass\n' for w in range(1, 12)]
TARGETED_SEQ_PROGS += [f'match x:\n    case (a | b | c) as \\\n{" " * w}d:\n        pass\n' for w in range(8, 20)]
TARGETED_SEQ_PROGS += [f'v = [a and b and c,\n{" " * 4}{"d" * w}]\n' for w in range(1, 14)]
TARGETED_SEQ_PROGS += [f'v = f(a < b < c,\n{" " * 4}{"d" * w})\n' for w in range(1, 14)]


def targeted_seq_cases():
    """every (start, stop) of every expression-level list field (and merged virtual field) of programs whose elements are parenthesized / of every parameter kind"""
    import fst
    virt = {ast.arguments: '_all', ast.Call: '_args', ast.ClassDef: '_bases', ast.Dict: '_all', ast.MatchMapping: '_all', ast.Compare: '_all', ast.MatchClass: '_attrs'}
    for src in TARGETED_SEQ_PROGS:
        probe = fst.FST(src, 'exec')
        for h in probe.walk(True):
            fields = [fl for fl in h.a._fields if isinstance(getattr(h.a, fl, None), list) and getattr(h.a, fl) and isinstance(getattr(h.a, fl)[0], ast.AST) and fl not in ('body', 'orelse', 'finalbody', 'handlers', 'cases', 'type_ignores', 'ops',
                                                                                                                                'comparators', 'keys', 'values', 'kwd_attrs', 'kwd_patterns', 'defaults', 'kw_defaults',
                                                                                                                                'posonlyargs', 'kwonlyargs') or (fl == 'values' and isinstance(h.a, ast.BoolOp))]
            if type(h.a) in virt:
                fields = [fl for fl in fields if fl not in ('args', 'keywords', 'bases', 'patterns')] + [virt[type(h.a)]]
            if isinstance(h.a, (ast.Global, ast.Nonlocal)):
                fields = ['names']      # identifiers, sliced as Names
            for fl in fields:
                try:
                    n = len(getattr(h, fl))
                except Exception:
                    continue
                for i in range(n):
                    for j in range(i + 1, n + 1):
                        yield {'src': src, 'path': probe.child_path(h), 'field': fl, 'i': i, 'j': j, 'opts': {}}


def stage_oracle(ctx: Ctx, progs, tracer):
    import fst
    rng = ctx.rng
    refusals = collections.Counter()
    forced = list(targeted_cases()) + list(targeted_seq_cases()) + list(targeted_copy_cases())
    for it in range(len(forced) + ctx.scale(500, 9000)):
        fc = forced[it] if it < len(forced) else None
        src = fc['src'] if fc else rng.choice(progs)
        root = fst.FST(src, 'exec')
        nodes = [f for f in root.walk(True) if f.parent is not None and not any(isinstance(p.a, (ast.JoinedStr, ast.FormattedValue)) for p in parents(f))]
        if not nodes:
            continue
        f = rng.choice(nodes)
        kind = rng.choice(['copy', 'get_slice', 'get_slice', 'get_one'])
        opts = {}
        if fc:
            f = root.child_from_path(fc['path'])
            kind = fc.get('kind', 'get_slice')
            opts = dict(fc['opts'])
        elif rng.random() < 0.45:
            opts['trivia'] = rng.choice([False, True, 'all', 'block', 'line', (False, False), ('all', 'line'), ('block', 'all'), (True, 'block+1'), ('all+', True)])
        if not fc and rng.random() < 0.2:
            opts['pars'] = rng.choice([True, False, 'auto'])
        if not fc and rng.random() < 0.15:
            opts['norm'] = rng.choice([True, False])
        if not fc and rng.random() < 0.15:
            opts['docstr'] = rng.choice([True, False, 'strict'])
        before_src = root.src
        before_dump = ast.dump(root.a, include_attributes=True)
        rec = {'src': src, 'kind': kind, 'node': repr(f), 'options': repr(opts)}
        tracer.context = {k: rec[k] for k in ('kind', 'node', 'options')}
        g = fl = i = j = None
        try:
            if kind == 'copy':
                piece = f.copy(**opts)
                expect = [f.a]
            else:
                cands = [h for h in [f] + list(parents(f)) if list_fields(h.a)]
                if not cands:
                    continue
                g = cands[0]
                fl, n = rng.choice(list_fields(g.a))
                virt = VIRTUAL.get(type(g.a))
                if virt and (rng.random() < 0.7 or isinstance(g.a, (ast.Dict, ast.MatchMapping))):
                    fl = virt
                    n = len(getattr(g, virt))
                i = rng.randrange(0, n)
                j = i + 1 if kind == 'get_one' else rng.randrange(i, n + 1)
                if fc:
                    g, fl, i, j = f, fc['field'], fc['i'], fc['j']
                    n = len(getattr(g, fl))
                rec.update(holder=repr(g), field=fl, start=i, stop=j)
                piece = g.get(i, fl, **opts) if kind == 'get_one' else g.get_slice(i, j, fl, **opts)
                expect = expected_elements(g, fl, i, j)
        except Exception as e:
            refusals[f'{kind}:{type(e).__name__}'] += 1
            if root.src != before_src or ast.dump(root.a, include_attributes=True) != before_dump:
                ctx.violation(f'copy-refusal-dirty|{kind}', 'a refused copy changed the tree', {**rec, 'error': repr(e)})
            continue
        ctx.tick((hash(src) & 0xffffff, kind, repr(f), fl, i, j, repr(opts)), 'copy:' + kind)
        # (1) the tree read from is untouched
        if root.src != before_src:
            ctx.violation(f'copy-changed-source|{kind}', 'copy/get changed the source of the tree it read from', {**rec, 'after': root.src})
            continue
        if ast.dump(root.a, include_attributes=True) != before_dump:
            ctx.violation(f'copy-changed-tree|{kind}', 'copy/get changed structure or positions of the tree it read from', rec)
            continue
        if piece is None:
            continue
        rec['piece'] = piece.src
        # (1b) self-contained: no AST node object of the piece is shared with the tree it was read from
        if not isinstance(piece, str) and hasattr(piece, 'a'):
            mine = {id(n) for n in ast.walk(root.a)}
            shared = [type(n).__name__ for n in ast.walk(piece.a) if id(n) in mine and not isinstance(n, (ast.expr_context, ast.operator, ast.unaryop, ast.cmpop, ast.boolop))]
            if shared:
                ctx.violation(f'piece-shares-nodes|{kind}', 'the returned tree shares AST node objects with the tree it was copied from', {**rec, 'shared': shared[:5]})
                continue
        # (2) the piece stands alone: parses (its own kind) and its tree equals that parse incl. positions
        try:
            piece.verify()
            d = reparse_diffs(piece)
        except Exception as e:
            d = [f'verify raised {e!r}'[:300]]
        special = type(piece.a).__name__.startswith('_') or (isinstance(piece.a, ast.BoolOp) and len(piece.a.values) < 2) or \
            (isinstance(piece.a, ast.Compare) and not piece.a.ops) or (isinstance(piece.a, ast.MatchOr) and len(piece.a.patterns) < 2)
        if isinstance(piece.a, ast.Tuple) and any(isinstance(e, ast.Slice) for e in piece.a.elts) and d:
            d = None   # a tuple of subscript slices exists only inside a subscript; verify() above is the check
        if special or (kind == 'get_slice' and i == j):
            # slice holders that are not Python nodes (or degenerate one-operand BoolOp / Compare slices) have no CPython parse;
            # a non-empty special holder must still agree with its own source in its own parse mode (verify) and span all of it
            ctx.dist['piece:special-holder'] = ctx.dist.get('piece:special-holder', 0) + 1
            holder_bad = None
            if type(piece.a).__name__.startswith('_') and not (kind == 'get_slice' and i == j):
                if d and d[0].startswith('verify raised'):
                    # alias holders re-parse through the unparenthesized import form, which cannot carry line breaks or comments (same exemption as C05)
                    holder_bad = None if type(piece.a).__name__ == '_aliases' and ('\n' in piece.src or '#' in piece.src) else d
                else:
                    pl = piece.lines
                    if piece.loc is not None and tuple(piece.loc) != (0, 0, len(pl) - 1, len(pl[-1])):
                        holder_bad = [f'holder location {tuple(piece.loc)} does not span its source (0, 0, {len(pl) - 1}, {len(pl[-1])})']
            d = holder_bad
        if d and opts.get('pars') is not False:
            sig = f'piece-not-standalone|{kind}|{type(piece.a).__name__}'
            tv_ = opts.get('trivia')
            trail_ = tv_[-1] if isinstance(tv_, tuple) and tv_ else tv_
            if isinstance(piece.a, (ast.stmt, ast.Module)) and isinstance(trail_, str) and piece.src.rstrip(' ').endswith('\\'):
                from lib.edits import stmt_before_continuation_semicolon
                last_ = expect[-1] if expect else None
                if last_ is not None and stmt_before_continuation_semicolon(src, last_):
                    sig = 'stmt-copy-before-continuation-semicolon-with-trailing-trivia'
            ctx.violation(sig, 'the returned tree does not parse on its own to itself', {**rec, 'diffs': d})
            continue
        # (3) structure equals the original sub-tree / elements
        if kind in ('copy', 'get_one') and expect and len(expect) == 1 and opts.get('norm') is None:
            d = cmp_ast(squash_multiline_strings(piece.a), squash_multiline_strings(expect[0]), positions=False, ctx=False)
            if d and kind == 'get_one':
                # a single element may come wrapped (e.g. a statement in a Module, an except handler in a slice holder)
                kids = [c for c in ast.iter_child_nodes(piece.a)]
                d = None if any(not cmp_ast(squash_multiline_strings(k), squash_multiline_strings(expect[0]), positions=False, ctx=False) for k in kids) else d
            if d:
                ctx.violation(f'piece-struct|{kind}|{type(expect[0]).__name__}', 'the returned tree is not structurally equal to the original sub-tree', {**rec, 'diffs': d})
                continue
        elif kind == 'get_slice' and expect is not None and opts.get('norm') is None:
            have = collections.Counter(norm_dump(squash_multiline_strings(c)) for c in ast.iter_child_nodes(piece.a) if not isinstance(c, (ast.expr_context, ast.boolop, ast.cmpop)))
            want = collections.Counter(norm_dump(squash_multiline_strings(e)) for e in expect)
            if have != want and not (len(expect) == 1 and not cmp_ast(squash_multiline_strings(piece.a), squash_multiline_strings(expect[0]), positions=False, ctx=False)):
                # normalisations: an empty slice of a Set is {*()}, Compare slices carry a left
                missing = want - have
                if missing:
                    ctx.violation(f'slice-struct|{type(g.a).__name__}.{fl}', 'the returned slice does not contain exactly the original elements',
                                  {**rec, 'missing': list(missing)[:3], 'extra': list(have - want)[:3]})
                    continue
        # (4) cut == copy + delete, on fresh trees
        if kind == 'copy':
            continue
        r2 = fst.FST(src, 'exec')
        r3 = fst.FST(src, 'exec')
        from lib.edits import path_of, node_at
        try:
            path = path_of(root.a, g.a)
            g2 = node_at(r2.a, path).f
            g3 = node_at(r3.a, path).f
        except Exception:
            continue
        try:
            pc = g2.get(i, fl, cut=True, **opts) if kind == 'get_one' else g2.get_slice(i, j, fl, cut=True, **opts)
            cut_err = None
        except Exception as e:
            cut_err = e
        try:
            if kind == 'get_one':
                g3.put(None, i, field=fl, **opts)
            else:
                g3.put_slice(None, i, j, fl, **opts)
            del_err = None
        except Exception as e:
            del_err = e
        if (cut_err is None) != (del_err is None):
            ctx.violation(f'cut-vs-delete-refusal|{type(g.a).__name__}.{fl}', 'cut and delete disagree on whether the operation is allowed',
                          {**rec, 'cut_error': repr(cut_err), 'delete_error': repr(del_err)})
            continue
        if cut_err is not None:
            refusals[f'cut:{type(g.a).__name__}.{fl}:{type(cut_err).__name__}'] += 1
            if r2.src != src:
                ctx.violation('cut-refusal-dirty', 'a refused cut changed the source', {**rec, 'error': repr(cut_err), 'after': r2.src})
            continue
        ctx.tick((hash(src) & 0xffffff, 'cut', repr(f), fl, i, j, repr(opts)), 'cut:' + kind)
        if pc is None or pc.src != piece.src or ast.dump(pc.a, include_attributes=True) != ast.dump(piece.a, include_attributes=True):
            ctx.violation(f'cut-piece-differs|{type(g.a).__name__}.{fl}', 'the piece returned by a cut differs from the piece returned by the copy',
                          {**rec, 'cut_piece': pc.src if pc is not None else None})
            continue
        if r2.src != r3.src or ast.dump(r2.a, include_attributes=True) != ast.dump(r3.a, include_attributes=True):
            ctx.violation(f'cut-remainder-differs|{type(g.a).__name__}.{fl}', 'what a cut leaves differs from what the delete leaves',
                          {**rec, 'after_cut': r2.src, 'after_delete': r3.src})
            continue
        min_len = 2 if isinstance(g.a, (ast.BoolOp, ast.Compare, ast.MatchOr)) else 1
        degenerate = n - (j - i) < min_len
        d = None if degenerate else reparse_diffs(r2)   # deleting (almost) every element may leave a documented incomplete node
        if d:
            from lib.edits import eof_trailing_space_case
            ctx.violation(f'cut-remainder-c01|{type(g.a).__name__}.{fl}', 'the remainder of the cut does not parse to the live tree', {**rec, 'after_cut': r2.src, 'diffs': d})
            continue
        # (5) conservation of tokens and comments
        oc, ocom = tok_multiset(src)
        rc, rcom = tok_multiset(r2.src)
        pcod, pcom = tok_multiset(pc.src)
        if oc is None or rc is None or pcod is None:
            continue
        lost = oc - (rc + pcod)
        extra = (rc + pcod) - oc
        bad_lost = [t for t in lost if t not in SEPARATORS and not (isinstance(g.a, ast.Compare) and t in CMPOPS)]
        bad_extra = [t for t in extra if t not in SEPARATORS and not (isinstance(g.a, ast.Compare) and t in CMPOPS) and t not in ('set',)]
        if bad_lost or bad_extra:
            ctx.violation(f'token-conservation|{type(g.a).__name__}.{fl}', 'code tokens of the original are not those of remainder + piece (beyond separators)',
                          {**rec, 'lost': bad_lost[:5], 'extra': bad_extra[:5], 'after_cut': r2.src})
            continue
        if ocom != rcom + pcom:
            sig = f'comment-conservation|{type(g.a).__name__}.{fl}'
            if kind == 'get_one' and not (rcom + pcom) - ocom and not isinstance(pc.a, (ast.stmt, ast.mod, ast.ExceptHandler, ast.match_case)):
                sig = 'comment-lost|single-expression-element-cut'
            lostc = list((ocom - (rcom + pcom)).elements())
            if lostc and not (rcom + pcom) - ocom and fl in ('orelse', 'finalbody', 'handlers') and degenerate and all(before_clause_header(src, c) for c in lostc):
                sig = 'comment-lost|comment-line-above-removed-clause-header'
            elif lostc and not (rcom + pcom) - ocom and fl in ('orelse', 'finalbody', 'handlers') and degenerate and all(before_clause_header(src, c) or inside_clause_head(src, c) for c in lostc):
                sig = 'comment-lost|comment-line-inside-removed-clause'
            ctx.violation(sig, 'comments of the original are not exactly those of remainder + piece',
                          {**rec, 'lost': list((ocom - (rcom + pcom)))[:4], 'duplicated': list(((rcom + pcom) - ocom))[:4], 'after_cut': r2.src})
    ctx.extra['refusals'] = dict(sorted(refusals.items()))


def stage_fstring_values(ctx: Ctx):
    """deterministic: every element of JoinedStr.values (literal parts and replacement fields) copied out of f-strings with every prefix / quote style, on one line and over
    several, nested in blocks: the tree read from is untouched, the piece parses on its own to itself, and holds the same structure as the element"""
    import fst
    from lib.oracle import reparse_diffs, cmp_ast
    bodies = ['{a}\\d', 'x{a!r:>{w}}y', '{a}{b}', '{ {1, 2} }z', '{a + \nb}', 'p{q}\n  r{s:{t}.{u}}', '{a=}', '{a = !r}']
    for pre in ('f', 'F', 'rf', 'fr', 'Rf', 'fR'):
        for q in ("'", '"', "'''", '"""'):
            for body in bodies:
                if '\n' in body and len(q) == 1 and '{a + \nb}' != body:
                    continue
                lit = pre + q + body + q
                for wrap in ('{}', 'x = {}', 'if c:\n    y = g({}, 1)'):
                    src = wrap.format(lit) + '\n'
                    try:
                        ref = ast.parse(src)
                        root = fst.FST(src, 'exec')
                    except SyntaxError:
                        continue
                    js = next((g for g in root.walk(True) if isinstance(g.a, ast.JoinedStr) and not isinstance(g.parent.a, ast.FormattedValue)), None)
                    if js is None:
                        continue
                    before = (root.src, ast.dump(root.a, include_attributes=True))
                    for i, v in enumerate(js.a.values):
                        rec = {'src': src, 'index': i, 'element': type(v).__name__}
                        debug = isinstance(v, ast.FormattedValue) and i > 0 and isinstance(js.a.values[i - 1], ast.Constant) and str(js.a.values[i - 1].value).rstrip().endswith('=')
                        try:
                            piece = js.values[i].copy()
                        except Exception as e:
                            ctx.dist['fstring-values:refused'] = ctx.dist.get('fstring-values:refused', 0) + 1
                            continue
                        ctx.tick(('fstring-values', src, i), 'copy:fstring-value')
                        if (root.src, ast.dump(root.a, include_attributes=True)) != before:
                            ctx.violation('copy-changed-tree|fstring-value', 'copy changed the tree it read from', rec)
                            break
                        d = None
                        try:
                            piece.verify()
                            d = reparse_diffs(piece)
                        except Exception as e:
                            d = [f'verify raised {e!r}'[:200]]
                        if d:
                            ctx.violation('piece-not-standalone|fstring-value' + ('|self-documenting-field' if debug else ''), 'the returned tree does not parse on its own to itself',
                                          {**rec, 'piece': piece.src, 'diffs': d})
                            continue
                        got = piece.a.values[-1] if isinstance(piece.a, ast.JoinedStr) and len(piece.a.values) == (2 if debug else 1) and isinstance(v, ast.FormattedValue) else piece.a
                        dd = cmp_ast(got, v, positions=False, ctx=False)
                        if dd:
                            ctx.violation('piece-struct|fstring-value', 'the returned tree is not structurally equal to the original element', {**rec, 'piece': piece.src, 'diffs': dd})


def run(ctx: Ctx):
    ctx.rule = ('per corpus program: random node / list field (real and virtual) / slice bounds / trivia, pars, norm, docstr options: copy(), get(), get_slice(): source and '
                'ast.dump(with positions) of the tree read from unchanged; piece verifies and re-parses to itself; piece structurally equals the original sub-tree / element '
                'multiset (multi-line strings up to whitespace); on fresh trees cut piece == copy piece, cut remainder == delete remainder (source and dump), remainder re-parses; '
                'code-token multiset conserved up to separators, comment multiset conserved exactly. Trace correspondence: every _dedent_lns/_indent_lns/_make_fst_and_dedent '
                'call made by these operations replayed on models/Extract.v. distinct = (program, node, field, bounds, options).')
    ctx.assumptions += ['tokenize is the reference tokenizer', 'CPython parser as reference for the standalone piece (roots CPython can parse) else FST.verify()']
    ok = stage_translate(ctx)
    if ok:
        ctx.build_props()
    progs = corpus(ctx.rng, gen=ctx.scale(20, 150))
    tracer = DedentTracer(budget=ctx.scale(300, 3000), rng=ctx.rng)
    with tracer:
        run_guarded(ctx, stage_oracle, progs, tracer)
    run_guarded(ctx, stage_fstring_values)
    ctx.extra['traced_calls'] = dict(tracer.calls)
    try:
        failed = coq_eval_bools('C07_trace', HDR, tracer.terms, shard=60)
        ctx.correspondence('trace: every sampled _dedent_lns / _indent_lns / _make_fst_and_dedent (copied text, cut remainder) call made by copy/get/get_slice/cut == models/Extract.v + kernel/Text.v',
                           len(tracer.terms), [tracer.meta[k] for k in failed])
    except CoqEvalError as e:
        ctx.broken.append({'kind': 'correspondence', 'name': 'trace', 'detail': str(e)[:2000]})


def replay(path):
    d = json.load(open(path))
    print(json.dumps(d, indent=1)[:6000])
    return 0
