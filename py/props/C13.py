"""C13 - reconcile() returns a valid tree that equals the externally edited AST."""

from __future__ import annotations

import ast
import collections
import json
import warnings

from lib.common import *
from lib.oracle import cmp_ast, reparse_diffs, tokens
from lib.progs import corpus
from lib import edits
from props.C11 import stage_translate
from props.C08 import squash_multiline_strings

warnings.simplefilter('ignore', SyntaxWarning)

LEVEL = 'proof'
HDR = ('From Coq Require Import List Bool Arith.\nFrom PF Require Import models.Reconcile.\nImport ListNotations.\n')

NEW_EXPRS = ['zz', '42', 'f(1, k=2)', 'a + b * c', '(p, q)', '[1, 2]', 'not w', 'x if y else z', 'lambda: 0', '"s"', 'obj.attr', 'd[k]', '-n', 'a < b < c', '{1: 2}', 'a and b or c',
             '(yield)', 'await_', '[i for i in j]', 'x := 5', '*st', 'é']
NEW_STMTS = ['new = 1', 'call(new)', 'if new:\n    pass', 'for i in new:\n    break', 'del new', 'return new', 'import new', 'x: int = new', 'while new:\n    continue',
             'def nf(a, b=1):\n    return a', 'class NC:\n    attr = 1', 'try:\n    a\nexcept E:\n    b', 'with a as b:\n    c', 'assert new, msg', 'global gg', 'raise new', 'pass',
             'new += 1', 'match new:\n    case 1:\n        pass', '"""string stmt"""']


def parent_map(tree):
    pm = {}
    for p in ast.walk(tree):
        for fld, v in ast.iter_fields(p):
            if isinstance(v, ast.AST):
                pm[id(v)] = (p, fld, None)
            elif isinstance(v, list):
                for i, c in enumerate(v):
                    if isinstance(c, ast.AST):
                        pm[id(c)] = (p, fld, i)
    return pm


def set_child(p, fld, i, new):
    if i is None:
        setattr(p, fld, new)
    else:
        getattr(p, fld)[i] = new


def top_stmt_of(tree, pm, node):
    cur = node
    while True:
        ent = pm.get(id(cur))
        if ent is None:
            return None
        p, fld, i = ent
        if p is tree:
            return cur
        cur = p


def is_load_expr(n, pm):
    if not isinstance(n, ast.expr) or isinstance(n, (ast.Starred, ast.Slice)):
        return False
    if isinstance(getattr(n, 'ctx', None), (ast.Store, ast.Del)):
        return False
    p, fld, i = pm[id(n)]
    if isinstance(p, (ast.JoinedStr, ast.FormattedValue, ast.MatchValue, ast.MatchClass, ast.MatchMapping, ast.keyword)) and fld in ('values', 'value', 'cls', 'keys', 'format_spec'):
        return isinstance(p, ast.keyword)
    if isinstance(p, (ast.Subscript,)) and fld == 'slice':
        return False
    if isinstance(p, (ast.FunctionDef, ast.AsyncFunctionDef, ast.ClassDef)) and fld == 'decorator_list':
        return True
    if isinstance(p, (ast.withitem, ast.comprehension, ast.For, ast.AsyncFor)) and fld in ('optional_vars', 'target'):
        return False
    if isinstance(p, (ast.AugAssign, ast.AnnAssign, ast.NamedExpr, ast.Assign, ast.Delete, ast.TypeAlias)) and fld in ('target', 'targets', 'name'):
        return False
    if isinstance(p, ast.Starred):
        return False
    if isinstance(p, (ast.arguments, ast.arg, ast.TypeVar, ast.ParamSpec, ast.TypeVarTuple)):
        return fld in ('defaults', 'kw_defaults', 'annotation')
    return True


def new_expr(rng, simple=False):
    while True:
        s = rng.choice(NEW_EXPRS)
        if s.startswith('*') or s.startswith('(yield') or ':=' in s:
            if simple or rng.random() < 0.8:
                continue
        try:
            return ast.parse(s, mode='eval').body, s
        except SyntaxError:
            try:
                return ast.parse(f'[{s}]', mode='eval').body.elts[0], s
            except SyntaxError:
                continue


BODY_FIELDS = ('body', 'orelse', 'finalbody')


def mutate(rng, tree, touched, foreign):
    """one pure-AST mutation of `tree`; returns a description or None; `touched` collects ids of top-level statements whose
    subtree was changed (or that moved / are new)"""
    pm = parent_map(tree)
    wroot = tree.f
    def foreign_node(n):
        f = getattr(n, 'f', None)
        return f is not None and getattr(f, 'root', None) is not wroot
    fids = set()
    for n in ast.walk(tree):
        if foreign_node(n):
            fids.update(id(x) for x in ast.walk(n))
    nodes = [n for n in ast.walk(tree) if id(n) not in fids]
    kind = rng.choice(['replace_expr', 'replace_expr', 'swap_expr', 'dup_expr', 'prim', 'prim', 'del_stmt', 'ins_stmt', 'ins_stmt', 'move_stmt', 'reverse_body', 'dup_stmt',
                       'foreign_stmt', 'foreign_expr', 'replace_stmt', 'set_elts', 'op', 'foreign_pair', 'foreign_pair'])
    mark_touch = lambda n: touched.add(id(top_stmt_of(tree, pm, n) or n))
    exprs = [n for n in nodes if id(n) in pm and is_load_expr(n, pm)]
    if kind in ('replace_expr', 'foreign_expr') and exprs:
        n = rng.choice(exprs)
        p, fld, i = pm[id(n)]
        if kind == 'replace_expr':
            new, s = new_expr(rng, simple=isinstance(p, (ast.keyword, ast.Attribute, ast.Call)) and fld in ('value', 'func'))
        else:
            cands = [x for x in ast.walk(foreign.a) if isinstance(x, ast.expr) and isinstance(getattr(x, 'ctx', ast.Load()), ast.Load) and not isinstance(x, (ast.Starred, ast.Slice))
                     and not isinstance(x, ast.JoinedStr)]
            if not cands:
                return None
            new = rng.choice(cands)
            s = 'foreign:' + ast.unparse(new)
        mark_touch(n)
        set_child(p, fld, i, new)
        return f'{kind} {type(p).__name__}.{fld}[{i}] <- {s}'
    if kind == 'swap_expr' and len(exprs) >= 2:
        a, b = rng.sample(exprs, 2)
        anc = lambda x, y: any(z is y for z in ast.walk(x))
        if anc(a, b) or anc(b, a):
            return None
        pa, pb = pm[id(a)], pm[id(b)]
        mark_touch(a); mark_touch(b)
        set_child(*pa, b)
        set_child(*pb, a)
        return f'swap_expr {type(pa[0]).__name__}.{pa[1]} <-> {type(pb[0]).__name__}.{pb[1]}'
    if kind == 'dup_expr' and len(exprs) >= 2:
        a, b = rng.sample(exprs, 2)
        if any(z is a for z in ast.walk(b)) or any(z is b for z in ast.walk(a)):
            return None
        mark_touch(b)
        set_child(*pm[id(b)], a)     # the same object now appears twice
        return f'dup_expr {ast.unparse(a)[:20]!r} also at {type(pm[id(b)][0]).__name__}.{pm[id(b)][1]}'
    if kind == 'prim':
        cands = [n for n in nodes if isinstance(n, (ast.Name, ast.Constant, ast.Attribute, ast.arg, ast.FunctionDef, ast.ClassDef, ast.keyword, ast.alias)) and id(n) in pm]
        cands = [n for n in cands if not (isinstance(n, ast.Constant) and isinstance(pm[id(n)][0], (ast.JoinedStr, ast.FormattedValue, ast.MatchValue, ast.MatchMapping)))]
        if not cands:
            return None
        n = rng.choice(cands)
        mark_touch(n)
        if isinstance(n, ast.Name):
            n.id = rng.choice(['renamed', 'r2', 'ü2'])
        elif isinstance(n, ast.Constant):
            n.value = rng.choice([7, 'new str', 2.5, None, True, b'by'])
            n.kind = None
        elif isinstance(n, ast.Attribute):
            n.attr = 'attr2'
        elif isinstance(n, ast.arg):
            n.arg = n.arg + '_r'
        elif isinstance(n, (ast.FunctionDef, ast.ClassDef)):
            n.name = n.name + '_r'
        elif isinstance(n, ast.keyword):
            if n.arg is None:
                return None
            n.arg = n.arg + '_r'
        elif isinstance(n, ast.alias):
            if n.name == '*':
                return None
            n.asname = 'al'
        return f'prim {type(n).__name__}'
    if kind == 'op':
        cands = [n for n in nodes if isinstance(n, (ast.BinOp, ast.UnaryOp, ast.BoolOp, ast.Compare, ast.AugAssign))]
        if not cands:
            return None
        n = rng.choice(cands)
        mark_touch(n)
        if isinstance(n, (ast.BinOp, ast.AugAssign)):
            n.op = rng.choice([ast.Sub, ast.Mult, ast.Pow, ast.BitOr, ast.FloorDiv])()
        elif isinstance(n, ast.UnaryOp):
            n.op = rng.choice([ast.Not, ast.USub, ast.Invert])()
        elif isinstance(n, ast.BoolOp):
            n.op = ast.Or() if isinstance(n.op, ast.And) else ast.And()
        else:
            n.ops[rng.randrange(len(n.ops))] = rng.choice([ast.Is, ast.NotIn, ast.GtE, ast.NotEq])()
        return f'op {type(n).__name__}'
    if kind == 'set_elts':
        cands = [n for n in nodes if isinstance(n, (ast.List, ast.Tuple, ast.Set)) and isinstance(getattr(n, 'ctx', ast.Load()), ast.Load) and id(n) in pm and is_load_expr(n, pm)]
        if not cands:
            return None
        n = rng.choice(cands)
        mark_touch(n)
        r = rng.random()
        if r < 0.3 and len(n.elts) > 1:
            del n.elts[rng.randrange(len(n.elts))]
        elif r < 0.6:
            n.elts.insert(rng.randrange(len(n.elts) + 1), new_expr(rng, True)[0])
        elif len(n.elts) > 1:
            n.elts.reverse()
        else:
            n.elts.append(new_expr(rng, True)[0])
        return f'set_elts {type(n).__name__}'
    if kind == 'foreign_pair':
        # consecutive entries taken from two different parents of the foreign tree with consecutive indices
        fh = [(n, f) for n in ast.walk(foreign.a) for f in BODY_FIELDS + ('elts',) if isinstance(getattr(n, f, None), list) and len(getattr(n, f)) >= 2
              and all(isinstance(x, (ast.stmt if f != 'elts' else ast.expr)) for x in getattr(n, f))]
        rng.shuffle(fh)
        for (p1, f1) in fh:
            for (p2, f2) in fh:
                if p1 is p2 or f1 != f2:
                    continue
                l1, l2 = getattr(p1, f1), getattr(p2, f2)
                i = rng.randrange(0, min(len(l1), len(l2) - 1))
                a1, a2 = l1[i], l2[i + 1]
                if any(isinstance(z, (ast.Return, ast.Yield, ast.YieldFrom, ast.Await, ast.Nonlocal, ast.Global, ast.Break, ast.Continue, ast.Starred)) for x in (a1, a2) for z in ast.walk(x)):
                    continue
                if any(z is a2 for z in ast.walk(a1)) or any(z is a1 for z in ast.walk(a2)):
                    continue
                if f1 == 'elts':
                    tg = [n for n in nodes if isinstance(n, (ast.List, ast.Tuple, ast.Set)) and isinstance(getattr(n, 'ctx', ast.Load()), ast.Load) and id(n) in pm and is_load_expr(n, pm)]
                    if not tg or not all(isinstance(getattr(x, 'ctx', ast.Load()), ast.Load) for x in (a1, a2)):
                        return None
                    t = rng.choice(tg)
                    mark_touch(t)
                    k = rng.randrange(len(t.elts) + 1)
                    t.elts[k:k] = [a1, a2]
                    return 'foreign_pair elts'
                hs = [(n, f) for n in nodes for f in BODY_FIELDS if isinstance(getattr(n, f, None), list) and getattr(n, f) and isinstance(getattr(n, f)[0], ast.stmt)]
                if not hs:
                    return None
                h, f = rng.choice(hs)
                body = getattr(h, f)
                if h is not tree:
                    mark_touch(h)
                touched.update((id(a1), id(a2)))
                k = rng.randrange(len(body) + 1)
                body[k:k] = [a1, a2]
                return f'foreign_pair {type(h).__name__}.{f}'
        return None
    # statement lists
    holders = [(n, f) for n in nodes for f in BODY_FIELDS if isinstance(getattr(n, f, None), list) and getattr(n, f) and isinstance(getattr(n, f)[0], ast.stmt)]
    if not holders:
        return None
    h, f = rng.choice(holders)
    body = getattr(h, f)
    if h is tree:
        touch_stmt = lambda s: touched.add(id(s))
    else:
        touch_stmt = lambda s: mark_touch(h)
    in_func = any(isinstance(a, (ast.FunctionDef, ast.AsyncFunctionDef, ast.Lambda)) for a in [h])
    def fresh_stmt():
        while True:
            s = rng.choice(NEW_STMTS)
            if s.startswith(('return', 'global')) and not isinstance(h, (ast.FunctionDef, ast.AsyncFunctionDef)):
                continue
            if s.startswith(('for i', 'while')) is False and ('break' in s or 'continue' in s):
                continue
            return ast.parse(s).body[0], s
    if kind == 'del_stmt' and len(body) > 1:
        i = rng.randrange(len(body))
        touch_stmt(body[i])
        if h is not tree:
            mark_touch(h)
        del body[i]
        return f'del_stmt {type(h).__name__}.{f}[{i}]'
    if kind in ('ins_stmt', 'foreign_stmt', 'replace_stmt'):
        if kind == 'foreign_stmt':
            cands = [x for x in foreign.a.body if not isinstance(x, (ast.Return, ast.Global, ast.Nonlocal))]
            if not cands:
                return None
            new, s = rng.choice(cands), 'foreign stmt'
        else:
            new, s = fresh_stmt()
        i = rng.randrange(len(body) + (kind != 'replace_stmt'))
        if h is not tree:
            mark_touch(h)
        touched.add(id(new))
        if kind == 'replace_stmt':
            touch_stmt(body[i])
            body[i] = new
        else:
            body.insert(i, new)
        return f'{kind} {type(h).__name__}.{f}[{i}] <- {s!r}'
    if kind == 'move_stmt' and len(body) > 1:
        i = rng.randrange(len(body))
        s = body.pop(i)
        h2, f2 = rng.choice(holders)
        if any(z is h2 for z in ast.walk(s)):
            body.insert(i, s)
            return None
        if isinstance(s, (ast.Return, ast.Global, ast.Nonlocal)) or any(isinstance(z, (ast.Return, ast.Yield, ast.YieldFrom, ast.Await, ast.Nonlocal, ast.Global, ast.Break, ast.Continue)) for z in ast.walk(s)):
            body.insert(i, s)
            return None
        b2 = getattr(h2, f2)
        touch_stmt(s)
        touched.add(id(s))
        if h is not tree:
            mark_touch(h)
        if h2 is not tree:
            mark_touch(h2)
        b2.insert(rng.randrange(len(b2) + 1), s)
        return f'move_stmt {type(h).__name__}.{f}[{i}] -> {type(h2).__name__}.{f2}'
    if kind == 'reverse_body' and len(body) > 1 and not any(isinstance(s, ast.Expr) and isinstance(s.value, ast.Constant) for s in body[:1]):
        for s in body:
            touch_stmt(s)
            touched.add(id(s))
        if h is not tree:
            mark_touch(h)
        body.reverse()
        return f'reverse_body {type(h).__name__}.{f}'
    if kind == 'dup_stmt':
        i = rng.randrange(len(body))
        s = body[i]
        if any(isinstance(z, (ast.FunctionDef, ast.ClassDef, ast.AsyncFunctionDef)) for z in ast.walk(s)) and rng.random() < 0.5:
            return None
        touch_stmt(s)
        touched.add(id(s))
        if h is not tree:
            mark_touch(h)
        body.insert(rng.randrange(len(body) + 1), s)
        return f'dup_stmt {type(h).__name__}.{f}[{i}]'
    return None


def comments_of(root, stmt):
    import tokenize
    import io
    bl = stmt.f.bloc
    try:        # the comments on the statement's lines, tokens of the WHOLE source (the lines of one statement alone need not tokenize: `); b = {k: (` when the next statement shares its last line)
        return [t.string for t in tokenize.generate_tokens(io.StringIO(root.src).readline) if t.type == tokenize.COMMENT and bl.ln <= t.start[0] - 1 <= bl.end_ln]
    except (tokenize.TokenError, IndentationError, SyntaxError):
        return []


def valid_tree(a):
    """the edited AST denotes a program: unparse/parse gives back the same structure"""
    try:
        u = ast.unparse(a)
        b = ast.parse(u)
    except Exception:
        return False
    return not cmp_ast(a, b, positions=False)


def strip_f(a):
    from fst.astutil import copy_ast
    return copy_ast(a)


def stage_oracle(ctx: Ctx, progs):
    import fst
    rng = ctx.rng
    foreign_srcs = [p for p in progs if len(p) < 600]
    for it in range(ctx.scale(260, 5000)):
        src0 = rng.choice([p for p in progs if len(p) < 1500])
        root = fst.FST(src0, 'exec')
        history = []
        for rd in range(rng.randrange(1, 4)):
            src = root.src
            root.mark()
            foreign = fst.FST(rng.choice(foreign_srcs), 'exec')
            orig_stmts = list(root.a.body)
            orig_text = {id(s): s.f.own_src() for s in orig_stmts}
            orig_comments = {id(s): comments_of(root, s) for s in orig_stmts}
            touched = set()
            nmut = rng.choice([0, 1, 1, 2, 3, 5])
            muts = []
            for _ in range(nmut):
                snap = strip_f(root.a)
                try:
                    m = mutate(rng, root.a, touched, foreign)
                except Exception as e:
                    ctx.broken.append({'kind': 'harness', 'name': 'mutate', 'detail': repr(e)[:300]})
                    m = None
                if m:
                    muts.append(m)
            if not valid_tree(strip_f(root.a)):
                break       # the mutations produced something that is not a program: not in the domain
            edited = strip_f(root.a)
            rec = {'start_src': src0, 'round': rd, 'history': history, 'src_before': src, 'mutations': muts, 'edited_unparsed': ast.unparse(edited)}
            ctx.tick((hash(src) & 0xffffff, tuple(muts)), 'reconcile:' + ('nochange' if not muts else 'edited'))
            work_a = root.a
            try:
                out = root.reconcile()
            except Exception as e:
                ctx.violation(f'reconcile-raise|{type(e).__name__}|{(muts[-1].split()[0] if muts else "nochange")}', 'reconcile() raised on a valid edited tree', {**rec, 'error': repr(e)[:300]})
                break
            history.append({'mutations': muts})
            d = reparse_diffs(out)
            if d:
                ctx.violation(f'reconcile-c01|{muts[-1].split()[0] if muts else "nochange"}', 'the reconciled source does not parse to the reconciled tree', {**rec, 'out_src': out.src, 'diffs': d})
                break
            d = cmp_ast(squash_multiline_strings(out.a), squash_multiline_strings(edited), positions=False)
            if d:
                ctx.violation(f'reconcile-struct|{muts[-1].split()[0] if muts else "nochange"}', 'the reconciled tree is not structurally equal to the edited AST',
                              {**rec, 'out_src': out.src, 'diffs': d})
                break
            if not muts and out.src != src:
                ctx.violation('reconcile-nochange', 'reconcile() without AST changes altered the source', {**rec, 'out_src': out.src})
                break
            # untouched top-level statements keep their text and comments
            bad = None
            out_stmts = out.a.body
            shared = any(m.startswith('dup_') for m in muts) or any(m.startswith('dup_') for h_ in history for m in h_['mutations'])
            for k, s in enumerate(work_a.body):
                if shared:
                    break   # an object reachable from two places makes "untouched" undecidable by parent tracking
                if id(s) in orig_text and id(s) not in touched and k < len(out_stmts):
                    got = out_stmts[k].f.own_src()
                    if got != orig_text[id(s)]:
                        bad = {'index': k, 'original_text': orig_text[id(s)], 'text_after': got}
                        break
                    com = comments_of(out, out_stmts[k])
                    missing = collections.Counter(orig_comments[id(s)]) - collections.Counter(com)
                    if missing:
                        bad = {'index': k, 'original_text': orig_text[id(s)], 'comments_lost': list(missing)}
                        break
            if bad:
                ctx.violation(f'reconcile-untouched|{muts[-1].split()[0] if muts else "nochange"}', 'a statement whose AST nodes were not touched did not keep its original text / comments',
                              {**rec, 'out_src': out.src, **bad})
                break
            root = out


def stage_prims(ctx: Ctx):
    """equal-but-different primitives (1/True/1.0, 0/False/0.0, ''/b'') and other single primitive changes, deterministically"""
    import fst
    pairs = [(1, True), (True, 1), (0, False), (False, 0), (1, 1.0), (1.0, 1), (0, 0.0), (1, 1j), (2, 2.0), ('', b''), ('a', 'b'), (None, False), (1, None), (3, 4)]
    for a, b in pairs:
        for tmpl in ('x = {}\n', 'f({}, k={})\n', 'def g(p={}):\n    return [{}, y]\n'):
            src = tmpl.format(*([repr(a)] * tmpl.count('{}')))
            root = fst.FST(src, 'exec')
            root.mark()
            cs = [n for n in ast.walk(root.a) if isinstance(n, ast.Constant)]
            cs[-1].value = b
            cs[-1].kind = None
            edited = strip_f(root.a)
            ctx.tick(('prim', src, repr(b)), 'reconcile:prim-pair')
            try:
                out = root.reconcile()
            except Exception as e:
                ctx.violation(f'reconcile-raise|{type(e).__name__}|prim', 'reconcile() raised on a primitive change', {'src': src, 'new': repr(b), 'error': repr(e)[:200]})
                continue
            d = cmp_ast(out.a, edited, positions=False) or reparse_diffs(out)
            if d:
                ctx.violation(f'reconcile-struct|prim|{type(a).__name__}->{type(b).__name__}', 'the reconciled tree does not have the edited primitive', {'src': src, 'old': repr(a), 'new': repr(b), 'out_src': out.src, 'diffs': d})


PRIM_FIELD_PROGS = [
    'from . import sibling\nfrom .pkg import a as b, c\nfrom .pkg.mod import name\nfrom ..up import (x,\n    y)\nimport m.n as o, p\n',
    'async def f(a, *b: int, c=1, **d):\n    r = [x async for x in y]\n    s = {k: v for k, v in z}\n    global g1, g2\n    return f"{r!r:>{w}} {s!s} {a!a} {c}"\n',
    'class K(B, metaclass=M):\n    def m(self): nonlocal_ = self.attr.sub; return nonlocal_\ntry:\n    pass\nexcept E as err:\n    pass\n',
    'match v:\n    case {"k": x, **rest}: pass\n    case [a, *others] as whole: pass\n    case C(p, q=r): pass\n    case None | True: pass\n',
    'def outer():\n    n = 1\n    def inner():\n        nonlocal n\n        n += 1\n    type T[U: int, *Vs, **P] = list[U]\n    x: int = 0\n    (y): int = 1\n    lambda q, /, w=2: (q, w)\n',
    "a = u'text'\nb = 'plain'\nc = b'bytes'\nd = 1_000\ne = 0x10\nf = 1.50\n",
]


def stage_prim_fields(ctx: Ctx):
    """deterministic: every primitive field (identifiers, ImportFrom.level, comprehension.is_async, FormattedValue.conversion, operators' owners excluded) of every node
    of a set of programs changed alone, in place, to another valid value: reconcile() must produce exactly the edited tree and valid source"""
    import fst
    IDENT = {('Name', 'id'), ('arg', 'arg'), ('alias', 'name'), ('alias', 'asname'), ('Attribute', 'attr'), ('FunctionDef', 'name'), ('AsyncFunctionDef', 'name'), ('ClassDef', 'name'),
             ('keyword', 'arg'), ('MatchAs', 'name'), ('MatchStar', 'name'), ('MatchMapping', 'rest'), ('ExceptHandler', 'name'), ('ImportFrom', 'module'), ('TypeVar', 'name'),
             ('TypeVarTuple', 'name'), ('ParamSpec', 'name')}
    for src in PRIM_FIELD_PROGS:
        probe = ast.parse(src)
        sites = []
        for n in ast.walk(probe):
            for fld, v in ast.iter_fields(n):
                key = (type(n).__name__, fld)
                if key in IDENT and isinstance(v, str):
                    sites.append((edits.path_of(probe, n), fld, None, v + '_z'))
                elif key in (('Global', 'names'), ('Nonlocal', 'names'), ('MatchClass', 'kwd_attrs')) and v:
                    for i in range(len(v)):
                        sites.append((edits.path_of(probe, n), fld, i, v[i] + '_z'))
                elif key == ('ImportFrom', 'level'):
                    sites += [(edits.path_of(probe, n), fld, None, v + 1), (edits.path_of(probe, n), fld, None, max(0, v - 1) if n.module else v + 2)]
                elif key == ('comprehension', 'is_async'):
                    sites.append((edits.path_of(probe, n), fld, None, 1 - v))
                elif key == ('FormattedValue', 'conversion'):
                    sites += [(edits.path_of(probe, n), fld, None, c) for c in (-1, 114, 115, 97) if c != v]
        for path, fld, idx, newv in sites:
            root = fst.FST(src, 'exec')
            root.mark()
            n = edits.node_at(root.a, path)
            old = getattr(n, fld)
            if old == newv:
                continue
            if idx is None:
                setattr(n, fld, newv)
            else:
                getattr(n, fld)[idx] = newv
            edited = strip_f(root.a)
            try:
                ast.parse(ast.unparse(edited))
            except Exception:
                continue       # the edited tree is not a program (e.g. a non-async comprehension turned async outside an async function is fine, a keyword clash is not)
            rec = {'src': src, 'node': type(n).__name__, 'field': fld, 'idx': idx, 'old': repr(old), 'new': repr(newv)}
            ctx.tick(('primfield', src, str(path), fld, idx, repr(newv)), 'reconcile:prim-field')
            try:
                out = root.reconcile()
            except Exception as e:
                ctx.violation(f'reconcile-raise|{type(e).__name__}|{type(n).__name__}.{fld}', 'reconcile() raised on a single primitive change', {**rec, 'error': repr(e)[:200]})
                continue
            d = cmp_ast(out.a, edited, positions=False) or reparse_diffs(out)
            if d:
                ctx.violation(f'reconcile-struct|prim-field|{type(n).__name__}.{fld}', 'the reconciled tree does not have the edited primitive', {**rec, 'out_src': out.src, 'diffs': d})


def stage_foreign_runs(ctx: Ctx):
    """deterministic: runs of 1..3 consecutive siblings taken from ANOTHER formatted tree and put into the marked tree (statements into a body, elements into a list),
    where one element of the run was edited in the other tree first: a primitive changed in place, or a child replaced by a brand-new pure AST node. The reconciled
    tree must be exactly the edited AST (the stale source of the edited foreign element must not be copied)."""
    import fst
    import itertools
    other_src = 'x = 1  # c\ny = f(2, k)\nz = [3, (4, 5)]  # z\nw = {6: 7}\nv = [e1, e2 + 1, e3(9), e4]\n'
    for target_src, holder_path, fld in (('a = 1\nb = 2\n', [], 'body'), ('def g():\n    a = 1\n    b = 2\n', [('body', 0)], 'body'), ('t = [p, q]\n', [('body', 0), ('value', None)], 'elts')):
        for start, k in itertools.product(range(0, 4), (1, 2, 3)):
            for j in range(k):
                for edit in ('none', 'prim', 'new_child', 'prim_name'):
                    for at in (0, 1, 2):
                        root = fst.FST(target_src, 'exec')
                        root.mark()
                        other = fst.FST(other_src, 'exec')
                        if fld == 'body':
                            run = other.a.body[start:start + k]
                        else:
                            run = other.a.body[4].value.elts[start:start + k]
                        if len(run) != k:
                            continue
                        tgt = run[j]
                        consts = [n for n in ast.walk(tgt) if isinstance(n, ast.Constant)]
                        names = [n for n in ast.walk(tgt) if isinstance(n, ast.Name)]
                        if edit == 'prim':
                            if not consts:
                                continue
                            consts[-1].value = 99
                        elif edit == 'prim_name':
                            if not names:
                                continue
                            names[0].id = 'renamed'
                        elif edit == 'new_child':
                            if isinstance(tgt, ast.Assign):
                                tgt.value = ast.BinOp(left=ast.Name(id='nn', ctx=ast.Load()), op=ast.Add(), right=ast.Constant(value=8))
                            elif isinstance(tgt, ast.BinOp):
                                tgt.right = ast.Call(func=ast.Name(id='nn', ctx=ast.Load()), args=[], keywords=[])
                            elif isinstance(tgt, ast.Call):
                                tgt.args = [ast.Constant(value=8)]
                            else:
                                continue
                        h = root.a
                        for f_, i_ in holder_path:
                            h = getattr(h, f_)
                            if i_ is not None:
                                h = h[i_]
                        lst = getattr(h, fld)
                        if at > len(lst):
                            continue
                        lst[at:at] = run
                        edited = strip_f(root.a)
                        try:
                            ast.parse(ast.unparse(ast.fix_missing_locations(strip_f(root.a))))
                        except Exception:
                            continue
                        rec = {'target': target_src, 'foreign': other_src, 'field': fld, 'run': [start, start + k], 'edited_element': j, 'edit': edit, 'insert_at': at}
                        ctx.tick(('foreign-run', target_src, fld, start, k, j, edit, at), 'reconcile:foreign-run:' + edit)
                        try:
                            out = root.reconcile()
                        except Exception as e:
                            ctx.violation(f'reconcile-raise|{type(e).__name__}|foreign-run', 'reconcile() raised on a run of nodes from another tree', {**rec, 'error': repr(e)[:200]})
                            continue
                        d = cmp_ast(out.a, edited, positions=False) or reparse_diffs(out)
                        if d:
                            ctx.violation(f'reconcile-struct|foreign-run|{edit}', 'the reconciled tree is not the edited AST: an edited node from another tree was copied with its old source',
                                          {**rec, 'out_src': out.src, 'diffs': d})


def stage_foreign_specials(ctx: Ctx):
    """deterministic: nodes from ANOTHER formatted tree that are written in a form only their old home allows (starred arglike expressions without parentheses in a
    subscript / call, a bare yield, a walrus, an unparenthesized tuple, a lambda, a conditional) put into sequences of other kinds of the marked tree - one, a run, or
    the whole sequence: the reconciled tree is the edited AST and its source parses to it"""
    import fst
    donors = [('z[q, *a or b, *not c]\n', lambda t: t.body[0].value.slice.elts), ('f(q, *a or b, *not c)\n', lambda t: t.body[0].value.args), ('def g():\n    x = yield v\n    y = yield\n', lambda t: [t.body[0].body[0].value, t.body[0].body[1].value]),
              ('x = (n := 1), (m := 2)\n', lambda t: t.body[0].value.elts), ('x = p, q\ny = lambda: 0\nz = r if s else t\n', lambda t: [t.body[0].value, t.body[1].value, t.body[2].value]),
              ('for i in a, b: pass\n', lambda t: [t.body[0].iter]), ('x = [*a, *b]\n', lambda t: t.body[0].value.elts), ('x = a[b:c, d]\n', lambda t: [t.body[0].value.slice.elts[1]])]
    targets = [('t = [p0, q0]\n', lambda t: t.body[0].value.elts), ('t = {p0, q0}\n', lambda t: t.body[0].value.elts), ('t = (p0, q0)\n', lambda t: t.body[0].value.elts), ('t = p0, q0\n', lambda t: t.body[0].value.elts),
               ('t = h(p0, q0)\n', lambda t: t.body[0].value.args), ('t = s0[p0, q0]\n', lambda t: t.body[0].value.slice.elts), ('print(p0, q0)\n', lambda t: t.body[0].value.args),
               ('def g():\n    return [p0, q0]\n', lambda t: t.body[0].body[0].value.elts), ('t = {k0: p0, k1: q0}\n', lambda t: t.body[0].value.values), ('t = p0 and q0\n', lambda t: t.body[0].value.values)]
    for dsrc, dget in donors:
        n = len(dget(ast.parse(dsrc)))
        for tsrc, tget in targets:
            for i in range(n):
                for j in range(i + 1, n + 1):
                    for at, replace in ((0, False), (1, False), (2, False), (0, True), (0, 'all')):
                        root = fst.FST(tsrc, 'exec')
                        root.mark()
                        other = fst.FST(dsrc, 'exec')
                        run = dget(other.a)[i:j]
                        lst = tget(root.a)
                        if replace == 'all':
                            lst[:] = run
                        elif replace:
                            lst[at:at + 1] = run
                        else:
                            lst[at:at] = run
                        if 'k0: p0' in tsrc and not (replace is True and j - i == 1):
                            continue        # Dict.values must stay as long as Dict.keys
                        if ' and ' in tsrc and len(lst) < 2:
                            continue        # a BoolOp has two operands
                        edited = strip_f(root.a)
                        try:
                            ast.parse(ast.unparse(ast.fix_missing_locations(strip_f(root.a))))      # the edited tree must be a program at all (a yield at module level is one for the parser)
                        except Exception:
                            continue
                        rec = {'target': tsrc, 'donor': dsrc, 'donor_elements': [i, j], 'insert_at': at, 'replace': replace}
                        ctx.tick(('foreign-special', tsrc, dsrc, i, j, at, replace), 'reconcile:foreign-special')
                        try:
                            out = root.reconcile()
                        except Exception as e:
                            ctx.violation(f'reconcile-raise|{type(e).__name__}|foreign-special', 'reconcile() raised on nodes from another tree', {**rec, 'error': repr(e)[:200]})
                            continue
                        d = cmp_ast(out.a, edited, positions=False) or reparse_diffs(out)
                        if d:
                            ctx.violation('reconcile-struct|foreign-special', 'the reconciled tree is not the edited AST (or its source does not parse to it)', {**rec, 'out_src': out.src, 'diffs': d})


RHDR = ('From Coq Require Import List Bool Arith.\nFrom PF Require Import models.SliceReplay.\nImport ListNotations.\n'
        'Definition op_eqb (a b : op) : bool := match a, b with PutSlice s e, PutSlice s2 e2 => Nat.eqb s s2 && Nat.eqb e e2 | InsertOne i, InsertOne j => Nat.eqb i j '
        '| DelTail s, DelTail s2 => Nat.eqb s s2 | Recurse i, Recurse j => Nat.eqb i j | _, _ => false end.\n'
        "Fixpoint ops_eqb (a b : list op) : bool := match a, b with [], [] => true | x :: a', y :: b' => op_eqb x y && ops_eqb a' b' | _, _ => false end.\n"
        "Fixpoint nl_eqb (a b : list nat) : bool := match a, b with [], [] => true | x :: a', y :: b' => Nat.eqb x y && nl_eqb a' b' | _, _ => false end.\n"
        'Definition visible (o : op) : bool := match o with Recurse _ => false | _ => true end.\n')


def stage_slice_replay(ctx: Ctx):
    """models/SliceReplay.v recurse_slice == the slice operations real reconcile() performs on an edited list: elements kept, moved (alone and as runs), deleted, taken from
    another list of the marked tree, and new pure nodes; the put_slice calls on the list are recorded and compared with the model's operations (recursion steps left out)"""
    import fst
    import itertools
    rng = ctx.rng
    src = 'x = [e0, e1, e2, e3, e4]\ny = [f0, f1, f2]\n'
    terms, meta = [], []
    cases = []
    # deterministic small edits + random ones
    base = list(range(5))
    for perm in itertools.permutations(range(3)):
        cases.append([('own', i) for i in perm] + [('own', 3), ('own', 4)])
    for k in range(6):
        cases.append([('own', i) for i in base[:k]])                    # truncations
        cases.append([('own', i) for i in base[k:]])                    # heads dropped
        cases.append([('own', i) for i in base[:k]] + [('new', 0)] + [('own', i) for i in base[k:]])
        cases.append([('own', i) for i in base[:k]] + [('other', 0), ('other', 1)] + [('own', i) for i in base[k:]])
    cases += [[('own', 2), ('own', 3), ('own', 0), ('own', 1)], [('own', 3), ('own', 4), ('new', 0), ('own', 0)], [('other', 1), ('other', 2), ('own', 0)], [('new', 0), ('new', 1)], [],
              [('own', 0), ('own', 1), ('own', 2), ('own', 3), ('own', 4), ('new', 0), ('other', 0)], [('own', 4), ('own', 3), ('own', 2), ('own', 1), ('own', 0)]]
    for _ in range(ctx.scale(60, 600)):
        n = rng.randrange(0, 8)
        cases.append([rng.choice([('own', rng.randrange(5)), ('own', rng.randrange(5)), ('other', rng.randrange(3)), ('new', rng.randrange(3))]) for _ in range(n)])
    seen = set()
    for case in cases:
        # an AST object can stand at one place only
        if len(set(case)) != len(case) or tuple(case) in seen:
            continue
        seen.add(tuple(case))
        root = fst.FST(src, 'exec')
        root.mark()
        lst = root.a.body[0].value
        own_nodes = list(lst.elts)
        other_nodes = list(root.a.body[1].value.elts)
        new_nodes = [ast.Name(id=f'n{k}', ctx=ast.Load()) for k in range(3)]
        pick = {'own': own_nodes, 'other': other_nodes, 'new': new_nodes}
        body = [pick[k][i] for k, i in case]
        nodef = lst.f
        elems = []
        for (k, i), n in zip(case, body):
            f = getattr(n, 'f', None)
            if f is not None and f.parent is not None and f.pfield.idx is not None:
                own = f.pfield.name == 'elts' and f.parent is nodef
                elems.append(f'{{| eid := {dict(own=0, other=100, new=200)[k] + i}; src := Some ({0 if own else 1}, {f.pfield.idx}); own := {cbool(own)}; compat := true |}}')
            else:
                elems.append(f'{{| eid := {200 + i}; src := None; own := false; compat := false |}}')
        lst.elts[:] = body
        log = []
        orig = fst.FST.put_slice

        def spy(self, code=None, start=None, stop=None, field=None, *a, **kw):
            if field == 'elts' and isinstance(self.a, ast.List) and len(self.a.elts) >= 0 and self.parent is not None and isinstance(self.parent.a, ast.Assign) and self.parent.pfield.idx == 0:
                n_now = len(self.a.elts)
                if code is None:
                    log.append(f'DelTail {start}')
                elif kw.get('one'):
                    log.append(f'InsertOne {start}')
                else:
                    log.append(f'PutSlice {start} {stop}')
            return orig(self, code, start, stop, field, *a, **kw)
        fst.FST.put_slice = spy
        try:
            out = root.reconcile()
            err = None
        except Exception as e:
            err = e
        finally:
            fst.FST.put_slice = orig
        rec = {'marked': src, 'edited_list': [f'{k}{i}' for k, i in case]}
        if err is not None:
            ctx.violation(f'reconcile-raise|{type(err).__name__}|slice-replay', 'reconcile() raised on an edited list', {**rec, 'error': repr(err)[:200]})
            continue
        ctx.tick(('slice-replay', tuple(case)), 'reconcile:slice-replay')
        got_names = [e.id for e in out.a.body[0].value.elts]
        want_names = [{'own': f'e{i}', 'other': f'f{i}', 'new': f'n{i}'}[k] for k, i in case]
        if got_names != want_names:
            ctx.violation('reconcile-struct|slice-replay', 'the reconciled list is not the edited list', {**rec, 'got': got_names})
            continue
        ops = '[' + '; '.join(log) + ']'
        terms.append(f'let r := recurse_slice [{"; ".join(elems)}] [0; 1; 2; 3; 4] in nl_eqb (fst r) [{"; ".join(str(dict(own=0, other=100, new=200)[k] + i) for k, i in case)}] && ops_eqb (filter visible (snd r)) {ops}')
        meta.append({**rec, 'real_operations': log})
    failed = coq_eval_bools('C13_slicereplay', RHDR, terms, shard=80)
    ctx.correspondence('models/SliceReplay.v recurse_slice (operations without the recursion steps) == the put_slice calls real reconcile() makes on the edited list', len(terms), [meta[i] for i in failed])


def _N(i):
    return ast.Name(id=i, ctx=ast.Load())


def _donor(src, edit_donor, pick):
    """nodes taken from ANOTHER formatted tree whose own lists / fields were edited as well (their recorded positions in that tree are stale)"""
    import fst
    d = fst.FST(src, 'exec')
    edit_donor(d.a)
    return pick(d.a)


COMPOUND_EDITS = [
    # a keyword turned into `**` (arg = None) and back, with positional / starred arguments on either side of it (a `**v` can not stand in front of `*b`: the whole call is re-put)
    ('f(x, a=v, *b)  # c\ny = 1  # keep\n', 'keywords[0].arg = None with a starred argument behind', lambda t: setattr(t.body[0].value.keywords[0], 'arg', None)),
    ('f(a=v, *b)\n', 'keywords[0].arg = None, starred argument behind, nothing in front', lambda t: setattr(t.body[0].value.keywords[0], 'arg', None)),
    ('f(x, *c, a=v, *b, k=w)\n', 'keywords[0].arg = None between starred arguments', lambda t: setattr(t.body[0].value.keywords[0], 'arg', None)),
    ('f(x, a=v)\n', 'keywords[0].arg = None, last argument', lambda t: setattr(t.body[0].value.keywords[0], 'arg', None)),
    ('class K(x, a=v, *b): pass\n', 'class keywords[0].arg = None with a starred base behind', lambda t: setattr(t.body[0].keywords[0], 'arg', None)),
    ('f(x, **v)\n', 'keywords[0].arg = name', lambda t: setattr(t.body[0].value.keywords[0], 'arg', 'k')),
    ('f(x, a=v, *b)\n', 'keywords[0].arg = other name', lambda t: setattr(t.body[0].value.keywords[0], 'arg', 'kk')),
    ('a = 0\n', 'extend with the rest of another tree whose first statement was popped', lambda t: t.body.extend(_donor('x = 1  # x\ny = 2  # y\nz = 3  # z\n', lambda d: d.body.pop(0), lambda d: d.body))),
    ('a = 0\n', 'extend with the reversed statements of another tree', lambda t: t.body.extend(_donor('x = 1\ny = 2\nz = 3\n', lambda d: d.body.reverse(), lambda d: d.body))),
    ('v = [a]\n', 'extend with elements of a list of another tree whose first was popped', lambda t: t.body[0].value.elts.extend(_donor('[x, y, z]\n', lambda d: d.body[0].value.elts.pop(0), lambda d: d.body[0].value.elts))),
    ('v = [a]\n', 'extend with rotated elements of another tree', lambda t: t.body[0].value.elts.extend(_donor('[x, y, z]\n', lambda d: d.body[0].value.elts.insert(0, d.body[0].value.elts.pop()), lambda d: d.body[0].value.elts))),
    ('v = 1\n', 'a call of another tree with its arguments reversed', lambda t: setattr(t.body[0], 'value', _donor('q = f(x, y)\n', lambda d: d.body[0].value.args.reverse(), lambda d: d.body[0].value))),
    ('v = 1\n', 'a BinOp of another tree with its operands swapped', lambda t: setattr(t.body[0], 'value', _donor('q = (a + b) * c\n', lambda d: (lambda b_: (setattr(b_, 'left', b_.right), setattr(b_, 'right', d.body[0].value.left.__class__ and None)))(d.body[0].value) if False else
                                                                                                                     (lambda b_, l_, r_: (setattr(b_, 'left', r_), setattr(b_, 'right', l_)))(d.body[0].value, d.body[0].value.left, d.body[0].value.right), lambda d: d.body[0].value))),
    ('v = 1\n', 'one element of a list of another tree whose earlier element was deleted', lambda t: setattr(t.body[0], 'value', _donor('[x, y, z]\n', lambda d: d.body[0].value.elts.pop(0), lambda d: d.body[0].value.elts[1]))),
    ('def f(): pass\n', 'statements of a function body of another tree, first one popped', lambda t: t.body[0].body.extend(_donor('def g():\n    x = 1\n    y = 2\n    z = 3\n', lambda d: d.body[0].body.pop(0), lambda d: d.body[0].body))),
    ('from a import b\nx = 1  # c\n', 'module=None, level=1', lambda t: (setattr(t.body[0], 'module', None), setattr(t.body[0], 'level', 1))),
    ('from . import b\n', 'module=m, level=0', lambda t: (setattr(t.body[0], 'module', 'm'), setattr(t.body[0], 'level', 0))),
    ('from .a import b\n', 'module=None', lambda t: setattr(t.body[0], 'module', None)),
    ('f(x=1, *b)\n# c\n', 'starred -> name', lambda t: t.body[0].value.args.__setitem__(0, _N('c'))),
    ('class C(x=1, *b): pass\n', 'starred base -> name', lambda t: t.body[0].bases.__setitem__(0, _N('c'))),
    ('f(x=y, *b)\n', 'keyword.arg=None', lambda t: setattr(t.body[0].value.keywords[0], 'arg', None)),
    ('f(**y)\n', 'keyword.arg=k', lambda t: setattr(t.body[0].value.keywords[0], 'arg', 'k')),
    ('f(a, *b, k=1)\n', 'starred -> name, keyword -> **', lambda t: (t.body[0].value.args.__setitem__(1, _N('c')), setattr(t.body[0].value.keywords[0], 'arg', None))),
    ('def f(a, b=1): pass\n', 'defaults cleared', lambda t: t.body[0].args.defaults.clear()),
    ('def f(a, b=1, *, c, d=2): pass\n', 'kw default removed, one added', lambda t: (t.body[0].args.kw_defaults.__setitem__(1, None), t.body[0].args.kw_defaults.__setitem__(0, ast.Constant(value=3)))),
    ('with a as b: pass\n', 'optional_vars=None', lambda t: setattr(t.body[0].items[0], 'optional_vars', None)),
    ('try: pass\nexcept E as e: pass\n', 'name and type removed', lambda t: (setattr(t.body[0].handlers[0], 'name', None), setattr(t.body[0].handlers[0], 'type', None))),
    ('try: pass\nexcept: pass\n', 'type and name added', lambda t: (setattr(t.body[0].handlers[0], 'type', _N('E')), setattr(t.body[0].handlers[0], 'name', 'e'))),
    ('raise E from c\n', 'exc and cause removed', lambda t: (setattr(t.body[0], 'exc', None), setattr(t.body[0], 'cause', None))),
    ('raise\n', 'exc and cause added', lambda t: (setattr(t.body[0], 'exc', _N('E')), setattr(t.body[0], 'cause', _N('c')))),
    ('x: int = 1\n', 'value removed', lambda t: setattr(t.body[0], 'value', None)),
    ('x = lambda a, b=1: a\n', 'lambda arguments emptied', lambda t: (t.body[0].value.args.args.clear(), t.body[0].value.args.defaults.clear(), setattr(t.body[0].value, 'body', _N('z')))),
    ('for i in j: pass\nelse: pass\n', 'orelse emptied', lambda t: t.body[0].orelse.clear()),
    ('x = a < b < c\n', 'last comparison removed', lambda t: (t.body[0].value.ops.pop(), t.body[0].value.comparators.pop())),
    ('x = {a: 1, **b}\n', '** entry gets a key', lambda t: t.body[0].value.keys.__setitem__(1, _N('k'))),
    ('x = {a: 1, b: 2}\n', 'key becomes **', lambda t: t.body[0].value.keys.__setitem__(1, None)),
    ('x = f"{a!r:>5}"\n', 'conversion and format_spec removed', lambda t: (setattr(t.body[0].value.values[0], 'conversion', -1), setattr(t.body[0].value.values[0], 'format_spec', None))),
    ('x = y[a:b:c]\n', 'step and upper removed', lambda t: (setattr(t.body[0].value.slice, 'step', None), setattr(t.body[0].value.slice, 'upper', None))),
    ('match v:\n    case C(a, k=b): pass\n', 'keyword pattern removed', lambda t: (t.body[0].cases[0].pattern.kwd_attrs.pop(), t.body[0].cases[0].pattern.kwd_patterns.pop())),
    ('match v:\n    case {1: a, **r}: pass\n', 'rest removed, key added', lambda t: (setattr(t.body[0].cases[0].pattern, 'rest', None), t.body[0].cases[0].pattern.keys.append(ast.Constant(value=2)), t.body[0].cases[0].pattern.patterns.append(ast.MatchAs(pattern=None, name='b')))),
    ('def f() -> r: pass\n', 'returns removed, decorator added', lambda t: (setattr(t.body[0], 'returns', None), t.body[0].decorator_list.append(_N('d')))),
    ('class C(B, m=M): pass\n', 'bases and keywords removed', lambda t: (t.body[0].bases.clear(), t.body[0].keywords.clear())),
    ('import a.b as c, d\n', 'asname removed, name changed', lambda t: (setattr(t.body[0].names[0], 'asname', None), setattr(t.body[0].names[1], 'name', 'e.f'))),
    ('x = [i for i in j if k]\n', 'filter removed, async', lambda t: t.body[0].value.generators[0].ifs.clear()),
    ('assert a, m\n', 'msg removed', lambda t: setattr(t.body[0], 'msg', None)),
    ('def g():\n    x = yield v\n    return w\n', 'yield and return values removed', lambda t: (setattr(t.body[0].body[0].value, 'value', None), setattr(t.body[0].body[1], 'value', None))),
]


def stage_compound_edits(ctx: Ctx):
    """deterministic: edits that change SEVERAL fields of one original node (or remove optional children) so that the field-by-field intermediate states are not all
    valid source: reconcile() must still return the edited AST (it falls back to putting the enclosing node), with the neighbouring text kept"""
    import fst
    for src, what, edit in COMPOUND_EDITS:
        root = fst.FST(src, 'exec')
        root.mark()
        try:
            edit(root.a)
            edited = strip_f(root.a)
            ast.parse(ast.unparse(ast.fix_missing_locations(strip_f(root.a))))
        except Exception as e:
            ctx.broken.append({'kind': 'harness', 'name': 'compound_edits', 'detail': f'{src!r} {what}: {e!r}'[:200]})
            continue
        rec = {'marked': src, 'edit': what}
        ctx.tick(('compound', src, what), 'reconcile:compound-edit')
        try:
            out = root.reconcile()
        except Exception as e:
            ctx.violation(f'reconcile-raise|{type(e).__name__}|compound-edit', 'reconcile() raised on a valid edited AST', {**rec, 'error': repr(e)[:200]})
            continue
        d = cmp_ast(out.a, edited, positions=False) or reparse_diffs(out)
        if d:
            ctx.violation('reconcile-struct|compound-edit', 'the reconciled tree is not the edited AST (or its source does not parse to it)', {**rec, 'out_src': out.src, 'diffs': d})
        elif '# c' in src and '# c' not in out.src:
            ctx.violation('reconcile-comment|compound-edit', 'a comment of an untouched neighbouring line was lost', {**rec, 'out_src': out.src})


def stage_dict_and_try(ctx: Ctx):
    """deterministic: (a) Dict keys / values re-paired (values permuted under fixed keys, keys permuted, pairs swapped / deleted / duplicated) with keys that differ by more
    than a primitive and with `**` entries; (b) the number of except handlers / finally statements of a try changed (append / insert / delete / duplicate) while the other
    statements are untouched: the result equals the edited AST and every untouched statement keeps its original text, comments included"""
    import fst
    import itertools
    import copy as _copy
    dicts = ['d = {a + b: 1, c * d: 2}\n', 'd = {a: x, **y}\n', 'd = {a.b: 1, c: 2, "k": [3]}\n', 'd = {\n    1: p,  # one\n    2: q,  # two\n    **r,  # rest\n}\n', 'd = {f(a): (lambda: 0), b[0]: {1: 2}, **e, g: h}\n']
    for src in dicts:
        n = len(ast.parse(src).body[0].value.keys)
        perms = list(itertools.permutations(range(n)))[:24]
        edits_ = [('values', p_) for p_ in perms if p_ != tuple(range(n))] + [('keys', p_) for p_ in perms if p_ != tuple(range(n))] + [('pairs', p_) for p_ in perms if p_ != tuple(range(n))]
        edits_ += [('delete', (k,)) for k in range(n)] + [('dup', (k,)) for k in range(n)]
        for what, p_ in edits_:
            root = fst.FST(src, 'exec')
            root.mark()
            d = root.a.body[0].value
            K, V = list(d.keys), list(d.values)
            if what == 'values':
                d.values = [V[k] for k in p_]
            elif what == 'keys':
                d.keys = [K[k] for k in p_]
            elif what == 'pairs':
                d.keys, d.values = [K[k] for k in p_], [V[k] for k in p_]
            elif what == 'delete':
                del d.keys[p_[0]]
                del d.values[p_[0]]
            else:
                d.keys.insert(p_[0], strip_f(K[p_[0]]) if K[p_[0]] is not None else None)
                d.values.insert(p_[0], strip_f(V[p_[0]]))
            edited = strip_f(root.a)
            try:
                ast.parse(ast.unparse(ast.fix_missing_locations(strip_f(root.a))))
            except Exception:
                continue
            rec = {'src': src, 'edit': what, 'perm': list(p_)}
            ctx.tick(('dict', src, what, p_), 'reconcile:dict-repair')
            try:
                out = root.reconcile()
            except Exception as e:
                ctx.violation(f'reconcile-raise|{type(e).__name__}|dict-{what}', 'reconcile() raised on re-paired Dict entries', {**rec, 'error': repr(e)[:200]})
                continue
            dd = cmp_ast(out.a, edited, positions=False) or reparse_diffs(out)
            if dd:
                ctx.violation(f'reconcile-struct|dict-{what}', 'the reconciled tree is not the edited AST', {**rec, 'out_src': out.src, 'diffs': dd})
    trys = ['try:\n    a = 1  # body\nexcept E1:  # h1\n    b = 2  # in h1\nexcept E2 as e:\n    c = (3,\n         4)  # multi\nelse:\n    d = 5  # in else\nfinally:\n    # own line\n    f = 6  # in finally\n    g = 7\nz = 0\n',
            'def w():\n    try:\n        a  # body\n    except* G1:\n        b  # h1\n    except* G2:\n        c  # h2\n    return 1  # after\n']
    for src in trys:
        probe = ast.parse(src)
        tnode = probe.body[0] if isinstance(probe.body[0], (ast.Try, ast.TryStar)) else probe.body[0].body[0]
        nh, nf = len(tnode.handlers), len(tnode.finalbody)
        edits_ = [('append_handler', None), ('insert_handler', 0), ('insert_handler', 1)] + [('delete_handler', k) for k in range(nh) if nh > 1] + [('dup_handler', k) for k in range(nh)] + \
                 [('append_final', None), ('insert_final', 0)] + [('delete_final', k) for k in range(nf) if nf > 1]
        star = isinstance(tnode, ast.TryStar)
        for what, k in edits_:
            root = fst.FST(src, 'exec')
            root.mark()
            t = root.a.body[0] if isinstance(root.a.body[0], (ast.Try, ast.TryStar)) else root.a.body[0].body[0]
            newh = ast.ExceptHandler(type=ast.Name(id='NewE', ctx=ast.Load()), name=None, body=[ast.Pass()])
            news = ast.Expr(value=ast.Name(id='new_stmt', ctx=ast.Load()))
            if what == 'append_handler':
                t.handlers.append(newh)
            elif what == 'insert_handler':
                t.handlers.insert(k, newh)
            elif what == 'delete_handler':
                del t.handlers[k]
            elif what == 'dup_handler':
                t.handlers.insert(k, strip_f(t.handlers[k]))
            elif what == 'append_final':
                t.finalbody.append(news)
            elif what == 'insert_final':
                t.finalbody.insert(0, news)
            else:
                del t.finalbody[k]
            edited = strip_f(root.a)
            # untouched statements: original statement objects still in the tree, other than the try itself and its ancestors
            lines = src.split('\n')
            keep = []
            for n_ in ast.walk(root.a):
                if isinstance(n_, ast.stmt) and getattr(n_, 'f', None) is not None and n_ is not t and not any(c is t for c in ast.walk(n_)):
                    keep += [l.strip() for l in lines[n_.lineno - 1:n_.end_lineno] if l.strip()]
            rec = {'src': src, 'edit': what, 'index': k}
            ctx.tick(('try', src, what, k), 'reconcile:try-count')
            try:
                out = root.reconcile()
            except Exception as e:
                ctx.violation(f'reconcile-raise|{type(e).__name__}|try-{what}', 'reconcile() raised on a changed number of handlers / finally statements', {**rec, 'error': repr(e)[:200]})
                continue
            dd = cmp_ast(out.a, edited, positions=False) or reparse_diffs(out)
            if dd:
                ctx.violation(f'reconcile-struct|try-{what}', 'the reconciled tree is not the edited AST', {**rec, 'out_src': out.src, 'diffs': dd})
                continue
            have = collections.Counter(l.strip() for l in out.src.split('\n'))
            lost = [l for l in keep if not have[l]]
            if lost:
                ctx.violation(f'reconcile-untouched-text|try-{what}', 'statements that were not touched lost their original text (layout / comments) in the reconciled source',
                              {**rec, 'out_src': out.src, 'lost_lines': lost[:6]})


# ---- correspondence: number of puts of the real reconciler vs models/Reconcile.v ----------------------------------------
SKIP_FIELDS = ('ctx', 'str', 'lineno', 'col_offset', 'end_lineno', 'end_col_offset', 'kind', 'type_comment')


class Enc:
    def __init__(self):
        self.labels = {('<None entry>',): 0}

    def label(self, n):
        key = (type(n).__name__,) + tuple((f, repr(v)) for f, v in ast.iter_fields(n)
                                          if f not in SKIP_FIELDS and not isinstance(v, ast.AST) and not (isinstance(v, list) and any(isinstance(x, ast.AST) for x in v)))
        return self.labels.setdefault(key, len(self.labels))

    def kids(self, n):
        out = []
        for f, v in ast.iter_fields(n):
            if f in SKIP_FIELDS:
                continue
            if isinstance(v, ast.AST):
                out.append(v)
            elif isinstance(v, list) and f == 'kw_defaults':
                out += list(v)          # a None entry of kw_defaults is re-put (a no-op) like a pure leaf
            elif isinstance(v, list):
                out += [x for x in v if isinstance(x, ast.AST)]
        return out

    def enc(self, n, ids):
        if n is None:
            return 'RT None 0 []'
        k = ids.get(id(n))
        return f'RT {"(Some " + str(k) + ")" if k is not None else "None"} {self.label(n)} [{"; ".join(self.enc(c, ids) for c in self.kids(n))}]'


def stage_corr(ctx: Ctx, progs):
    import fst
    from fst import reconcile as R
    rng = ctx.rng
    small = [p for p in progs if len(p) < 500]
    terms, meta = [], []
    counts = {'n': 0, 'depth': 0, 'slice': 0}
    orig = (R.Reconcile.put_node, fst.FST.put, fst.FST.put_slice)

    def counted(fn, kind):
        def w(*a, **k):
            top = counts['depth'] == 0
            counts['depth'] += 1
            try:
                return fn(*a, **k)
            finally:
                counts['depth'] -= 1
                if top:
                    counts['n'] += 1
                    if kind == 'slice':
                        counts['slice'] += 1
        return w

    tries = 0
    while len(terms) < ctx.scale(120, 1500) and tries < ctx.scale(1500, 20000):
        tries += 1
        src = rng.choice(small)
        root = fst.FST(src, 'exec')
        if any(isinstance(n, (ast.Global, ast.Nonlocal)) or (isinstance(n, ast.MatchClass) and n.kwd_attrs) for n in ast.walk(root.a)):
            continue      # lists of identifiers are re-put element by element even when unchanged (no-op puts the model does not count)
        root.mark()
        e = Enc()
        order = []
        def pre(n):
            order.append(n)
            for c in e.kids(n):
                if c is not None:
                    pre(c)
        pre(root.a)
        ids = {id(n): k for k, n in enumerate(order)}
        M = e.enc(root.a, ids)
        touched = set()
        muts = []
        for _ in range(rng.choice([0, 1, 1, 2, 3])):
            pm = parent_map(root.a)
            nodes = list(ast.walk(root.a))
            exprs = [n for n in nodes if id(n) in pm and is_load_expr(n, pm) and pm[id(n)][2] is None]   # not an element of a list field
            kind = rng.choice(['replace_expr', 'wrap_expr', 'swap_expr', 'prim', 'op'])
            if kind == 'replace_expr' and exprs:
                n = rng.choice(exprs)
                new, s_ = new_expr(rng, simple=True)
                set_child(*pm[id(n)], new)
                muts.append(f'replace {s_}')
            elif kind == 'wrap_expr' and exprs:      # a new node with an in-tree node below it
                n = rng.choice(exprs)
                new = ast.BinOp(left=n, op=ast.Add(), right=ast.Constant(value=1))
                set_child(*pm[id(n)], new)
                muts.append('wrap')
            elif kind == 'swap_expr' and len(exprs) >= 2:
                a, b = rng.sample(exprs, 2)
                if any(z is b for z in ast.walk(a)) or any(z is a for z in ast.walk(b)):
                    continue
                pa, pb = pm[id(a)], pm[id(b)]
                set_child(*pa, b)
                set_child(*pb, a)
                muts.append('swap')
            elif kind == 'prim':
                c = [n for n in nodes if isinstance(n, (ast.Name, ast.Attribute)) and isinstance(getattr(n, 'ctx', None), ast.Load)]
                if c:
                    n = rng.choice(c)
                    if isinstance(n, ast.Name):
                        n.id = 'rn'
                    else:
                        n.attr = 'ra'
                    muts.append('prim')
            elif kind == 'op':
                c = [n for n in nodes if isinstance(n, ast.BinOp)]
                if c:
                    rng.choice(c).op = ast.Mult()
                    muts.append('op')
        if not valid_tree(strip_f(root.a)):
            continue
        W = e.enc(root.a, ids)
        counts.update(n=0, depth=0, slice=0)
        R.Reconcile.put_node = counted(orig[0], 'node')
        fst.FST.put = counted(orig[1], 'put')
        fst.FST.put_slice = counted(orig[2], 'slice')
        try:
            try:
                root.reconcile()
                ok = True
            except Exception:
                ok = False
        finally:
            R.Reconcile.put_node, fst.FST.put, fst.FST.put_slice = orig
        if not ok or counts['slice']:
            continue          # outside the modelled family (slice copies) or refused
        ctx.tick(('corr', src, tuple(muts)), 'corr:' + str(len(muts)))
        terms.append(f'Nat.eqb (snd (reconcile ({M}) ({W}))) {counts["n"]}')
        meta.append({'src': src, 'mutations': muts, 'real_puts': counts['n']})
    failed = coq_eval_bools('C13_puts', HDR, terms, shard=60)
    ctx.correspondence('models/Reconcile.v number of puts == number of top-level put_node / put calls made by the real Reconcile (edits that do not move elements of slice fields)',
                       len(terms), [meta[i] for i in failed])


def run(ctx: Ctx):
    ctx.rule = ('up to 3 mark/reconcile rounds per program; per round 0..5 pure-AST mutations: replace expression by new AST / node of a foreign FST tree, swap or duplicate in-tree '
                'expressions, change primitives and operators, insert / delete / replace / move / reverse / duplicate statements in any body (new, in-tree and foreign statements), '
                'resize List/Tuple/Set. Edited trees that are not programs (unparse/parse differs) are skipped. After reconcile(): C01 re-parse, structural equality with the edited AST, '
                'no-change => identical source, untouched top-level statements keep their own source and comments. distinct = (source, mutation list).')
    ctx.assumptions += ['ast.unparse/ast.parse round trip defines "the edited AST is a program"', 'CPython parser for C01']
    ok = stage_translate(ctx)
    if ok:
        ctx.build_props()
    progs = corpus(ctx.rng, gen=ctx.scale(20, 150))
    run_guarded(ctx, stage_oracle, progs)
    run_guarded(ctx, stage_prims)
    run_guarded(ctx, stage_prim_fields)
    run_guarded(ctx, stage_foreign_runs)
    run_guarded(ctx, stage_foreign_specials)
    run_guarded(ctx, stage_slice_replay)
    run_guarded(ctx, stage_compound_edits)
    run_guarded(ctx, stage_dict_and_try)
    run_guarded(ctx, stage_corr, progs)


def replay(path):
    d = json.load(open(path))
    print(json.dumps(d, indent=1)[:6000])
    return 0
