"""C01 - After any successful edit the source text still parses to exactly the live tree."""

from __future__ import annotations

import ast
import json

from lib.common import *
from lib import edits
from lib.oracle import reparse_diffs
from lib.progs import corpus
from lib.trace import Tracer
from props.C11 import HDR, stage_translate

LEVEL = 'proof'


def classify(before_src: str, op: dict, diffs: list[str]) -> str:
    """Canonical signature of a C01 failure (used to match known findings: specific call-site classes only)."""
    try:
        tgt = edits.node_at(ast.parse(before_src), op['path'])
    except Exception:
        tgt = None
    tname = type(tgt).__name__ if tgt is not None else '?'
    d0 = diffs[0] if diffs else ''
    if edits.eof_trailing_space_case(before_src, op):
        return 'stmt-put-at-eof-without-newline-with-trailing-space-trivia'
    if 'positional argument follows keyword argument' in d0:
        # Call.args / ClassDef.bases real-field put of a positional element behind a keyword
        holder = tgt
        fld = op.get('field')
        if op['kind'] in ('replace_expr', 'view_set', 'put_one', 'put_slice_exprs', 'attr_assign'):
            return 'unparsable|arglike-positional-after-keyword'
    kind = 'unparsable' if d0.startswith('source does not parse') else 'pos' if ': pos ' in d0 else 'struct'
    return f'{kind}|{op["kind"]}|{tname}|{op.get("field")}|{d0[:50]}'


def stage_sequences(ctx: Ctx, progs, tracer: Tracer | None):
    import fst
    rng = ctx.rng
    nseq = ctx.scale(260, 6000)
    maxlen = ctx.scale(8, 30)
    nok = nexc = 0
    for si in range(nseq):
        src = rng.choice(progs)
        try:
            root = fst.FST(src, 'exec')
        except Exception as e:
            ctx.broken.append({'kind': 'harness', 'name': 'stage_sequences', 'detail': f'corpus program does not build: {e!r}'})
            continue
        rid = id(root)
        history = []
        for step in range(rng.randrange(1, maxlen + 1)):
            op = edits.gen_op(rng, root)
            if not op:
                continue
            before = root.src
            if tracer is not None:
                tracer.context = edits.op_brief(op)
            r, e = edits.apply(root, op)
            history.append({'op': edits.op_brief(op), 'result': r, 'error': repr(e)[:160] if e else None})
            ctx.dist['op:' + op['kind'] + ':' + r] = ctx.dist.get('op:' + op['kind'] + ':' + r, 0) + 1
            if r == 'exc':
                nexc += 1
                continue
            nok += 1
            ctx.tick((hash(before) & 0xffffff, op['kind'], json.dumps(edits.op_brief(op), default=repr, sort_keys=True)), None)
            diffs = reparse_diffs(root)
            if id(root) != rid:
                diffs = (diffs or []) + ['root identity changed']
            if diffs:
                sig = classify(before, op, diffs)
                ctx.violation(sig, 'after a successful edit the source parsed from scratch differs from the live tree',
                              {'start_src': src, 'history': history, 'src_before_last_op': before, 'last_op': edits.op_brief(op),
                               'diffs': diffs, 'result_src': root.src})
                break
            if len(ctx.samples) < 4 and rng.random() < 0.01:
                ctx.sample({'edit': edits.op_brief(op), 'before': before[:200], 'after': root.src[:200]})
    ctx.extra['edits_ok'] = nok
    ctx.extra['edits_raised'] = nexc


BINOPS = {'+': ast.Add, '-': ast.Sub, '*': ast.Mult, '@': ast.MatMult, '/': ast.Div, '%': ast.Mod, '**': ast.Pow, '<<': ast.LShift, '>>': ast.RShift, '|': ast.BitOr,
          '^': ast.BitXor, '&': ast.BitAnd, '//': ast.FloorDiv}
OP_EXPRS = ['a + b * c', 'p | q >> r', 'a - b @ c', 'a * b ** c', '(a + b) * c', 'a ** b ** c', 'a << b + c', 'a & b | c', 'a * (b / c)', '(a - b) - c', 'a - (b - c)', 'a // b % c',
            'x = f(a + b * c, d ^ e & g)', 'ü * é + (n - m)', 'a + b * c - d / e // f % g ** h @ i', '-a ** b', '(-a) ** b', 'a @ b @ c', 'a ^ b ^ (c ^ d)', 'a % (b * c)']


def stage_operator_sweep(ctx: Ctx):
    """every binary operator of a set of expressions replaced by every other binary operator (deterministic): the source
    must re-parse to the tree whose only difference is that operator"""
    import fst
    for src in OP_EXPRS:
        probe = fst.FST(src, 'exec')
        paths = [probe.child_path(f) for f in probe.walk(True) if isinstance(f.a, ast.BinOp)]
        for path in paths:
            for sym, cls in BINOPS.items():
                root = fst.FST(src, 'exec')
                f = root.child_from_path(path)
                want = ast.parse(src)
                tgt = edits.node_at(want, edits.path_of(root.a, f.a))
                tgt.op = cls()
                rec = {'src': src, 'binop': repr(f), 'new_op': sym}
                for how in ('op.replace', 'put'):
                    root = fst.FST(src, 'exec')
                    f = root.child_from_path(path)
                    try:
                        if how == 'op.replace':
                            f.op.replace(sym)
                        else:
                            f.put(sym, field='op')
                    except Exception as e:
                        ctx.violation(f'op-sweep-raise|{type(e).__name__}', 'replacing a binary operator raised', {**rec, 'how': how, 'error': repr(e)[:200]})
                        continue
                    ctx.tick(('opsweep', src, str(path), sym, how), 'op:binop-operator')
                    d = reparse_diffs(root)
                    if d:
                        ctx.violation(f'pos|operator-replace|{d[0][:40]}', 'after replacing an operator the source parsed from scratch differs from the live tree',
                                      {**rec, 'how': how, 'result_src': root.src, 'diffs': d})
                        continue
                    from lib.oracle import cmp_ast
                    d = cmp_ast(root.a, want, positions=False)
                    if d:
                        ctx.violation('struct|operator-replace', 'replacing an operator changed more than the operator (grouping)', {**rec, 'how': how, 'result_src': root.src, 'diffs': d})


def run(ctx: Ctx):
    ctx.rule = ('random edit sequences (length 1..8 quick / 1..30 thorough) over the hand corpus + generated programs; ops: replace/remove/cut of '
                'expressions, statements, patterns; put_slice/insert/extend/prextend of statements and expressions; put(one); attribute '
                'assignment/deletion; view item assignment/deletion; put_docstr; put_line_comment; code as source/FST/AST; random option '
                'settings with norm=True and pars in (auto, True). After every successful op: CPython re-parse comparison incl. all positions. '
                'distinct = (source before, op); non-trivial = the op returned normally. Trace correspondence: every _offset/_put_src call '
                'made by these edits (sampled) replayed on the Coq models.')
    ctx.assumptions += ['OH1: CPython positions are token extents', 'Ordered holds of parser output (checked in C11)',
                        'C09 supplies the element part (E) for expression slots']
    ok = stage_translate(ctx)
    progs = corpus(ctx.rng, gen=ctx.scale(25, 200))
    small = [p for p in progs if len(p) < 700]
    if ok:
        ctx.build_props()
    tracer = Tracer(budget_offset=ctx.scale(150, 1500), budget_put=ctx.scale(250, 2500), max_nodes=160, rng=ctx.rng, sample=0.25)
    with tracer:
        run_guarded(ctx, stage_sequences, progs, tracer)
    run_guarded(ctx, stage_operator_sweep)
    if ok:
        try:
            failed = coq_eval_bools('C01_troff', HDR, tracer.terms_offset, shard=40)
            ctx.correspondence('trace: every sampled FST._offset call made by API edits == models/Offset.v offset_top on the before-snapshot',
                               len(tracer.terms_offset), [tracer.meta_offset[i] for i in failed])
            failed = coq_eval_bools('C01_trput', HDR, tracer.terms_put, shard=300)
            ctx.correspondence('trace: every sampled FST._put_src call made by API edits == kernel/Text.v put_src', len(tracer.terms_put),
                               [tracer.meta_put[i] for i in failed])
        except CoqEvalError as e:
            ctx.broken.append({'kind': 'correspondence', 'name': 'trace', 'detail': str(e)[:2000]})
    ctx.extra['lowlevel_calls_seen'] = tracer.calls
    ctx.extra['offset_argument_patterns(tail,head,exclude?,offset_excluded,self_,sign dln,sign dcol)'] = {str(k): v for k, v in sorted(tracer.patterns.items(), key=str)}


def replay(path):
    import fst
    d = json.load(open(path))
    print(json.dumps(d, indent=1)[:6000])
    return 0
