"""C01 - After any successful edit the source text still parses to exactly the live tree."""

from __future__ import annotations

import ast
import json

from lib.common import *
from lib import edits
from lib.oracle import reparse_diffs
from lib.progs import corpus
from lib.trace import Tracer
from props.C11 import HDR, stage_translate

LEVEL = 'proof'


def classify(before_src: str, op: dict, diffs: list[str]) -> str:
    """Canonical signature of a C01 failure (used to match known findings: specific call-site classes only)."""
    try:
        tgt = edits.node_at(ast.parse(before_src), op['path'])
    except Exception:
        tgt = None
    tname = type(tgt).__name__ if tgt is not None else '?'
    d0 = diffs[0] if diffs else ''
    if edits.eof_trailing_space_case(before_src, op):
        return 'stmt-put-at-eof-without-newline-with-trailing-space-trivia'
    if d0.startswith('source does not parse') and edits.continuation_semicolon_case(before_src, op):
        return 'stmt-put-before-continuation-semicolon-with-trailing-trivia'
    if d0.startswith('source does not parse') and op['kind'] == 'put_line_comment' and tgt is not None and edits.stmt_before_continuation_semicolon(before_src, tgt):
        return 'line-comment-put-before-continuation-semicolon'
    if 'positional argument follows keyword argument' in d0:
        # Call.args / ClassDef.bases real-field put of a positional element behind a keyword
        holder = tgt
        fld = op.get('field')
        if op['kind'] in ('replace_expr', 'view_set', 'put_one', 'put_slice_exprs', 'attr_assign'):
            return 'unparsable|arglike-positional-after-keyword'
    kind = 'unparsable' if d0.startswith('source does not parse') else 'pos' if ': pos ' in d0 else 'struct'
    return f'{kind}|{op["kind"]}|{tname}|{op.get("field")}|{d0[:50]}'


def stage_sequences(ctx: Ctx, progs, tracer: Tracer | None):
    import fst
    rng = ctx.rng
    nseq = ctx.scale(260, 6000)
    maxlen = ctx.scale(8, 30)
    nok = nexc = 0
    for si in range(nseq):
        src = rng.choice(progs)
        try:
            root = fst.FST(src, 'exec')
        except Exception as e:
            ctx.broken.append({'kind': 'harness', 'name': 'stage_sequences', 'detail': f'corpus program does not build: {e!r}'})
            continue
        rid = id(root)
        history = []
        for step in range(rng.randrange(1, maxlen + 1)):
            op = edits.gen_op(rng, root)
            if not op:
                continue
            before = root.src
            if tracer is not None:
                tracer.context = edits.op_brief(op)
            r, e = edits.apply(root, op)
            history.append({'op': edits.op_brief(op), 'result': r, 'error': repr(e)[:160] if e else None})
            ctx.dist['op:' + op['kind'] + ':' + r] = ctx.dist.get('op:' + op['kind'] + ':' + r, 0) + 1
            if r == 'exc':
                nexc += 1
                continue
            nok += 1
            ctx.tick((hash(before) & 0xffffff, op['kind'], json.dumps(edits.op_brief(op), default=repr, sort_keys=True)), None)
            diffs = reparse_diffs(root)
            if id(root) != rid:
                diffs = (diffs or []) + ['root identity changed']
            if diffs:
                sig = classify(before, op, diffs)
                ctx.violation(sig, 'after a successful edit the source parsed from scratch differs from the live tree',
                              {'start_src': src, 'history': history, 'src_before_last_op': before, 'last_op': edits.op_brief(op),
                               'diffs': diffs, 'result_src': root.src})
                break
            if len(ctx.samples) < 4 and rng.random() < 0.01:
                ctx.sample({'edit': edits.op_brief(op), 'before': before[:200], 'after': root.src[:200]})
    ctx.extra['edits_ok'] = nok
    ctx.extra['edits_raised'] = nexc


BINOPS = {'+': ast.Add, '-': ast.Sub, '*': ast.Mult, '@': ast.MatMult, '/': ast.Div, '%': ast.Mod, '**': ast.Pow, '<<': ast.LShift, '>>': ast.RShift, '|': ast.BitOr,
          '^': ast.BitXor, '&': ast.BitAnd, '//': ast.FloorDiv}
OP_EXPRS = ['a + b * c', 'p | q >> r', 'a - b @ c', 'a * b ** c', '(a + b) * c', 'a ** b ** c', 'a << b + c', 'a & b | c', 'a * (b / c)', '(a - b) - c', 'a - (b - c)', 'a // b % c',
            'x = f(a + b * c, d ^ e & g)', 'ü * é + (n - m)', 'a + b * c - d / e // f % g ** h @ i', '-a ** b', '(-a) ** b', 'a @ b @ c', 'a ^ b ^ (c ^ d)', 'a % (b * c)']


def stage_operator_sweep(ctx: Ctx):
    """every binary operator of a set of expressions replaced by every other binary operator (deterministic): the source
    must re-parse to the tree whose only difference is that operator"""
    import fst
    for src in OP_EXPRS:
        probe = fst.FST(src, 'exec')
        paths = [probe.child_path(f) for f in probe.walk(True) if isinstance(f.a, ast.BinOp)]
        for path in paths:
            for sym, cls in BINOPS.items():
                root = fst.FST(src, 'exec')
                f = root.child_from_path(path)
                want = ast.parse(src)
                tgt = edits.node_at(want, edits.path_of(root.a, f.a))
                tgt.op = cls()
                rec = {'src': src, 'binop': repr(f), 'new_op': sym}
                for how in ('op.replace', 'put'):
                    root = fst.FST(src, 'exec')
                    f = root.child_from_path(path)
                    try:
                        if how == 'op.replace':
                            f.op.replace(sym)
                        else:
                            f.put(sym, field='op')
                    except Exception as e:
                        ctx.violation(f'op-sweep-raise|{type(e).__name__}', 'replacing a binary operator raised', {**rec, 'how': how, 'error': repr(e)[:200]})
                        continue
                    ctx.tick(('opsweep', src, str(path), sym, how), 'op:binop-operator')
                    d = reparse_diffs(root)
                    if d:
                        ctx.violation(f'pos|operator-replace|{d[0][:40]}', 'after replacing an operator the source parsed from scratch differs from the live tree',
                                      {**rec, 'how': how, 'result_src': root.src, 'diffs': d})
                        continue
                    from lib.oracle import cmp_ast
                    d = cmp_ast(root.a, want, positions=False)
                    if d:
                        ctx.violation('struct|operator-replace', 'replacing an operator changed more than the operator (grouping)', {**rec, 'how': how, 'result_src': root.src, 'diffs': d})


SWEEP_PROGS = [
    'if x:\n    a \\\n  ;\n    b\n', 'while y:\n    c; \\\n    d\n', 'def f():\n    a;\n    b\n', 'if x:\n    if y:\n        a  ;  # c\n        b\nz\n',
    'class C:\n    a = 1 \\\n    ; \\\n    b = 2\n', 'try:\n    a \\\n    ;\n    b\nfinally:\n    c;\n    d\n',
    '(ann): int = 1\n(obj.attr): str\nclass K:\n    (field): list = []\n    plain: int\n', 'a: int = 1\n(b): int\nc.d: int = 2\ne[0]: int\n',
    'for (i) in j: pass\nwith a as (b): pass\n[k for (k) in l]\n(m := n)\no = p = q\n',
]
SEQ_PROGS = ['del (a), (b), (c)\n', 'x = (a), (b), (c)\n', 'for (i), (j) in (k), (l): pass\n', 'def f():\n    return (a), (b)\n', 'import a, b, c\n', 'from m import a, b, c\n',
             'def g():\n    global a, b, c\n    nonlocal_ = 0\n', 'with (a), (b): pass\n', 'with (a) as (b), (c) as (d): pass\n', '(a) = (b) = c\n', 'x = a[(i), (j)]\n', '@(d1)\n@(d2)\ndef f(): pass\n',
             'class K((A), (B), k=(1), j=(2)): pass\n', 'f((a), (b), k=(1), j=(2))\n', 'z = (a) and (b) and (c)\n', 'match v:\n  case (a) | (b) | (c): pass\n  case (a), (b): pass\n  case [(a), (b)]: pass\n  case C((a), (b), k=(c), j=(d)): pass\n',
             'x = [(a), (b)]\ny = {(a), (b)}\nz = ((a), (b))\n', 'x = [i for i in (j) if (k) if (l)]\n', 'def f[T, U](a, b=(1), *, c=(2), d=(3)): pass\n', 'x = {**(a), (b): (c), **(d)}\n',
             'if a:\n    del (a), (b)\nelif b:\n    x = (a), (b)\n']
IDENT_PROG = ('import a.b as c\nfrom m.n import p as q\nfrom . import r\ndef f(a, *b, k=1, **c): pass\nclass K: pass\nx.y = z\nf(k=1)\ndef h():\n    global g\n    nonlocal_ = 1\n'
              'match v:\n  case {**r}: pass\n  case [*s]: pass\n  case C(k=1): pass\n  case t as u: pass\ntry: pass\nexcept E as e: pass\ntype T[U, *V, **W] = U\n')
IDENT_PROG2 = ('import \ufb01.\ufb02 as \ufb03\nfrom \ufb01.\ufb02 import \ufb01 as \ufb02\ndef \ufb01(\ufb01, *\ufb02, \ufb03=1, **\ufb04): pass\nclass \ufb01: pass\nx.\ufb01 = \ufb02\nf(\ufb01=1)\ndef h():\n    global \ufb01\n    nonlocal_ = 1\n'
               'match v:\n  case {**\ufb01}: pass\n  case [*\ufb01]: pass\n  case C(\ufb01=1): pass\n  case t as \ufb01: pass\n  case {1: a, **\ufb02}: pass\ntry: pass\nexcept E as \ufb01: pass\ntype T[\ufb01, *\ufb02, **\ufb03] = \ufb01\n'
               'def k(\ufb01: int, *\ufb02: str): pass\ntype U[\ufb01: int] = \ufb01\n')
SLOT_PROG = ('async def fn(a0: an0 = df0, *va: an1, k0=df1, **kw) -> rt:\n    r0 = [e0 for t0 in it0 if c0 if c1 for t1 in it1]\n    r1 = {k1: v1 for t2 in it2}\n    r2 = b0 and b1 or not b2\n'
             '    r3 = x0 < x1 <= x2\n    r4 = y0 + y1 * -y2 ** y3\n    r5 = g0(p0, *p1, kk=p2, **p3)\n    r6 = s0[i0:i1:i2, i3]\n    r7 = o0.at\n    r8 = t_ if c_ else f_\n    r9 = lambda q0=dq: bd\n'
             '    r10 = {dk: dv, **dd}\n    r11 = {se0, se1}\n    r12 = (tu0, tu1)\n    r13 = f"{fv0!r:>{fw0}}"\n    r14 = await aw0\n    r15 = yield yv\n    r16 = (ne := nv)\n    r17 = [*sv]\n'
             '    for ft in fi: pass\n    while wc: pass\n    if ic: pass\n    with w0 as w1, w2: pass\n    assert as0, as1\n    raise ex0 from ex1\n    del dl[di]\n    tg[ti] = tv\n    ag += av\n    an: ann = anv\n'
             '    return rv\n@dec0(dc1)\nclass K(B0, mk=mv): pass\nmatch ms:\n    case mp.q if mg: pass\n')
INDENT_PROGS = ['def f():\n    b\'\'\'x\n    y\'\'\'\n    return 1\n', 'class K:\n    def m(self):\n        b\'\'\'p\n  q\'\'\'\n        \'\'\'s\n        t\'\'\'\n        z = b\'\'\'u\n        v\'\'\'\n        return z\n',
                'def g():\n    \'\'\'doc\n    more\'\'\'\n    x = \'\'\'a\n    b\'\'\'\n    f\'\'\'c{x}\n    d\'\'\'\n    rb\'\'\'e\n    f\'\'\'\n    return x\n']
PRIM_PROGS = ['x = 1.0.real\n', 'x = [1for y in z]\n', 'x = 1if y else 2\n', 'x = "a".upper()\n', 'x = not"a"\n', 'def f():\n    return"a" + b\n', 'x = "a"if"b"else"c"\n',
              'x = 1.0 ** 2\n', 'x = -1\n', 'x = a[1:2]\n', 'x = f(1, k=2)\n', "x = '''m\nl'''.strip()\n", 'x = 1 .real + 2j\n', 'x = "é"if"b"else"c"  # ü\n', 'x = (1)\n']
PRIM_VALUES = [1, 5, True, None, 2.5, -0.0, 0.0, -1, 1j, 's', b'b', ..., 10 ** 30, 1e100, complex(1, 2), float('inf'), float('nan'), complex(0, float('inf')), complex(-0.0, 1)]
TARGET_NEW = ['n', '(n)', 'n.m', 'n[0]', '(n.m)']


def stage_structural_sweep(ctx: Ctx):
    """deterministic sweeps: (a) every statement of a set of programs (line continuations before ';', trailing ';', nested blocks) removed / cut alone;
    (b) every assignment-like target replaced by a name, a parenthesized name, an attribute, a subscript. After each: CPython re-parse comparison of all
    fields and positions (e.g. AnnAssign.simple, block ends after a trailing ';')."""
    import fst
    from lib.progs import CORPUS
    for src in SWEEP_PROGS + [CORPUS[-1]]:
        probe = fst.FST(src, 'exec')
        stmts = [probe.child_path(f) for f in probe.walk(True) if isinstance(f.a, ast.stmt) and f.parent is not None and len(getattr(f.parent.a, f.pfield.name)) > 1]   # emptying a block is allowed to give an unparsable source unless norm is set
        for path in stmts:
            for how in ('remove', 'cut'):
                root = fst.FST(src, 'exec')
                f = root.child_from_path(path)
                rec = {'src': src, 'stmt': repr(f), 'how': how}
                try:
                    f.remove() if how == 'remove' else f.cut()
                except Exception as e:
                    ctx.dist[f'sweep:{how}:refused'] = ctx.dist.get(f'sweep:{how}:refused', 0) + 1
                    d = reparse_diffs(root)
                    if d:
                        ctx.violation(f'sweep-raise-dirty|{how}|{type(e).__name__}', 'a refused statement removal left an inconsistent tree', {**rec, 'error': repr(e)[:200], 'diffs': d})
                    continue
                ctx.tick(('sweep', src, str(path), how), f'sweep:{how}')
                d = reparse_diffs(root)
                if d:
                    ctx.violation(f'pos|stmt-{how}|{d[0].split(":")[0][-40:]}', 'after removing a statement the source parsed from scratch differs from the live tree',
                                  {**rec, 'result_src': root.src, 'diffs': d})
        targets = []
        if src is SWEEP_PROGS[0]:
            # (d) statements carrying multi-line str / bytes literals moved to another indentation level (copy / cut into a deeper block, out to module level)
            for isrc in INDENT_PROGS:
                iprobe = fst.FST(isrc, 'exec')
                for path in [iprobe.child_path(f) for f in iprobe.walk(True) if isinstance(f.a, ast.stmt)]:
                    for how in ('copy_deeper', 'cut_deeper', 'copy_top', 'cut_top', 'copy_into_def'):
                        root = fst.FST(isrc + 'if deep:\n    if deeper:\n        pass\ndef holder():\n    pass\n', 'exec')
                        f = root.child_from_path(path)
                        rec = {'src': root.src, 'stmt': repr(f), 'how': how}
                        if how.startswith('cut') and len(getattr(f.parent.a, f.pfield.name)) == 1:
                            continue      # emptying a block is allowed to leave an unparsable source unless norm is set
                        try:
                            piece = f.cut() if how.startswith('cut') else f.copy()
                            if how.endswith('deeper'):
                                root.body[-2].body[0].body.append(piece)
                            elif how.endswith('top'):
                                root.body.insert(piece, 0)
                            else:
                                root.body[-1].body.append(piece)
                        except Exception as e:
                            ctx.dist['sweep:indent-move:refused'] = ctx.dist.get('sweep:indent-move:refused', 0) + 1
                            continue
                        ctx.tick(('sweep', isrc, str(path), how), 'sweep:indent-move')
                        d = reparse_diffs(root)
                        if d:
                            ctx.violation(f'pos|indent-move|{d[0].split(": ")[-1][:40]}', 'after moving a statement to another indentation level the source parsed from scratch differs from the live tree',
                                          {**rec, 'result_src': root.src, 'diffs': d})
            # (e) elements of sequences whose elements are parenthesized (the end of the element is not the end of its text): delete / replace / append at every index
            for qsrc in SEQ_PROGS:
                qprobe = fst.FST(qsrc, 'exec')
                jobs = []
                for f in qprobe.walk(True):
                    for field in f.a._fields:
                        v = getattr(f.a, field, None)
                        if isinstance(v, list) and len(v) >= 2 and isinstance(v[0], ast.AST) and field not in ('body', 'orelse', 'finalbody', 'handlers', 'cases', 'type_ignores', 'ops', 'comparators'):
                            for i in range(len(v)):
                                jobs += [(qprobe.child_path(f), field, i, how) for how in ('del', 'del-tail', 'rep-par', 'rep-plain', 'ins-par')]
                            jobs.append((qprobe.child_path(f), field, len(v), 'ins-par'))
                for path, field, i, how in jobs:
                    root = fst.FST(qsrc, 'exec')
                    f = root.child_from_path(path)
                    n = len(getattr(f.a, field))
                    new = {'names': 'zz', 'items': '(zz)', 'decorator_list': '@(zz)', 'keywords': 'zz=(1)', 'patterns': '(zz)', 'type_params': 'Z'}.get(field, '(zz)')
                    if isinstance(f.a, (ast.Global, ast.Nonlocal, ast.Import, ast.ImportFrom)):
                        new = 'zz'
                    rec = {'src': qsrc, 'node': repr(f), 'field': field, 'idx': i, 'how': how}
                    left = n - 1 if how == 'del' else i if how == 'del-tail' else n
                    if left < (2 if isinstance(f.a, (ast.BoolOp, ast.MatchOr)) else 1):
                        continue      # a (documented) incomplete node
                    try:
                        if how == 'del':
                            f.put_slice(None, i, i + 1, field)
                        elif how == 'del-tail':
                            if i == 0:
                                continue
                            f.put_slice(None, i, n, field)
                        elif how == 'rep-par':
                            f.put_slice(new, i, i + 1, field, one=True)
                        elif how == 'rep-plain':
                            f.put_slice(new.replace('(', '').replace(')', ''), i, i + 1, field, one=True)
                        else:
                            f.put_slice(new, i, i, field, one=True)
                    except Exception as e:
                        ctx.dist['sweep:par-elements:refused'] = ctx.dist.get('sweep:par-elements:refused', 0) + 1
                        d = reparse_diffs(root)
                        if d:
                            ctx.violation(f'sweep-raise-dirty|par-elements|{type(e).__name__}', 'a refused slice edit left an inconsistent tree', {**rec, 'error': repr(e)[:200], 'diffs': d})
                        continue
                    ctx.tick(('sweep-par', qsrc, str(path), field, i, how), 'sweep:par-elements')
                    d = reparse_diffs(root)
                    if d:
                        ctx.violation(f'pos|par-elements|{type(f.a).__name__}.{field}|{how}', 'after a slice edit on a sequence with parenthesized elements the source parsed from scratch differs from the live tree',
                                      {**rec, 'result_src': root.src, 'diffs': d})
            # (f) identifiers written with compatibility characters put to every identifier field: the parser folds them (NFKC), so must the tree
            probe_i = fst.FST(IDENT_PROG, 'exec')
            sites = []
            for f in probe_i.walk(True):
                for fld in f.a._fields:
                    v = getattr(f.a, fld, None)
                    if isinstance(v, str) and not isinstance(f.a, ast.Constant):
                        sites.append((probe_i.child_path(f), fld, None))
                    elif isinstance(v, list) and v and isinstance(v[0], str):
                        sites += [(probe_i.child_path(f), fld, i) for i in range(len(v))]
            for path, fld, idx in sites:
                for new in ('\ufb01le', '\uff4f\uff53', '\U0001d403x', '\uff4f\uff53.\ufb01le', 'pl\u00e4in'):
                    root = fst.FST(IDENT_PROG, 'exec')
                    f = root.child_from_path(path)
                    if '.' in new and not ((isinstance(f.a, ast.alias) and fld == 'name') or fld == 'module'):
                        continue
                    rec = {'src': IDENT_PROG, 'node': repr(f), 'field': fld, 'idx': idx, 'identifier': new}
                    try:
                        f.put(new, idx, fld) if idx is not None else f.put(new, fld)
                    except Exception as e:
                        ctx.dist['sweep:identifier:refused'] = ctx.dist.get('sweep:identifier:refused', 0) + 1
                        continue
                    ctx.tick(('sweep-ident', str(path), fld, idx, new), 'sweep:identifier')
                    d = reparse_diffs(root)
                    if d:
                        ctx.violation(f'pos|identifier-put|{type(f.a).__name__}.{fld}', 'after putting an identifier the source parsed from scratch differs from the live tree',
                                      {**rec, 'result_src': root.src, 'diffs': d})
            # (g) the reverse: a program whose OWN identifiers are written with compatibility characters (shorter / longer in the source than in the tree):
            #     every identifier replaced by a plain one or deleted, and the optional children next to them added / deleted
            probe_j = fst.FST(IDENT_PROG2, 'exec')
            jobs = []
            for f in probe_j.walk(True):
                pth = probe_j.child_path(f)
                for fld in f.a._fields:
                    v = getattr(f.a, fld, None)
                    if isinstance(v, str) and not isinstance(f.a, ast.Constant):
                        jobs += [(pth, fld, None, 'g'), (pth, fld, None, None)]
                    elif isinstance(v, list) and v and isinstance(v[0], str):
                        jobs += [(pth, fld, i, 'g') for i in range(len(v))]
                if isinstance(f.a, ast.arg):
                    jobs += [(pth, 'annotation', None, 'int'), (pth, 'annotation', None, None)]
                if isinstance(f.a, ast.TypeVar):
                    jobs += [(pth, 'bound', None, 'int'), (pth, 'bound', None, None)]
                if isinstance(f.a, ast.MatchAs) and f.a.pattern is not None:
                    jobs += [(pth, 'pattern', None, None), (pth, 'pattern', None, '[p]')]
                if isinstance(f.a, ast.keyword):
                    jobs += [(pth, 'value', None, '(2)')]
            for path, fld, idx, new in jobs:
                root = fst.FST(IDENT_PROG2, 'exec')
                f = root.child_from_path(path)
                rec = {'src': IDENT_PROG2, 'node': repr(f), 'field': fld, 'idx': idx, 'new': new}
                try:
                    f.put(new, idx, fld) if idx is not None else f.put(new, fld)
                except Exception as e:
                    ctx.dist['sweep:identifier2:refused'] = ctx.dist.get('sweep:identifier2:refused', 0) + 1
                    d = reparse_diffs(root)
                    if d or not isinstance(e, (ValueError, fst.NodeError, SyntaxError, NotImplementedError)):
                        ctx.violation(f'sweep-raise|identifier-written-unnormalized|{type(f.a).__name__}.{fld}|{type(e).__name__}', 'an edit next to an identifier written with compatibility characters crashed (or left an inconsistent tree)',
                                      {**rec, 'error': repr(e)[:200], 'diffs': d})
                    continue
                ctx.tick(('sweep-ident2', str(path), fld, idx, new), 'sweep:identifier-unnormalized')
                d = reparse_diffs(root)
                if d:
                    ctx.violation(f'pos|identifier-written-unnormalized|{type(f.a).__name__}.{fld}', 'after an edit next to an identifier written with compatibility characters the source parsed from scratch differs from the live tree',
                                  {**rec, 'result_src': root.src, 'diffs': d})
            # (h) every expression slot of a program that holds one of each kind, replaced by expressions of the LOWEST precedences (conditional, lambda, walrus, tuple,
            #     yield, await-less unary not): the source parsed from scratch must be the live tree (the slot parenthesizes what it must)
            probe_s = fst.FST(SLOT_PROG, 'exec')
            spaths = [probe_s.child_path(f) for f in probe_s.walk(True) if isinstance(f.a, ast.expr) and isinstance(getattr(f.a, 'ctx', ast.Load()), ast.Load) and f.parent is not None
                      and not isinstance(f.a, (ast.Starred, ast.Slice, ast.JoinedStr)) and not isinstance(f.parent.a, (ast.JoinedStr,))]
            for path in spaths:
                for new in ('b1 if c1 else d1', 'lambda: z1', 'y1 := 1', 'p1, q1', 'not n1', 'u1 or v1', 'yield w1', 'await aw', '*st', '-m1 ** 2'):
                    for form in ('src', 'ast'):
                        root = fst.FST(SLOT_PROG, 'exec')
                        f = root.child_from_path(path)
                        rec = {'src': SLOT_PROG, 'slot': f'{type(f.parent.a).__name__}.{f.pfield.name}', 'node': repr(f), 'new': new, 'form': form}
                        try:
                            code = new if form == 'src' else ast.parse(f'[{new}]' if new.startswith('*') else f'({new})', mode='eval').body
                            if form == 'ast' and new.startswith('*'):
                                code = code.elts[0]
                            f.replace(code)
                        except Exception as e:
                            ctx.dist['sweep:slot:refused'] = ctx.dist.get('sweep:slot:refused', 0) + 1
                            d = reparse_diffs(root)
                            if d:
                                ctx.violation(f'sweep-raise-dirty|slot|{type(e).__name__}', 'a refused replacement left an inconsistent tree', {**rec, 'error': repr(e)[:200], 'diffs': d})
                            continue
                        ctx.tick(('sweep-slot', str(path), new, form), 'sweep:slot-low-precedence')
                        d = reparse_diffs(root)
                        if d:
                            ctx.violation(f'pos|slot|{type(f.parent.a).__name__}.{f.pfield.name}|{new}', 'after replacing an expression by one of low precedence the source parsed from scratch differs from the live tree',
                                          {**rec, 'result_src': root.src, 'diffs': d[:4]})
            # (i) statements put into the EMPTY else / finally part of every kind of block statement (an `if` alone after an If may be written `elif`, nowhere else)
            for hsrc, get in (('for i in x:\n    pass\n', lambda r: r.body[0]), ('while c:\n    pass\n', lambda r: r.body[0]), ('try:\n    pass\nexcept E:\n    pass\n', lambda r: r.body[0]),
                              ('try:\n    pass\nexcept* E:\n    pass\n', lambda r: r.body[0]), ('if c:\n    pass\n', lambda r: r.body[0]), ('async def f():\n    async for i in x:\n        pass\n', lambda r: r.body[0].body[0]),
                              ('if o:\n    for i in x:\n        pass\n', lambda r: r.body[0].body[0]), ('if c:\n    pass\nelif d:\n    pass\n', lambda r: r.body[0].orelse[0])):
                for fld in ('orelse', 'finalbody'):
                    for new in ('if a:\n    b\n', 'if a:\n    b\nelse:\n    c\n', 'if a: b\n', 'x = 1\n', 'if a:\n    b\ny = 2\n', 'for j in k: pass\n'):
                        for how in ('append', 'put_slice', 'assign'):
                            for form in ('src', 'fst', 'ast'):
                                root = fst.FST(hsrc, 'exec')
                                node = get(root)
                                if not hasattr(node.a, fld) or getattr(node.a, fld):
                                    continue
                                code = new if form == 'src' else fst.FST(new, 'exec') if form == 'fst' else ast.parse(new)
                                rec = {'src': hsrc, 'field': fld, 'new': new, 'how': how, 'form': form}
                                try:
                                    if how == 'append':
                                        getattr(node, fld).append(code)
                                    elif how == 'put_slice':
                                        node.put_slice(code, 0, 0, fld)
                                    else:
                                        setattr(node, fld, code)
                                except Exception as e:
                                    ctx.dist['sweep:empty-clause:refused'] = ctx.dist.get('sweep:empty-clause:refused', 0) + 1
                                    continue
                                ctx.tick(('sweep-clause', hsrc, fld, new, how, form), 'sweep:empty-clause-put')
                                d = reparse_diffs(root)
                                if d:
                                    ctx.violation(f'pos|empty-clause-put|{type(node.a).__name__}.{fld}', 'after putting statements into an empty clause the source parsed from scratch differs from the live tree',
                                                  {**rec, 'result_src': root.src, 'diffs': d[:4]})
            # (c) primitives put to Constant.value where the constant touches its neighbours
            for csrc in PRIM_PROGS:
                cprobe = fst.FST(csrc, 'exec')
                for path in [cprobe.child_path(f) for f in cprobe.walk(True) if isinstance(f.a, ast.Constant)]:
                    for val in PRIM_VALUES:
                        root = fst.FST(csrc, 'exec')
                        f = root.child_from_path(path)
                        rec = {'src': csrc, 'node': repr(f), 'value': repr(val)}
                        try:
                            f.put(val, 'value')
                        except Exception as e:
                            ctx.dist['sweep:prim:refused'] = ctx.dist.get('sweep:prim:refused', 0) + 1
                            d = reparse_diffs(root)
                            if d:
                                ctx.violation(f'sweep-raise-dirty|prim|{type(e).__name__}', 'a refused primitive put left an inconsistent tree', {**rec, 'error': repr(e)[:200], 'diffs': d})
                            continue
                        ctx.tick(('sweep', csrc, str(path), repr(val)), 'sweep:prim')
                        d = reparse_diffs(root)
                        if d:
                            ctx.violation(f'pos|prim-put|{type(val).__name__}|{d[0].split(": ")[-1][:40]}', 'after putting a primitive to Constant.value the source parsed from scratch differs from the live tree',
                                          {**rec, 'result_src': root.src, 'diffs': d})
            # (c3) slices put into deletion / assignment targets: what the statement can not take is refused, never written
            for tsrc in ['del (a, b)\n', 'del [a, b], z\n', '(a, b) = x\n', 'for [a, b] in x: pass\n', 'with m as (a, b): pass\n', 'del a, b\n']:
                for code_ in ['*c', 'f()', 'c.d, e[0]', '*c, d', '(g, h)', '1', 'i if j else k', '[*l]']:
                    root = fst.FST(tsrc, 'exec')
                    st = root.body[0]
                    tgt = next((g_ for g_ in st.walk(True, self_=False) if isinstance(g_.a, (ast.Tuple, ast.List))), None)
                    rec = {'src': tsrc, 'code': code_}
                    try:
                        if tgt is not None:
                            tgt.put_slice(code_, 0, 1)
                        else:
                            st.put_slice(code_, 0, 1, 'targets')
                    except Exception as e:
                        d = reparse_diffs(root)
                        if d:
                            ctx.violation(f'sweep-raise-dirty|target-slice|{type(e).__name__}', 'a refused slice put into a target left an inconsistent tree', {**rec, 'error': repr(e)[:200], 'diffs': d})
                        continue
                    ctx.tick(('sweep-target-slice', tsrc, code_), 'sweep:target-slice')
                    d = reparse_diffs(root)
                    if d:
                        ctx.violation('pos|target-slice', 'after a slice put into a deletion / assignment target the source parsed from scratch differs from the live tree (or does not parse)', {**rec, 'result_src': root.src, 'diffs': d})
            # (c2) the level of a relative import, also where the dots are all that stands between `from` and the module name
            for isrc in ['from.mod import x\n', 'from ..mod import x\n', 'from mod import x\n', 'from...é.b import (x)\n', 'if 1:\n  from. mod import x\n', 'from.\\\n mod import x\n', 'from . import x\n', 'from.import x\n',
                         'from\\\n ..mod import x\n']:
                for lvl in (0, 1, 2, 3):
                    root = fst.FST(isrc, 'exec')
                    f = next(g for g in root.walk(True) if isinstance(g.a, ast.ImportFrom))
                    rec = {'src': isrc, 'level': lvl}
                    try:
                        f.put(lvl, 'level')
                    except Exception as e:
                        d = reparse_diffs(root)
                        if d:
                            ctx.violation(f'sweep-raise-dirty|level|{type(e).__name__}', 'a refused level put left an inconsistent tree', {**rec, 'error': repr(e)[:200], 'diffs': d})
                        continue
                    ctx.tick(('sweep-level', isrc, lvl), 'sweep:import-level')
                    d = reparse_diffs(root)
                    if d:
                        ctx.violation('pos|prim-put|ImportFrom.level', 'after putting ImportFrom.level the source parsed from scratch differs from the live tree', {**rec, 'result_src': root.src, 'diffs': d})
        for f in probe.walk(True):
            a = f.a
            if isinstance(a, (ast.AnnAssign, ast.For, ast.AsyncFor, ast.NamedExpr, ast.comprehension, ast.AugAssign)):
                targets.append((probe.child_path(f), 'target', None))
            elif isinstance(a, ast.Assign):
                targets += [(probe.child_path(f), 'targets', i) for i in range(len(a.targets))]
            elif isinstance(a, ast.withitem) and a.optional_vars is not None:
                targets.append((probe.child_path(f), 'optional_vars', None))
        for path, field, idx in targets:
            for new in TARGET_NEW:
                for code_as in ('src', 'fst', 'ast'):
                    root = fst.FST(src, 'exec')
                    f = root.child_from_path(path)
                    rec = {'src': src, 'node': repr(f), 'field': field, 'idx': idx, 'new': new, 'code_as': code_as}
                    code = new if code_as == 'src' else fst.FST(new, 'expr') if code_as == 'fst' else ast.parse(new, mode='eval').body
                    if code_as == 'ast' and new.startswith('('):
                        continue
                    try:
                        f.put(code, idx, field=field) if idx is not None else f.put(code, field=field)
                    except Exception as e:
                        ctx.dist['sweep:target:refused'] = ctx.dist.get('sweep:target:refused', 0) + 1
                        d = reparse_diffs(root)
                        if d:
                            ctx.violation(f'sweep-raise-dirty|target|{type(e).__name__}', 'a refused target replacement left an inconsistent tree', {**rec, 'error': repr(e)[:200], 'diffs': d})
                        continue
                    ctx.tick(('sweep', src, str(path), field, idx, new, code_as), 'sweep:target')
                    d = reparse_diffs(root)
                    if d:
                        ctx.violation(f'pos|target-replace|{type(f.a).__name__}|{d[0].split(":")[0][-30:]}', 'after replacing a target the source parsed from scratch differs from the live tree',
                                      {**rec, 'result_src': root.src, 'diffs': d})


PAR_PROGS = ['yy: int = cc\n(zz): int\nq.r: int = 1\n', 'a = b, c\nfor i, j in k: pass\nx[i, j] = y\n', 'f(a, *b, k=c, **d)\nclass K(A, *B, m=M): pass\n', 'x = a + b * -c if d else [e, f][0]\n',
             'with a as b, (c, d) as e: pass\n', 'match s:\n    case a | b, [c, *d], {1: e}, K(f, g=h) as i: pass\n', 'x = lambda a, b=1: (yield)\nawait_ = [i for i in j if k]\n',
             "x = f'{a!r:>{w}} {b}'\ny = 'a' 'b'\n", 'del a, (b), c.d\nreturn_ = not a\nassert a, b\n', 'x = a if b else c\ny = (a, b)\nz = a[b:c, d]\n', 'import a\nx = (yield a)\ntype T[U: int] = V\n',
             'é = ü + "ö" * z\n(é): ü = 1\n',
             # parentheses glued to keywords / names on either side (removing them must leave a blank), several layers, line breaks inside
             'for a,(b)in c: pass\nfor d,((e))in f: pass\nfor g,(h\n )in i: pass\n', 'def f():\n    return(a)if b else c\ndef g():\n    return((a))if(b)else(c)\n', 'x = (a)and(b)or(c)\ny = p if(q)and(r.s)else t\n',
             'x = [i for i in(j)if(k)]\ny = not(a)\nz = a if(b\n)else c\n', 'x = lambda:(a)if(b)else(c)\nwith(a)as b: pass\nassert(a),(b)\n', 'x = 1 if(a)else 2\ny = a is(b)\nz = a in(b)or(c)not in(d)\n',
             # a value directly followed by its format specification / conversion / debug text (the specification node starts exactly where the value ends)
             "x = f'{a,b:x} {c,:{w}} {d,e!r:>4} {g,h=:x}'\ny = f'{(a,b):x}{i:{j,k}}'\n"]


def stage_par_unpar(ctx: Ctx):
    """deterministic: par(force) / unpar() on every expression and pattern node of a set of programs (targets of annotated assignments, starred elements, with-items, slices ...):
    after each call the tree still equals the parse of its source (a refusal leaves both as they were); then the opposite call; both directions, force False / True"""
    import fst
    for src in PAR_PROGS:
        probe = fst.FST(src, 'exec')
        paths = [probe.child_path(f, True) for f in probe.walk(True) if isinstance(f.a, (ast.expr, ast.pattern))]
        for path in paths:
            for ops in (('par', 'unpar'), ('par_force', 'unpar'), ('unpar', 'par'), ('unpar_node', 'par'), ('par_force', 'par_force', 'unpar')):
                root = fst.FST(src, 'exec')
                node = root.child_from_path(path)
                done = []
                for op in ops:
                    before = root.src
                    rec = {'src': src, 'node': path, 'node_src': node.src if node.a is not None else None, 'calls': done + [op]}
                    try:
                        if op == 'par':
                            node.par()
                        elif op == 'par_force':
                            node.par(True)
                        elif op == 'unpar':
                            node.unpar()
                        else:
                            node.unpar(node=True)
                    except Exception as e:
                        ctx.tick(None, 'par:refused')
                        if root.src != before:
                            ctx.violation('par-unpar|refusal-dirty', 'a refused par() / unpar() changed the source', {**rec, 'error': repr(e)[:200], 'after': root.src})
                        break
                    done.append(op)
                    ctx.tick((src, path, tuple(done)), 'par:' + op + (':changed' if root.src != before else ':noop'))
                    d = reparse_diffs(root)
                    if d and op.startswith('unpar'):
                        # documented: unpar() does no parsability validation - removing parentheses that are needed is the caller's business; what is checked is that a removal
                        # which keeps the structure leaves positions and derived fields right
                        ds = reparse_diffs(root, positions=False)
                        atom = isinstance(node.a, (ast.Name, ast.Constant, ast.Attribute, ast.Subscript, ast.Call, ast.List, ast.Dict, ast.Set, ast.ListComp, ast.SetComp, ast.DictComp)) and \
                            not (isinstance(node.a, ast.Constant) and isinstance(node.a.value, (str, bytes)) and '\n' in node.src)
                        if ds and not all('simple' in x for x in ds) and not (atom and op == 'unpar'):      # grouping parentheses around an atom are never needed
                            ctx.tick(None, 'par:unpar-of-needed-parentheses')
                            break
                    if d:
                        ctx.violation(f'par-unpar|{classify_par(d)}', 'after par() / unpar() the tree is not the parse of its source', {**rec, 'after': root.src, 'diffs': d[:6]})
                        break


def classify_par(d):
    s = ' '.join(d[:3])
    return 'does-not-parse' if 'does not parse' in s else 'AnnAssign.simple' if 'simple' in s else 'positions' if ('lineno' in s or 'col_offset' in s) else 'structure'


def stage_ragged_and_handlers(ctx: Ctx):
    """deterministic: (a) multi-line sequences whose elements are indented deeper than the target's and whose continuation lines are indented LESS than the difference, put as a slice
    (the lines are re-indented one by one, with per-line column offsets); (b) the except / except* handlers of a try removed one by one and all at once through every entry point,
    single-node cut included (the last `except*` gone leaves a plain try / finally). After every step the tree is the parse of its source."""
    import fst
    ragged = ['[\n        a.b,\n        [c, d,\n  e.f],\n        g(h),\n]', '(\n        a.b,\n        [c, d,\n  e.f],\n        g(h),\n)', '{\n        a.b,\n        (c +\n d),\n        g(h),\n}',
              '[\n            aaa,\n            (bbb +\n  ccc),\n            ddd,\n]', '[\n  p,\n        (q\n      + r),\n s]', '[\n        u, (v,\nw),\n        x]', '[\n\t\ta,\n\t(b +\n c),\n\t\td]',
              '[\n        "é", ü.b,\n        [c, "ö",\n  e.f],\n        g(h),\n]']
    hosts = [('x = [\n    p,\n    q,\n]\n', 'body[0].value', 'elts'), ('x = (\n    p,\n    q,\n)\n', 'body[0].value', 'elts'), ('x = {\n    p,\n    q,\n}\n', 'body[0].value', 'elts'),
             ('def f():\n    x = [\n        p,\n        q,\n    ]\n', 'body[0].body[0].value', 'elts'), ('if 1:\n    call(\n        a,\n        b,\n    )\n', 'body[0].body[0].value', 'args'),
             ('x = [one, two]\n', 'body[0].value', 'elts'), ('x = (\n one,\n two)\n', 'body[0].value', 'elts'), ('class K:\n  def m(self):\n    return {\n            a,\n            b,\n    }\n', 'body[0].body[0].body[0].value', 'elts')]
    for hsrc, path, fld in hosts:
        for code in ragged:
            for i, j in ((0, 0), (1, 1), (2, 2), (0, 1), (1, 2), (0, 2)):
                for form in ('src', 'fst'):
                    root = fst.FST(hsrc, 'exec')
                    node = eval('root.' + path)
                    rec = {'src': hsrc, 'node': path, 'field': fld, 'code': code, 'start': i, 'stop': j, 'form': form}
                    try:
                        node.put_slice(fst.FST(code, 'expr') if form == 'fst' else code, i, j, fld)
                    except Exception:
                        ctx.dist['sweep:ragged:refused'] = ctx.dist.get('sweep:ragged:refused', 0) + 1
                        continue
                    ctx.tick(('ragged', hsrc, code, i, j, form), 'sweep:ragged-indentation')
                    d = reparse_diffs(root)
                    if d:
                        ctx.violation(f'pos|ragged-slice|{fld}', 'after putting a re-indented multi-line slice the source parsed from scratch differs from the live tree', {**rec, 'result_src': root.src, 'diffs': d[:6]})
    for star in ('', '*'):
        for nh in (1, 2, 3):
            for has_else in (False, True):
                src = 'pre\ntry:\n    a\n' + ''.join(f'except{star} E{k} as e{k}:\n    h{k}\n' for k in range(nh)) + ('else:\n    d\n' if has_else else '') + 'finally:\n    e\npost\n'
                for how in ('child-cut', 'child-remove', 'del-item', 'put_slice-none', 'get_slice-cut', 'view-cut'):
                    for order in ('front', 'back'):
                        root = fst.FST(src, 'exec')
                        t = root.body[1]
                        steps = []
                        for k in range(nh):
                            if has_else and len(t.a.handlers) == 1:
                                break           # an else needs a handler
                            i = 0 if order == 'front' else len(t.a.handlers) - 1
                            try:
                                if how == 'child-cut':
                                    t.handlers[i].cut()
                                elif how == 'child-remove':
                                    t.handlers[i].remove()
                                elif how == 'del-item':
                                    del t.handlers[i]
                                elif how == 'put_slice-none':
                                    t.put_slice(None, i, i + 1, 'handlers')
                                elif how == 'get_slice-cut':
                                    t.get_slice(i, i + 1, 'handlers', cut=True)
                                else:
                                    t.handlers[i:i + 1].cut()
                            except Exception as e:
                                ctx.violation(f'handler-removal-raise|{how}|{type(e).__name__}', 'removing one handler of a try that keeps its finally raised', {'src': src, 'how': how, 'steps_done': steps, 'error': repr(e)[:200]})
                                break
                            steps.append(i)
                            ctx.tick(('handler-removal', src, how, order, k), 'sweep:handler-removal:' + how)
                            d = reparse_diffs(root)
                            if d:
                                ctx.violation(f'pos|handler-removal|{how}|{"TryStar" if star else "Try"}', 'after removing a handler the source parsed from scratch differs from the live tree',
                                              {'src': src, 'how': how, 'removed_indices': steps, 'result_src': root.src, 'diffs': d[:5]})
                                break


LC_PROGS = ['if x:\n    a  # c\ny\n', 'def f():\n    if x:\n        a = 1  # c\n    else:\n        b  # dd\nz = 1  # e\n', 'class K:\n    def m(self):\n        return 1  # r\n\n    x = 2  # é ü\n',
            'for i in j:\n    with a:  # w\n        b  # c\n', 'try:\n    a  # c\nfinally:\n    b  # d\n', 'if x: a  # c\ny\n', 'while q:\n    a\n    b  # last\nelse:  # e\n    c  # cc\n']
LC_TEXTS = ['much longer comment than before', 'x', '', None, 'é' * 9]


def stage_line_comment_then_edit(ctx: Ctx):
    """deterministic: the locations of every node are queried (and so cached), then a line comment is replaced / added / deleted through put_line_comment(): every node's loc / bloc / pars equal
    those of a fresh tree of the new source; then every enclosing block statement is removed / replaced / cut: the tree still equals the parse of its source"""
    import fst
    for src in LC_PROGS:
        probe = fst.FST(src, 'exec')
        stmts = [probe.child_path(f, True) for f in probe.walk(True) if isinstance(f.a, ast.stmt)]
        for path in stmts:
            for text in LC_TEXTS:
                for full in (False, True):
                    if full and text is not None:
                        text_ = '  # ' + text
                    else:
                        text_ = text
                    root = fst.FST(src, 'exec')
                    for f in root.walk(True):      # warm every cache
                        f.loc, f.bloc, f.pars()
                    node = root.child_from_path(path)
                    rec = {'src': src, 'statement': path, 'comment': text_, 'full': full}
                    try:
                        node.put_line_comment(text_, full=full)
                    except Exception as e:
                        continue
                    ctx.tick(('line-comment-edit', src, path, text_, full), 'sweep:line-comment')
                    d = reparse_diffs(root)
                    if d:
                        ctx.violation('pos|line-comment-put', 'after put_line_comment() the source parsed from scratch differs from the live tree', {**rec, 'result_src': root.src, 'diffs': d[:4]})
                        continue
                    fresh = fst.FST(root.src, 'exec')
                    stale = []
                    for f in root.walk(True):
                        g = fresh.child_from_path(root.child_path(f))
                        if (f.loc, f.bloc, f.pars()) != (g.loc, g.bloc, g.pars()):
                            stale.append((root.child_path(f, True), str(f.bloc), str(g.bloc)))
                    if stale:
                        ctx.violation('stale-location|line-comment-put', 'after put_line_comment() a node answers loc / bloc / pars differently from a fresh tree of the same source (a cached location was kept)',
                                      {**rec, 'result_src': root.src, 'stale': stale[:4]})
                        continue
                    # then edit every enclosing block
                    anc = []
                    f = node
                    while f.parent is not None and f.parent.parent is not None:
                        f = f.parent
                        if isinstance(f.a, ast.stmt):
                            anc.append(root.child_path(f, True))
                    for apath in anc:
                        for how in ('remove', 'replace', 'cut'):
                            r2 = fst.FST(src, 'exec')
                            for f in r2.walk(True):
                                f.loc, f.bloc, f.pars()
                            try:
                                r2.child_from_path(path).put_line_comment(text_, full=full)
                                a2 = r2.child_from_path(apath)
                                if how != 'replace' and len(getattr(a2.parent.a, a2.pfield.name)) == 1:
                                    continue      # the only statement of its block: removing it leaves an empty block, which is allowed to be invalid
                                if how == 'remove':
                                    a2.remove()
                                elif how == 'replace':
                                    a2.replace('pass')
                                else:
                                    a2.cut()
                            except Exception:
                                continue
                            d = reparse_diffs(r2)
                            if d:
                                ctx.violation(f'pos|line-comment-then-{how}', 'a block statement edited after a line comment inside it was changed: the source parsed from scratch differs from the live tree',
                                              {**rec, 'block': apath, 'how': how, 'result_src': r2.src, 'diffs': d[:4]})


DELIMIT_HDR = ('From Coq Require Import ZArith List Bool.\nFrom PF Require Import kernel.OffsetBase gen.DelimitCalls models.Offset models.Delimit.\n'
               'Import ListNotations.\nLocal Open Scope Z_scope.\n'
               "Definition chk (own : bool) (ls cs le ce : Z) (l : list (role * npos * npos)) : bool := "
               "forallb (fun '(r, q, q') => npos_eqb ((if own then delimit_pos else group_pos) ls cs le ce r q) q') l.\n"
               "Definition chk_un (own : bool) (ls cs le e : Z) (l : list (role * npos * npos)) : bool := forallb (fun '(r, q, q') => npos_eqb ((if own then undelimit_pos else ungroup_pos) ls cs le e r q) q') l.\n")


def stage_delimit_corr(ctx: Ctx):
    """models/Delimit.v == the implementation: par(force=True) on every expression / pattern node (not a root, not a Starred) of the PAR_PROGS: the AST position of EVERY node
    of the tree before and after, against delimit_pos (an undelimited Tuple / MatchSequence) or group_pos (anything else) applied to the node's role"""
    import fst
    P = lambda a: (a.lineno, a.col_offset, a.end_lineno, a.end_col_offset)
    terms, meta = [], []
    extra = ['a, b = c, d\nfor i, j in k, l: pass\ndef f():\n    x = yield a, b\n    return p, q,\n', 'match s:\n    case a, b: pass\n    case a, *b: pass\n    case {1: (c, d)}, e: pass\n',
             "x = f'{a,b:x} {c,:{w}}'\ny = f'{p,q!r}{r,s=}'\n", 'x[a,\n  b] = y[c, d,\n       e]\nwith m: z = é, ü,\n', 'for a, b in c:\n    d, e = f = g, h\n    del i, j\nassert k, (l, m)\n']
    for src in PAR_PROGS + extra:
        probe = fst.FST(src, 'exec')
        paths = [probe.child_path(f, True) for f in probe.walk(True) if isinstance(f.a, (ast.expr, ast.pattern)) and not isinstance(f.a, ast.Starred)]
        for path in paths:
            root = fst.FST(src, 'exec')
            node = root.child_from_path(path)
            if node.pars().n:
                continue   # already parenthesized: another pair goes around the existing one, not at the node's own ends
            own = (isinstance(node.a, ast.Tuple) and not node._is_delimited_seq()) or (isinstance(node.a, ast.MatchSequence) and not node.is_delimited_matchseq())
            nodes = [a for a in ast.walk(root.a) if hasattr(a, 'end_col_offset')]
            below = {id(a) for a in ast.walk(node.a)} - {id(node.a)}
            before = [P(a) for a in nodes]
            T = P(node.a)
            if T[0] == T[2] and T[1] == T[3]:
                continue
            try:
                if not node.par(force=True) and root.src == src:
                    continue
            except Exception:
                continue
            if len(root.src) != len(src) + 2:
                continue   # more than the one pair was put (the base of an annotated target gets the target parenthesized too)
            if root.src == src or any(a.f is None or a.f.root is not root for a in nodes if hasattr(a, 'f')):
                continue
            after = [P(a) for a in nodes]
            rows = '; '.join(f'({"RSelf" if a is node.a else "RInner" if id(a) in below else "ROther"}, ({b[0]}, {b[1]}, {b[2]}, {b[3]}), ({c[0]}, {c[1]}, {c[2]}, {c[3]}))'
                             for a, b, c in zip(nodes, before, after))
            terms.append(f'chk {"true" if own else "false"} {T[0]} {T[1]} {T[2]} {T[3]} [{rows}]')
            meta.append({'src': src, 'node': path, 'node_src': node.src, 'own_delimiters': own, 'after_src': root.src})
            ctx.tick(('delimit-corr', src, str(path)), 'corr:delimit:' + ('own' if own else 'group'))
            if True:      # and back: unpar() of the pair just put (both delimiters deleted - where one would glue two names it becomes a blank instead, which moves nothing: then the source differs and the case is skipped)
                T2 = P(node.a)
                try:
                    node.unpar(node=True) if own else node.unpar()
                except Exception:
                    continue
                if root.src != src:
                    continue
                back = [P(a) for a in nodes]
                rows = '; '.join(f'({"RSelf" if a is node.a else "RInner" if id(a) in below else "ROther"}, ({b[0]}, {b[1]}, {b[2]}, {b[3]}), ({c[0]}, {c[1]}, {c[2]}, {c[3]}))'
                                 for a, b, c in zip(nodes, after, back))
                terms.append(f'chk_un true {T2[0]} {T2[1]} {T2[2]} {T2[3] - 1} [{rows}]' if own else f'chk_un false {T2[0]} {T2[1] - 1} {T2[2]} {T2[3]} [{rows}]')
                meta.append({'src': root.src, 'node': path, 'unpar_of': node.src, 'before_src': meta[-1]['after_src']})
                ctx.tick(('ungroup-corr', src, str(path)), 'corr:delimit:' + ('undelimit' if own else 'ungroup'))
    try:
        failed = coq_eval_bools('C01_delimit', DELIMIT_HDR, terms, shard=200)
        ctx.correspondence('models/Delimit.v delimit_pos / group_pos / ungroup_pos / undelimit_pos (TRANSLATED call flags) == the AST position of every node after par(force=True), and after the unpar() which follows, on every expression and pattern node of the parenthesization programs',
                           len(terms), [meta[i] for i in failed])
    except CoqEvalError as e:
        ctx.broken.append({'kind': 'correspondence', 'name': 'delimit', 'detail': str(e)[:2000]})


def run(ctx: Ctx):
    ctx.rule = ('random edit sequences (length 1..8 quick / 1..30 thorough) over the hand corpus + generated programs; ops: replace/remove/cut of '
                'expressions, statements, patterns; put_slice/insert/extend/prextend of statements and expressions; put(one); attribute '
                'assignment/deletion; view item assignment/deletion; put_docstr; put_line_comment; code as source/FST/AST; random option '
                'settings with norm=True and pars in (auto, True). After every successful op: CPython re-parse comparison incl. all positions. '
                'distinct = (source before, op); non-trivial = the op returned normally. Trace correspondence: every _offset/_put_src call '
                'made by these edits (sampled) replayed on the Coq models.')
    ctx.assumptions += ['OH1: CPython positions are token extents', 'Ordered holds of parser output (checked in C11)',
                        'C09 supplies the element part (E) for expression slots']
    ok = stage_translate(ctx)
    progs = corpus(ctx.rng, gen=ctx.scale(25, 200))
    small = [p for p in progs if len(p) < 700]
    if ok:
        ctx.build_props()
    tracer = Tracer(budget_offset=ctx.scale(150, 1500), budget_put=ctx.scale(250, 2500), max_nodes=160, rng=ctx.rng, sample=0.25)
    with tracer:
        run_guarded(ctx, stage_sequences, progs, tracer)
    run_guarded(ctx, stage_operator_sweep)
    run_guarded(ctx, stage_structural_sweep)
    run_guarded(ctx, stage_par_unpar)
    run_guarded(ctx, stage_ragged_and_handlers)
    run_guarded(ctx, stage_line_comment_then_edit)
    if ok:
        run_guarded(ctx, stage_delimit_corr)
    if ok:
        try:
            failed = coq_eval_bools('C01_troff', HDR, tracer.terms_offset, shard=40)
            ctx.correspondence('trace: every sampled FST._offset call made by API edits == models/Offset.v offset_top on the before-snapshot',
                               len(tracer.terms_offset), [tracer.meta_offset[i] for i in failed])
            failed = coq_eval_bools('C01_trput', HDR, tracer.terms_put, shard=300)
            ctx.correspondence('trace: every sampled FST._put_src call made by API edits == kernel/Text.v put_src', len(tracer.terms_put),
                               [tracer.meta_put[i] for i in failed])
        except CoqEvalError as e:
            ctx.broken.append({'kind': 'correspondence', 'name': 'trace', 'detail': str(e)[:2000]})
    ctx.extra['lowlevel_calls_seen'] = tracer.calls
    ctx.extra['offset_argument_patterns(tail,head,exclude?,offset_excluded,self_,sign dln,sign dcol)'] = {str(k): v for k, v in sorted(tracer.patterns.items(), key=str)}


def replay(path):
    import fst
    d = json.load(open(path))
    print(json.dumps(d, indent=1)[:6000])
    return 0
