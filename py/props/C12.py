"""C12 - A failed edit leaves the target tree untouched and still editable."""

from __future__ import annotations

import ast
import json

from lib.common import *
from lib import edits
from lib.oracle import reparse_diffs
from lib.progs import corpus, EXPRS, STMTS
from props.C11 import stage_translate

LEVEL = 'proof'
HDR = 'From Coq Require Import List Bool Arith.\nFrom PF Require Import models.Registry.\nImport ListNotations.\n'


def stage_registry_corr(ctx: Ctx):
    """models/Registry.v vs the real _Modifying class on random enter/success/fail traces over 1-3 real roots."""
    import fst
    from fst import fst_core
    from fst.fst_core import _Modifying, _MODIFYING
    rng = ctx.rng
    terms, meta = [], []
    ncases = ctx.scale(300, 4000)
    for ci in range(ncases):
        nroots = rng.randrange(1, 4)
        roots = [fst.FST('[a, b, c]', 'exec') for _ in range(nroots)]
        nodes = [[r, r.body[0], r.body[0].value, r.body[0].value.elts[0]] for r in roots]
        nid = {}
        for ri, ns in enumerate(nodes):
            for ni, n in enumerate(ns):
                nid[id(n)] = ri * 10 + ni
        open_mods = [[] for _ in roots]
        ops, obs, brief = [], [], []
        assert not _MODIFYING
        for _ in range(rng.randrange(1, 12)):
            ri = rng.randrange(nroots)
            if rng.random() < 0.55 or (not open_mods[ri] and rng.random() < 0.8):
                ni = rng.randrange(4)
                force = rng.random() < 0.2
                m = _Modifying(nodes[ri][ni], False, True, force)
                ops.append(f'REnter {ri} {ri * 10 + ni} {cbool(force)}')
                brief.append(('enter', ri, ni, force))
                try:
                    m.enter()
                    open_mods[ri].append(m)
                    ok = True
                except RuntimeError:
                    ok = False
            else:
                ops.append(f'RLeave {ri}')
                how = rng.choice(['success', 'fail'])
                brief.append((how, ri))
                if open_mods[ri]:
                    m = open_mods[ri].pop()
                else:
                    m = _Modifying(nodes[ri][0], False, True, False)
                    m.root = roots[ri]
                    m.fst = False
                try:
                    getattr(m, how)()
                    ok = True
                except (TypeError, KeyError):
                    ok = False
            cur = []
            for r in roots:
                e = _MODIFYING.get(r)
                cur.append('None' if e is None else f'Some ({nid[id(e[0])]}, {e[1]})')
            obs.append(f'({cbool(ok)}, [{"; ".join(cur)}])')
        _MODIFYING.clear()
        terms.append(f'robs_eqb (rrun_obs [] [{"; ".join(str(i) for i in range(nroots))}] [{"; ".join(ops)}]) [{"; ".join(obs)}]')
        meta.append({'ops': brief, 'observed': obs})
        ctx.tick(('reg', tuple(brief)), 'registry-trace')
    ctx.sample({'registry_trace': meta[0]})
    failed = coq_eval_bools('C12_reg', HDR, terms, shard=500)
    ctx.correspondence('models/Registry.v == real _Modifying.enter/success/fail on _MODIFYING (random traces, 1-3 roots, 4 nodes each)', len(terms),
                       [meta[i] for i in failed])


# ---- fault sequences -------------------------------------------------------------------------------------------------

BAD_EXPR_SRC = ['1 +', ')', 'a b', 'if', '(', 'x = 1', 'pass', 'import a', 'a; b', '*', '=', 'lambda', '1 2', '"unterminated', 'def f(): pass', '']


def gen_fault(rng, root):
    """an INVALID request on the current tree: (description, thunk)"""
    import fst
    a = root.a
    nodes = edits.all_nodes(a)
    exprs = [n for n in nodes if isinstance(n, ast.expr) and isinstance(getattr(n, 'ctx', ast.Load()), ast.Load)
             and not isinstance(n, (ast.JoinedStr, ast.FormattedValue))]
    stmts = [n for n in nodes if isinstance(n, ast.stmt)]
    lists = [n for n in nodes if isinstance(n, (ast.List, ast.Tuple, ast.Set, ast.Call))]
    kind = rng.choice(['unparsable', 'unparsable', 'wrong_category', 'bad_index', 'bad_option_value', 'unknown_option', 'consumed_fst',
                       'nonroot_fst', 'to_without_raw', 'delete_required', 'starred_in_delete', 'stmt_unparsable', 'bad_slice',
                       'bad_field', 'keyword_order', 'args_order', 'args_order', 'generic_put', 'generic_put', 'generic_put'])
    d = {'fault': kind}
    if kind == 'unparsable' and exprs:
        n = rng.choice(exprs)
        code = rng.choice(BAD_EXPR_SRC)
        d.update(path=edits.path_of(a, n), code=code)
        return d, lambda: n.f.replace(code, norm=True)
    if kind == 'stmt_unparsable' and stmts:
        n = rng.choice(stmts)
        code = rng.choice(['if x', 'def', 'x = = 1', '    indented', 'return return', 'else: pass', 'class', '1 +'])
        d.update(path=edits.path_of(a, n), code=code)
        return d, lambda: n.f.replace(code, norm=True)
    if kind == 'wrong_category' and exprs:
        n = rng.choice(exprs)
        code = rng.choice(['x = 1', 'pass', 'import m', 'a; b'])
        d.update(path=edits.path_of(a, n), code=code)
        return d, lambda: n.f.replace(code, coerce=False)
    if kind == 'bad_index' and lists:
        n = rng.choice(lists)
        f = 'args' if isinstance(n, ast.Call) else 'elts'
        L = len(getattr(n, f))
        i = rng.choice([L, L + 3, -L - 1, -L - 5])
        d.update(path=edits.path_of(a, n), field=f, idx=i)
        return d, lambda: n.f.put('z', i, f)
    if kind == 'bad_slice' and lists:
        n = rng.choice(lists)
        f = 'args' if isinstance(n, ast.Call) else 'elts'
        L = len(getattr(n, f))
        if L < 2:
            return None
        d.update(path=edits.path_of(a, n), field=f, start=L, stop=0)
        return d, lambda: n.f.put_slice('z,', L, 0, f)
    if kind == 'bad_option_value' and exprs:
        n = rng.choice(exprs)
        opt, val = rng.choice([('pars', 'maybe'), ('trivia', 'everything'), ('raw', 2), ('elif_', 'yes'), ('pep8space', 3), ('docstr', 1.5),
                               ('norm', 'banana'), ('op_side', 'middle'), ('trivia', ('all', 'all', 'all')), ('coerce', None)])
        d.update(path=edits.path_of(a, n), option=opt, value=repr(val))
        return d, lambda: n.f.replace('zz', **{opt: val})
    if kind == 'unknown_option' and exprs:
        n = rng.choice(exprs)
        d.update(path=edits.path_of(a, n))
        return d, lambda: n.f.replace('zz', not_an_option=True)
    if kind == 'consumed_fst' and exprs:
        n = rng.choice(exprs)
        other = fst.FST('[q]', 'exec')
        donor = fst.FST('qq', 'expr')
        other.body[0].value.elts[0].replace(donor)   # donor consumed here
        d.update(path=edits.path_of(a, n))
        return d, lambda: n.f.replace(donor)
    if kind == 'nonroot_fst' and exprs:
        n = rng.choice(exprs)
        other = fst.FST('[q, r]', 'exec')
        child = other.body[0].value.elts[1]
        d.update(path=edits.path_of(a, n))
        return d, lambda: n.f.replace(child)
    if kind == 'to_without_raw' and len(exprs) > 1:
        n = rng.choice(exprs)
        m = rng.choice(exprs)
        d.update(path=edits.path_of(a, n))
        return d, lambda: n.f.replace('zz', to=m.f, raw=False)
    if kind == 'delete_required':
        cands = [(n, f) for n in nodes for f in ('test', 'value', 'target', 'iter', 'func', 'left', 'operand', 'subject', 'context_expr')
                 if isinstance(getattr(n, f, None), ast.expr) and not (isinstance(n, (ast.Return, ast.Yield, ast.AnnAssign)) and f == 'value')
                 and not isinstance(n, (ast.FormattedValue, ast.keyword))]
        if not cands:
            return None
        n, f = rng.choice(cands)
        d.update(path=edits.path_of(a, n), field=f)
        return d, lambda: n.f.put(None, f, norm=True)
    if kind == 'starred_in_delete':
        dels = [n for n in nodes if isinstance(n, ast.Delete)]
        if not dels:
            return None
        n = rng.choice(dels)
        d.update(path=edits.path_of(a, n))
        return d, lambda: n.f.put('*st', 0, 'targets')
    if kind == 'bad_field' and exprs:
        n = rng.choice(exprs)
        d.update(path=edits.path_of(a, n))
        return d, lambda: n.f.put('zz', 0, 'no_such_field')
    if kind == 'args_order':
        argn = [n for n in nodes if isinstance(n, ast.arguments) and (n.posonlyargs or n.kwonlyargs or n.vararg or n.defaults or n.args)]
        if not argn:
            return None
        n = rng.choice(argn)
        L = len(n.posonlyargs) + len(n.args) + (1 if n.vararg else 0) + len(n.kwonlyargs) + (1 if n.kwarg else 0)
        s0 = rng.randrange(0, L + 1)
        e0 = rng.randrange(s0, L + 1)
        code = rng.choice(['*z', 'z', 'z=1', '**z', '*z, y', 'y=1, z', '**z, y', 'z, /', '*, z', 'a', '*args'])
        d.update(path=edits.path_of(a, n), start=s0, stop=e0, code=code)
        return d, lambda: n.f.put_slice(code, s0, e0, '_all')
    if kind == 'generic_put':
        n = rng.choice([x for x in nodes if x._fields])
        fld = rng.choice(n._fields)
        v = getattr(n, fld, None)
        code = rng.choice([None, None, 'zz', 'zz + 1', 'pass', '*zz', 'zz=1', '1 +', 'case 1: pass', 'except: pass', 'zz as yy', 'zz: int', "'s'"])
        if isinstance(v, list):
            idx = rng.randrange(-len(v) - 1, len(v) + 2)
            d.update(path=edits.path_of(a, n), field=fld, idx=idx, code=code)
            return d, lambda: n.f.put(code, idx, fld, norm=True)
        d.update(path=edits.path_of(a, n), field=fld, code=code)
        return d, lambda: n.f.put(code, fld, norm=True)
    if kind == 'keyword_order':
        calls = [n for n in nodes if isinstance(n, ast.Call) and n.keywords]
        if not calls:
            return None
        n = rng.choice(calls)
        d.update(path=edits.path_of(a, n))
        return d, lambda: n.f.put_slice('pos1, pos2', 'end', 'end', '_args')
    return None


def snapshot(root):
    return root.src, ast.dump(root.a, include_attributes=True)


def stage_faults(ctx: Ctx, progs):
    import fst
    from fst.fst_core import _MODIFYING
    rng = ctx.rng
    nseq = ctx.scale(220, 5000)
    nfail = nsucc = 0
    for si in range(nseq):
        src = rng.choice(progs)
        root = fst.FST(src, 'exec')
        hist = []
        for step in range(rng.randrange(2, ctx.scale(10, 22))):
            before = snapshot(root)
            if rng.random() < 0.5:
                g = gen_fault(rng, root)
                if not g:
                    continue
                desc, thunk = g
                try:
                    thunk()
                    res, err = 'ok', None
                except Exception as e:
                    res, err = 'exc', e
            else:
                op = edits.gen_op(rng, root)
                if not op:
                    continue
                desc = edits.op_brief(op)
                res, err = edits.apply(root, op)
            hist.append({'req': desc, 'result': res, 'error': repr(err)[:150] if err else None})
            ctx.dist[('fault:' if 'fault' in desc else 'op:') + str(desc.get('fault', desc.get('kind'))) + ':' + res] = \
                ctx.dist.get(('fault:' if 'fault' in desc else 'op:') + str(desc.get('fault', desc.get('kind'))) + ':' + res, 0) + 1
            if _MODIFYING:
                ctx.violation(f'lock|{desc.get("fault", desc.get("kind"))}|{res}', 'modification registry not empty after the call returned/raised',
                              {'start_src': src, 'history': hist, 'registry_size': len(_MODIFYING)})
                _MODIFYING.clear()
                break
            if res == 'exc':
                nfail += 1
                after = snapshot(root)
                ctx.tick((hash(before[0]) & 0xffffff, json.dumps(desc, default=repr, sort_keys=True), type(err).__name__), None)
                if after != before:
                    what = 'source changed' if after[0] != before[0] else 'tree positions/structure changed'
                    ctx.violation(f'mutated|{desc.get("fault", desc.get("kind"))}|{type(err).__name__}|{what}',
                                  'a raising edit did not leave the tree exactly as it was',
                                  {'start_src': src, 'history': hist, 'src_before': before[0], 'src_after': after[0],
                                   'dump_equal': after[1] == before[1]})
                    break
            else:
                nsucc += 1
                diffs = reparse_diffs(root)
                if diffs and 'fault' in desc:
                    break   # an odd request (e.g. source text put to a primitive field) was accepted: not this property's subject; abandon the history
                if diffs:
                    from props.C01 import classify
                    sig = classify(before[0], desc, diffs) if 'kind' in desc else f'accepted-invalid|{desc.get("fault")}'
                    # C01 failures are reported by C01; here only when it follows a failed edit in the same history
                    if any(h['result'] == 'exc' for h in hist[:-1]) and not any(k.get('signature') == sig for k in load_known('C01')):
                        ctx.violation('after-failure|' + sig, 'after an earlier failed edit, a successful edit left a tree that does not re-parse to itself',
                                      {'start_src': src, 'history': hist, 'diffs': diffs, 'result_src': root.src})
                    break
        if len(ctx.samples) < 4 and hist and rng.random() < 0.05:
            ctx.sample({'history': hist[:4]})
    ctx.extra['failed_calls_checked'] = nfail
    ctx.extra['successful_calls_interleaved'] = nsucc


def stage_delete_sweep(ctx: Ctx):
    """(node, field) sweep over the hand corpus: delete every single-node field (put(None, field)) and every whole list
    field (put_slice(None, field)); whenever the request is refused the tree must be exactly as before."""
    import fst
    from fst.fst_core import _MODIFYING
    from lib.progs import CORPUS
    rng = ctx.rng
    cases = []
    classes = {}
    for pi, src in enumerate(CORPUS):
        a = ast.parse(src)
        parent = {}
        for p_ in ast.walk(a):
            for c_ in ast.iter_child_nodes(p_):
                parent[c_] = p_
        for n in ast.walk(a):
            present = tuple(f for f in n._fields if getattr(n, f, None) not in (None, [], ''))
            for fld in n._fields:
                v = getattr(n, fld, None)
                how = 'one' if isinstance(v, ast.AST) and not isinstance(v, ast.expr_context) else \
                    'list' if isinstance(v, list) and v and isinstance(v[0], ast.AST) else None
                if how:
                    case = (pi, edits.path_of(a, n), fld, how)
                    cases.append(case)
                    classes.setdefault((type(parent.get(n)).__name__, type(n).__name__, fld, present), []).append(case)
    if not ctx.thorough:
        # one representative of every (parent kind, node kind, field, which fields are present) class, plus a random sample
        picked = [rng.choice(v) for v in classes.values()]
        pk = set(id(c) for c in picked)
        rest = [c for c in cases if id(c) not in pk]
        cases = picked + rng.sample(rest, min(len(rest), 150))
    ctx.extra['delete_sweep_classes'] = len(classes)
    for pi, path, fld, how in cases:
        src = CORPUS[pi]
        root = fst.FST(src, 'exec')
        n = edits.node_at(root.a, path)
        before = snapshot(root)
        try:
            if how == 'one':
                n.f.put(None, fld, norm=True)
            else:
                n.f.put_slice(None, 0, 'end', fld, norm=True)
            res = 'ok'
        except Exception as e:
            res = type(e).__name__
        ctx.dist['sweep:' + ('refused' if res != 'ok' else 'ok')] = ctx.dist.get('sweep:' + ('refused' if res != 'ok' else 'ok'), 0) + 1
        if _MODIFYING:
            ctx.violation(f'lock|sweep|{type(n).__name__}.{fld}', 'modification registry not empty after a delete request', {'src': src, 'path': path, 'field': fld})
            _MODIFYING.clear()
        if res != 'ok':
            ctx.tick(('sweep', pi, str(path), fld), None)
            after = snapshot(root)
            if after != before:
                ctx.violation(f'mutated|sweep-delete|{type(n).__name__}.{fld}|{res}', 'a refused delete request changed the tree',
                              {'src': src, 'path': path, 'node': type(n).__name__, 'field': fld, 'how': how, 'error': res,
                               'src_after': after[0], 'source_equal': after[0] == before[0], 'dump_equal': after[1] == before[1]})


FALSY_PROGS = ['raise X from Y\n', 'def f():\n    return z\n    yield w\n', 'x: int = 1\n', 'assert a, "m"\n', 'for i in j:\n    pass\nelse:\n    k\n', 'with a as b: pass\n', 'f(a, *b, k=c, **d)\n',
               'try:\n    pass\nexcept E as e:\n    pass\n', 'lambda a=1, *b, c=2: a\n', 'x = a if b else c\n', 'y = a[b:c:d]\n', 'match m:\n    case C(p, q=r) if g: pass\n', 'del a, b\n',
               'class K(B, metaclass=M): pass\n', 'async def g(a: int = 1) -> r: await h\n', 'x = {k: v, **w}\n', 'import a as b\n', 'global g1, g2\n', 'sum(x for x in y)\n', 'print(*(i for i in j))\n']
CALL_PROGS = ['sum(x for x in y)\n', 'f(a, k=1)\n', 'f(k=1, *a)\n', 'f(**d)\n', 'g((x for x in y), z)\n', 'class K(B, k=1): pass\n', 'h(\n    (i for i in j)\n)\n', 'print(i for i in j if i)\n']
OPT_PROGS = ['if x: a = 1\n', 'if a:\n    pass\nelif b:\n    pass\n', 'def f(): pass\n', 'class C: x = 1\n', 'while q: break\nelse: pass\n', 'try: pass\nfinally: pass\n',
             'a = [1, 2]\nb = f(3, k=4)\n', 'for i in j: pass\nelse: pass\n', 'if a: pass\nelif b: pass\nelse: pass\n', 'with a: b; c\n', 'x = 1; y = 2\n',
             'match v:\n    case 1: pass\n', 'try: pass\nexcept E: pass\nelse: pass\n']
BAD_OPTIONS = [('pep8space', 2), ('pep8space', -1), ('pep8space', 3), ('pep8space', 'x'), ('trivia', 'everything'), ('trivia', ('all', 'all', 'all')), ('trivia', ('line', True)),
               ('elif_', 'yes'), ('docstr', 1.5), ('norm', 'banana'), ('norm_self', 'banana'), ('raw', 2), ('pars', 'maybe'), ('coerce', None), ('op_side', 'middle'),
               ('not_an_option', True), ('to', None)]
RAW_BAD = ['1) + (', 'for', '(', ')', 'a b', '"unterminated', 'x = = 1', 'else: pass']


def stage_option_sweep(ctx: Ctx):
    """deterministic: every statement-level entry point (put_slice insert / replace / delete, put, replace, remove) on one-line and elif-chained blocks - the shapes
    that are normalized BEFORE the edit is carried out - with every invalid option value; and raw edits with code that neither parses at statement level nor as
    whole source. A call that raises must leave source, structure and positions exactly as they were."""
    import fst
    from fst.fst_core import _MODIFYING
    for src in OPT_PROGS:
        probe = fst.FST(src, 'exec')
        jobs = []
        for f in probe.walk(True):
            path = probe.child_path(f)
            for fld in ('body', 'orelse', 'finalbody', 'handlers', 'cases'):
                v = getattr(f.a, fld, None)
                if isinstance(v, list) and v and isinstance(v[0], ast.AST):
                    new = {'handlers': 'except Z: pass', 'cases': 'case 9: pass'}.get(fld, 'b = 2')
                    for i in range(len(v) + 1):
                        jobs.append((path, 'ins', fld, i, new))
                    for i in range(len(v)):
                        jobs += [(path, 'rep', fld, i, new), (path, 'del', fld, i, None), (path, 'put', fld, i, new)]
            if isinstance(f.a, ast.stmt):
                jobs += [(path, 'replace', None, None, 'b = 2'), (path, 'remove', None, None, None)]
            if isinstance(f.a, ast.expr):
                jobs.append((path, 'raw', None, None, None))
        for path, how, fld, i, new in jobs:
            variants = [{'raw': True, '_code': c} for c in RAW_BAD] if how == 'raw' else [{k: v} for k, v in BAD_OPTIONS]
            for opts in variants:
                root = fst.FST(src, 'exec')
                f = root.child_from_path(path)
                before = snapshot(root)
                code = opts.pop('_code', new)
                desc = {'src': src, 'node': repr(f), 'how': how, 'field': fld, 'idx': i, 'code': code, 'options': repr(opts)}
                try:
                    if how == 'ins':
                        f.put_slice(code, i, i, fld, **opts)
                    elif how == 'rep':
                        f.put_slice(code, i, i + 1, fld, **opts)
                    elif how == 'del':
                        f.put_slice(None, i, i + 1, fld, **opts)
                    elif how == 'put':
                        f.put(code, i, fld, **opts)
                    elif how == 'remove':
                        f.remove(**opts)
                    else:
                        f.replace(code, **opts)
                    continue
                except Exception as e:
                    err = e
                ctx.tick(('optsweep', src, str(path), how, fld, i, repr(opts), code), 'fault:sweep:' + how)
                if _MODIFYING:
                    ctx.violation(f'lock|sweep-{how}|exc', 'modification registry not empty after the call raised', {**desc, 'error': repr(err)[:200]})
                    _MODIFYING.clear()
                after = snapshot(root)
                if after != before:
                    what = 'source changed' if after[0] != before[0] else 'tree positions/structure changed'
                    ctx.violation(f'mutated|sweep-{how}|{type(err).__name__}|{what}', 'a raising edit did not leave the tree exactly as it was',
                                  {**desc, 'error': repr(err)[:200], 'src_after': after[0], 'dump_equal': after[1] == before[1]})


def stage_falsy_and_order_sweep(ctx: Ctx):
    """deterministic: (a) every single-node field and every element of every list field of a set of statements put with FALSY code that is not None ('' / [] / () / 0-length
    source): where that is refused nothing may have changed (deleting a neighbouring field first and then failing is the classic half-applied edit); (b) every insertion
    point of the merged arguments of calls / class bases with code the ordering rules reject (a positional behind keywords, '**' in front, keywords into args...), incl. calls
    whose only argument is a generator expression sharing the call parentheses (normalising those before validating is a change that survives the refusal)."""
    import fst
    from fst.fst_core import _MODIFYING

    def attempt(src, path, thunk_maker, desc):
        root = fst.FST(src, 'exec')
        f = root.child_from_path(path)
        before = snapshot(root)
        try:
            thunk_maker(f)()
            return
        except Exception as e:
            err = e
        ctx.tick(('falsy-order', src, str(path), json.dumps(desc, default=repr)), 'fault:sweep:' + desc['how'])
        if _MODIFYING:
            ctx.violation(f'lock|sweep-{desc["how"]}|exc', 'modification registry not empty after the call raised', {'src': src, **desc, 'error': repr(err)[:200]})
            _MODIFYING.clear()
        after = snapshot(root)
        if after != before:
            what = 'source changed' if after[0] != before[0] else 'tree positions/structure changed'
            ctx.violation(f'mutated|sweep-{desc["how"]}|{type(err).__name__}|{what}', 'a raising edit did not leave the tree exactly as it was',
                          {'src': src, **desc, 'error': repr(err)[:200], 'src_after': after[0], 'dump_equal': after[1] == before[1]})
    for src in FALSY_PROGS:
        probe = fst.FST(src, 'exec')
        for f in probe.walk(True):
            path = probe.child_path(f)
            for fld in f.a._fields:
                v = getattr(f.a, fld, None)
                if isinstance(v, (ast.expr_context, ast.operator, ast.unaryop, ast.cmpop, ast.boolop)) or fld in ('ctx', 'type_comment', 'kind'):
                    continue
                for code in ('', [], (), '  ', '\n'):
                    if isinstance(v, list):
                        for i in range(len(v) + 1):
                            attempt(src, path, lambda g, fld=fld, i=i, code=code: (lambda: g.put(code, i, fld)), {'how': 'falsy-put', 'field': fld, 'idx': i, 'code': repr(code)})
                            attempt(src, path, lambda g, fld=fld, i=i, code=code: (lambda: g.put_slice(code, i, i + 1, fld)), {'how': 'falsy-put-slice', 'field': fld, 'idx': i, 'code': repr(code)})
                    else:
                        attempt(src, path, lambda g, fld=fld, code=code: (lambda: g.put(code, fld)), {'how': 'falsy-put', 'field': fld, 'code': repr(code)})
                        if isinstance(v, ast.AST) and getattr(v, 'f', None) is not None:
                            attempt(src, path, lambda g, fld=fld, code=code: (lambda: getattr(g, fld).replace(code)), {'how': 'falsy-replace', 'field': fld, 'code': repr(code)})
    # (d) ONE element of every list field replaced by code that a rule of that container may reject (a star alias next to other names, a wildcard, starred / double-starred
    #     things, dotted and renamed names, slices ...) through every one-element entry point: a rule that is checked after the element went in leaves a half-applied change
    RULE_PROGS = ['from mod import alpha, beta\n', 'from mod import (alpha as a, beta, gamma)\n', 'import a, b.c\n', 'with a as b, c: pass\n',
                  'match x:\n case {1: a, **r}: pass\n case C(a, b=c): pass\n case [a, *b]: pass\n case a | b: pass\n', 'def f(a, *b, c, **d): pass\n', 'def g():\n    global a, b\n',
                  'del a, b\n', 'x = {a: b, **c}\n', 'f(a, *b, k=c, **d)\n', 'try: pass\nexcept A: pass\nexcept B: pass\n', 'type T[A, *B, **C] = int\n', 'x = a < b < c\n', 'class K(A, m=B): pass\n',
                  'for a, b in c: pass\n', 'a = b = c\n', 'x = [a, *b]\ny = a[b:c, d]\n', '@a\n@b\ndef f(): pass\n', 'x = [i for i in j if k if l]\n', 'try: pass\nexcept* A: pass\nexcept* B: pass\n']
    RULE_CODES = ['*', '_', '**k', '*s', 'a.b', 'x as y', 'lambda: 0', 'a:b', '...', 'k=v', 'except: pass', 'except* E: pass', '1', '(yield)', 'a := b', '*', 'for q in r', 'if z', '@d', 'T: int', '**P']
    for src in RULE_PROGS:
        probe = fst.FST(src, 'exec')
        for f in probe.walk(True):
            path = probe.child_path(f)
            for fld in f.a._fields:
                v = getattr(f.a, fld, None)
                if not isinstance(v, list) or not v or fld in ('body', 'orelse', 'finalbody', 'type_ignores'):
                    continue
                for i in range(len(v)):
                    for code in RULE_CODES:
                        attempt(src, path, lambda g, fld=fld, i=i, code=code: (lambda: g.put(code, i, fld)), {'how': 'rule-put', 'field': fld, 'idx': i, 'code': code})
                        attempt(src, path, lambda g, fld=fld, i=i, code=code: (lambda: getattr(g, fld).__setitem__(i, code)), {'how': 'rule-setitem', 'field': fld, 'idx': i, 'code': code})
                        if isinstance(v[i], ast.AST):
                            attempt(src, path, lambda g, fld=fld, i=i, code=code: (lambda: getattr(g, fld)[i].replace(code)), {'how': 'rule-replace', 'field': fld, 'idx': i, 'code': code})
    # (c) the ROOT as target: consumed / non-root / unparsable / wrong-kind code
    for src, mode in (('x = 1\n', 'exec'), ('a + b', 'expr'), ('x = 1', 'stmt'), ('[p, q]', 'pattern')):
        for what in ('consumed', 'nonroot', 'unparsable', 'none', 'to'):
            root = fst.FST(src, mode)
            before = (root.src, ast.dump(root.a, include_attributes=True) if root.a is not None else None)
            other = fst.FST('[q, r]', 'exec')
            donor = fst.FST('qq', 'expr')
            other.body[0].value.elts[0].replace(donor)
            code = {'consumed': donor, 'nonroot': other.body[0].value.elts[1], 'unparsable': '1 +', 'none': None, 'to': 'zz'}[what]
            try:
                root.replace(code, **({'to': root} if what == 'to' else {}))
                continue
            except Exception as e:
                err = e
            ctx.tick(('root-replace', src, mode, what), 'fault:sweep:root-replace')
            after = (root.src, ast.dump(root.a, include_attributes=True) if root.a is not None else None)
            if after != before:
                ctx.violation(f'mutated|sweep-root-replace|{type(err).__name__}|' + ('source changed' if after[0] != before[0] else 'tree positions/structure changed'),
                              'a raising edit did not leave the tree exactly as it was', {'src': src, 'mode': mode, 'code': what, 'error': repr(err)[:200], 'src_after': after[0], 'tree_is_none': root.a is None})
    for src in CALL_PROGS:
        probe = fst.FST(src, 'exec')
        for f in probe.walk(True):
            if not isinstance(f.a, (ast.Call, ast.ClassDef)):
                continue
            path = probe.child_path(f)
            virt = '_args' if isinstance(f.a, ast.Call) else '_bases'
            real = 'args' if isinstance(f.a, ast.Call) else 'bases'
            n = len(getattr(f, virt))
            for code in ('**kw', 'k=1', '*st', 'p', 'p, k=2', 'k=1, p', '**a, b', 'x for x in y', '1 +'):
                for i in list(range(n + 1)) + ['end']:
                    for fld in (virt, real, 'keywords'):
                        attempt(src, path, lambda g, fld=fld, i=i, code=code: (lambda: g.put_slice(code, i, i, fld)), {'how': 'order-insert', 'field': fld, 'idx': i, 'code': code})
                for fld in (virt, real, 'keywords'):
                    attempt(src, path, lambda g, fld=fld, code=code: (lambda: g.insert(code, 0, fld)), {'how': 'order-insert0', 'field': fld, 'code': code})
                    attempt(src, path, lambda g, fld=fld, code=code: (lambda: getattr(g, fld).prepend(code)), {'how': 'order-prepend', 'field': fld, 'code': code})
                    attempt(src, path, lambda g, fld=fld, code=code: (lambda: getattr(g, fld).append(code)), {'how': 'order-append', 'field': fld, 'code': code})


def stage_mixed_elements_sweep(ctx: Ctx):
    """deterministic: into every kind of container a code of TWO elements, one that fits and one of a kind that may not (a literal, an attribute, a starred, a keyword, an
    `as` pair, a statement ...), in both orders, through put_slice / extend / view slice assignment: either the call succeeds and the tree re-parses to itself, or it
    raises and the tree is exactly as it was and still editable - whatever part of the code the validation looked at first"""
    import fst
    from lib.containers import CONTAINERS, render_ok
    bads = ['1', 'y.z', '*y', 'k=v', '**kw', 'a as b', 'lambda: 0', '(x := 1)', 'r[0]', '"s"', 'a: int', 'not a', 'x.y as z', 'f()', '[l]', 'a if b else c', 'a, b', '']
    for c in CONTAINERS:
        if len(c.pool) < 3:
            continue
        olds = list(c.pool[:max(2, c.min_len)])
        src = render_ok(c, olds)
        if src is None:
            olds = list(c.pool[:3])
            src = render_ok(c, olds)
        if src is None:
            continue
        good = c.pool[-1]
        sep = c.seps[0] if getattr(c, 'seps', None) else ', '
        for bad in bads:
            for code in (f'{good}{sep}{bad}', f'{bad}{sep}{good}', f'{good}{sep}{bad}{sep}{good}'):
                for ep in ('put_slice', 'extend', 'view_setslice', 'insert0'):
                    try:
                        m = fst.FST(src, 'exec')
                        node = eval(c.path, {'m': m})
                    except Exception:
                        break
                    before = (m.src, ast.dump(m.a, include_attributes=True))
                    rec = {'container': c.name, 'src': src, 'code': code, 'entry': ep}
                    try:
                        if ep == 'put_slice':
                            node.put_slice(code, 0, 1, c.field)
                        elif ep == 'extend':
                            node.extend(code, c.field)
                        elif ep == 'view_setslice':
                            getattr(node, c.field)[0:1] = code
                        else:
                            node.put_slice(code, 0, 0, c.field)
                    except Exception as e:
                        ctx.tick(('mixed', c.name, code, ep, 'raised'), 'fault:sweep:mixed-elements')
                        after = (m.src, ast.dump(m.a, include_attributes=True) if m.a is not None else None)
                        if after != before:
                            ctx.violation(f'mutated|sweep-mixed-elements|{c.name}|{type(e).__name__}|' + ('source changed' if after[0] != before[0] else 'tree positions/structure changed'),
                                          'a raising edit did not leave the tree exactly as it was', {**rec, 'error': repr(e)[:200], 'src_after': after[0]})
                            continue
                        # still editable: a valid edit of ANOTHER node goes through
                        try:
                            m.body.append('still_editable = 1')
                        except Exception as e2:
                            ctx.violation(f'locked|sweep-mixed-elements|{c.name}', 'after a raising edit the tree no longer accepts a valid edit', {**rec, 'error': repr(e)[:200], 'second_error': repr(e2)[:200]})
                        continue
                    ctx.tick(('mixed', c.name, code, ep, 'ok'), 'fault:sweep:mixed-elements:accepted')
                    d = reparse_diffs(m)
                    if d:
                        ctx.violation(f'accepted-invalid|sweep-mixed-elements|{c.name}', 'an edit that was accepted left a tree that does not re-parse to itself', {**rec, 'src_after': m.src, 'diffs': d})

    # a CUT that converts what it returns (args_as): a refused conversion must not have cut anything
    for asrc in ('def f(a, *b, c=1): pass\n', 'def f(a, /, b, *, c, **d): pass\n', 'def f(a=1, b=2): pass\n', 'x = lambda a, *b, c=1, **d: 0\n', 'def f(*, a, b=1): pass\n'):
        probe = fst.FST(asrc, 'exec')
        n = len((probe.body[0].args if asrc.startswith('def') else probe.body[0].value.args)._all)
        for args_as in ('pos', 'arg', 'kw', 'arg_only', 'kw_only', 'pos_maybe', 'arg_maybe', 'kw_maybe'):
            for i in range(n):
                for j in range(i + 1, n + 1):
                    for how in ('get_slice', 'view_cut', 'get_slice-in-options-block', 'view_cut-after-set_options'):
                        m = fst.FST(asrc, 'exec')
                        args = m.body[0].args if asrc.startswith('def') else m.body[0].value.args
                        before = (m.src, ast.dump(m.a, include_attributes=True))
                        rec = {'src': asrc, 'start': i, 'stop': j, 'args_as': args_as, 'entry': how}
                        try:
                            if how == 'get_slice':
                                piece = args.get_slice(i, j, '_all', cut=True, args_as=args_as)
                            elif how == 'view_cut':
                                piece = args._all[i:j].cut(args_as=args_as)
                            elif how == 'get_slice-in-options-block':
                                with fst.FST.options(args_as=args_as):
                                    piece = args.get_slice(i, j, '_all', cut=True)
                            else:
                                old_ = fst.FST.set_options(args_as=args_as)
                                try:
                                    piece = args._all[i:j].cut()
                                finally:
                                    fst.FST.set_options(**old_)
                        except Exception as e:
                            ctx.tick(('args_as-cut', asrc, i, j, args_as, how, 'raised'), 'fault:sweep:cut-with-conversion')
                            after = (m.src, ast.dump(m.a, include_attributes=True) if m.a is not None else None)
                            if after != before:
                                ctx.violation(f'mutated|sweep-cut-with-conversion|{type(e).__name__}|' + ('source changed' if after[0] != before[0] else 'tree positions/structure changed'),
                                              'a raising edit did not leave the tree exactly as it was', {**rec, 'error': repr(e)[:200], 'src_after': after[0]})
                            continue
                        ctx.tick(('args_as-cut', asrc, i, j, args_as, how, 'ok'), 'fault:sweep:cut-with-conversion:accepted')
                        d = reparse_diffs(m)
                        if d and n - (j - i) > 0:
                            ctx.violation('accepted-invalid|sweep-cut-with-conversion', 'a cut that was accepted left a tree that does not re-parse to itself', {**rec, 'src_after': m.src, 'diffs': d})

    # a node that is still part of a tree (this very tree) given as the code for ONE element: refused with nothing changed, the node left where it is
    for c in CONTAINERS:
        olds = list(c.pool[:max(2, c.min_len)])
        src0 = render_ok(c, olds)
        if src0 is None:
            continue
        src = src0 + ('' if src0.endswith('\n') else '\n') + 'w_ = 3, 4\nq_ = z_.y_\n'
        try:
            ast.parse(src)
        except SyntaxError:
            continue
        for which in (-2, -1):
            for ep in ('append', 'put_slice_one', 'put', 'insert'):
                try:
                    m = fst.FST(src, 'exec')
                    node = eval(c.path, {'m': m})
                except Exception:
                    break
                code = m.body[which].value
                before = (m.src, ast.dump(m.a, include_attributes=True))
                rec = {'container': c.name, 'src': src, 'code_node': repr(code), 'entry': ep}
                try:
                    if ep == 'append':
                        getattr(node, c.field).append(code)
                    elif ep == 'put_slice_one':
                        node.put_slice(code, 0, 0, c.field, one=True)
                    elif ep == 'put':
                        node.put(code, 0, c.field)
                    else:
                        node.insert(code, 0, c.field, one=True)
                except Exception as e:
                    ctx.tick(('nonroot-one', c.name, which, ep), 'fault:sweep:nonroot-node-as-one')
                    after = (m.src, ast.dump(m.a, include_attributes=True) if m.a is not None else None)
                    if after != before:
                        ctx.violation(f'mutated|sweep-nonroot-node-as-one|{c.name}|{type(e).__name__}|' + ('source changed' if after[0] != before[0] else 'tree positions/structure changed'),
                                      'a raising edit did not leave the tree exactly as it was', {**rec, 'error': repr(e)[:200], 'src_after': after[0]})
                    continue
                ctx.tick(('nonroot-one', c.name, which, ep, 'ok'), 'fault:sweep:nonroot-node-as-one:accepted')
                d = reparse_diffs(m)
                if d:
                    ctx.violation(f'accepted-invalid|sweep-nonroot-node-as-one|{c.name}', 'an edit that was accepted left a tree that does not re-parse to itself', {**rec, 'src_after': m.src, 'diffs': d})

    # slices that span lines and carry comments (taken from parenthesized donors) put into statements that cannot be parenthesized: the fix-up that adds line
    # continuations runs after the put and can refuse
    donors = [('from m import (x,  # comment\n    y)\n', lambda t: t.body[0], 'names'), ('from m import (x as p,  # c1\n    y,  # c2\n    z)\n', lambda t: t.body[0], 'names'),
              ('t = (x,  # comment\n     y)\n', lambda t: t.body[0].value, 'elts'), ('t = [x.a,  # c1\n     y[0],\n     z]\n', lambda t: t.body[0].value, 'elts'),
              ('def g():\n    global x, \\\n        y\n', lambda t: t.body[0].body[0], 'names')]
    hosts2 = [('import a, b\n', lambda t: t.body[0], 'names'), ('import a\n', lambda t: t.body[0], 'names'), ('from m import a, b\n', lambda t: t.body[0], 'names'), ('del a, b\n', lambda t: t.body[0], 'targets'),
              ('a = b = c\n', lambda t: t.body[0], 'targets'), ('def f():\n    global a, b\n', lambda t: t.body[0].body[0], 'names'), ('if q:\n    import a, b\n', lambda t: t.body[0].body[0], 'names'),
              ('with a, b: pass\n', lambda t: t.body[0], 'items'), ('for i in a, b: pass\n', lambda t: t.body[0].iter, 'elts'), ('x = a, b\n', lambda t: t.body[0].value, 'elts')]
    for dsrc, dget, dfld in donors:
        for hsrc, hget, hfld in hosts2:
            for (i, j) in ((0, 0), (1, 1), (0, 1), (1, 2), (2, 2), (0, 2)):
                for ep in ('put_slice', 'view_setslice', 'extend'):
                    if ep == 'extend' and (i, j) != (2, 2):
                        continue
                    m = fst.FST(hsrc, 'exec')
                    node = hget(m)
                    try:
                        code = dget(fst.FST(dsrc, 'exec')).get_slice(0, 'end', dfld)
                    except Exception:
                        break
                    before = (m.src, ast.dump(m.a, include_attributes=True))
                    rec = {'src': hsrc, 'field': hfld, 'code_from': dsrc, 'code': code.src, 'start': i, 'stop': j, 'entry': ep}
                    try:
                        if ep == 'put_slice':
                            node.put_slice(code, i, j, hfld)
                        elif ep == 'view_setslice':
                            getattr(node, hfld)[i:j] = code
                        else:
                            node.extend(code, hfld)
                    except Exception as e:
                        ctx.tick(('multiline-code', hsrc, dsrc, i, j, ep, 'raised'), 'fault:sweep:multiline-commented-code')
                        after = (m.src, ast.dump(m.a, include_attributes=True) if m.a is not None else None)
                        if after != before:
                            ctx.violation(f'mutated|sweep-multiline-commented-code|{type(node.a).__name__}.{hfld}|{type(e).__name__}|' + ('source changed' if after[0] != before[0] else 'tree positions/structure changed'),
                                          'a raising edit did not leave the tree exactly as it was', {**rec, 'error': repr(e)[:200], 'src_after': after[0]})
                        continue
                    ctx.tick(('multiline-code', hsrc, dsrc, i, j, ep, 'ok'), 'fault:sweep:multiline-commented-code:accepted')
                    d = reparse_diffs(m)
                    if d:
                        ctx.violation(f'accepted-invalid|sweep-multiline-commented-code|{type(node.a).__name__}.{hfld}', 'an edit that was accepted left a tree that does not re-parse to itself', {**rec, 'src_after': m.src, 'diffs': d})


def stage_accessor_refusals(ctx: Ctx):
    """deterministic: the dedicated accessors with arguments they must refuse - put_docstr() with text that is not text (bytes, numbers, objects, lists with a non-string), with and without
    reput, on definitions with and without a docstring; put_line_comment() with a comment that spans lines or (full=True) lacks its '#': a call that raises leaves source and tree exactly
    as they were and the next edit is admitted"""
    import fst
    progs = ['def f():\n    """doc"""\n    return 1\n', 'class K:\n    \'\'\'doc\n    two\'\'\'\n    x = 1\n', '"""mod doc"""\nimport a\n', 'def g(): pass\n', 'async def h():\n    "d"\n']
    bad_texts = [b'doc', 123, 1.5, object(), ['a', 1], ('a', b'b'), {'a': 1}.keys() if False else 3j, True]
    for src in progs:
        for bad in bad_texts:
            for kw in ({}, {'reput': True}, {'reput': False}):
                root = fst.FST(src, 'exec')
                node = root.body[0] if isinstance(root.body[0].a, (ast.FunctionDef, ast.AsyncFunctionDef, ast.ClassDef)) else root
                before = (root.src, ast.dump(root.a, include_attributes=True))
                rec = {'src': src, 'call': f'put_docstr({bad!r}, **{kw})'}
                try:
                    node.put_docstr(bad, **kw)
                    err = None
                except Exception as e:
                    err = e
                ctx.tick(('docstr-refusal', src, repr(bad)[:20], str(kw)), 'accessor-refusal:' + ('raise' if err is not None else 'ok'))
                if err is not None:
                    if (root.src, ast.dump(root.a, include_attributes=True)) != before:
                        ctx.violation(f'failed-but-changed|put_docstr|{type(err).__name__}', 'put_docstr() raised and left the source or the tree changed', {**rec, 'error': repr(err)[:200], 'after_src': root.src})
                        continue
                    try:
                        node.put_docstr('next')
                        d = reparse_diffs(root)
                    except Exception as e:
                        d = [f'the next edit raised {e!r}'[:200]]
                    if d:
                        ctx.violation('failed-then-stuck|put_docstr', 'after a refused put_docstr() the next edit is not admitted or gives a wrong tree', {**rec, 'diffs': d[:3]})
                else:
                    d = reparse_diffs(root)
                    if d:
                        ctx.violation('accepted-inconsistent|put_docstr', 'put_docstr() accepted a value and left a tree that differs from the parse of its source', {**rec, 'after_src': root.src, 'diffs': d[:3]})
    # a tree put into itself: the root as code for its own replacement or for one of its own lists / nodes
    for src in ['a = [1, 2, 3]\nb = 2\n', 'def f():\n    return g(x)\n']:
        for what, do in [('root.replace(root)', lambda r: r.replace(r)), ('root.body.append(root)', lambda r: r.body.append(r)), ('root.body[0].replace(root)', lambda r: r.body[0].replace(r)),
                         ('root.put_slice(root, 0, 1, "body")', lambda r: r.put_slice(r, 0, 1, 'body')), ('root.body[0] = root', lambda r: r.body.__setitem__(0, r))]:
            root = fst.FST(src, 'exec')
            before = (root.src, ast.dump(root.a, include_attributes=True))
            try:
                do(root)
                err = None
            except Exception as e:
                err = e
            ctx.tick(('circular', src, what), 'accessor-refusal:circular')
            try:
                after = (root.src, ast.dump(root.a, include_attributes=True))
                d = reparse_diffs(root)
                if not d and not root.verify(raise_=False):
                    d = ['verify() fails: the links between the tree and its nodes are broken']
                if not d:
                    root.body[0].replace('still_editable = 1')
                    d = reparse_diffs(root)
            except Exception as e:
                after, d = None, [f'the tree can not be read any more: {e!r}'[:200]]
            if err is not None and (d or after != before):
                ctx.violation(f'failed-but-changed|circular-put|{type(err).__name__}', 'a tree put into itself was refused but the tree is changed / destroyed', {'src': src, 'call': what, 'error': repr(err)[:200], 'diffs': (d or [])[:3]})
            elif err is None and d:
                ctx.violation('accepted-inconsistent|circular-put', 'a tree put into itself was accepted and left an inconsistent tree', {'src': src, 'call': what, 'diffs': d[:3]})
    for src in ['x = 1  # c\ny = 2\n', 'if a:  # h\n    b  # c\n']:
        for bad, full in [('two\nlines', False), ('no hash', True), (5, False), (b'c', False), ('# a\n# b', True)]:
            root = fst.FST(src, 'exec')
            node = root.body[0]
            before = (root.src, ast.dump(root.a, include_attributes=True))
            rec = {'src': src, 'call': f'put_line_comment({bad!r}, full={full})'}
            try:
                node.put_line_comment(bad, full=full)
                err = None
            except Exception as e:
                err = e
            ctx.tick(('comment-refusal', src, repr(bad), full), 'accessor-refusal:' + ('raise' if err is not None else 'ok'))
            if err is not None and (root.src, ast.dump(root.a, include_attributes=True)) != before:
                ctx.violation(f'failed-but-changed|put_line_comment|{type(err).__name__}', 'put_line_comment() raised and left the source or the tree changed', {**rec, 'error': repr(err)[:200], 'after_src': root.src})
            elif err is None:
                d = reparse_diffs(root)
                if d:
                    ctx.violation('accepted-inconsistent|put_line_comment', 'put_line_comment() accepted a value and left a tree that differs from the parse of its source', {**rec, 'after_src': root.src, 'diffs': d[:3]})


def run(ctx: Ctx):
    ctx.rule = ('fault sequences: histories mixing invalid requests (15 fault kinds: unparsable code, wrong category with coerce=False, index/slice out of '
                'range, bad/unknown options, consumed or non-root FST as code, to= without raw, deletion of required fields, ordering violations) and '
                'random valid edits; after every raising call src and ast.dump(include_attributes) must be identical and _MODIFYING empty; following '
                'edits must still satisfy the re-parse check. distinct = (source, request, exception type); non-trivial = the call raised. '
                'Registry model vs real _Modifying on random traces.')
    ctx.assumptions += ['CPython ast.dump(include_attributes=True) + source text observe the whole tree state']
    ok = stage_translate(ctx)
    if ok:
        ctx.build_props()
        run_guarded(ctx, stage_registry_corr)
    progs = corpus(ctx.rng, gen=ctx.scale(20, 150))
    run_guarded(ctx, stage_faults, progs)
    run_guarded(ctx, stage_delete_sweep)
    run_guarded(ctx, stage_option_sweep)
    run_guarded(ctx, stage_falsy_and_order_sweep)
    run_guarded(ctx, stage_mixed_elements_sweep)
    run_guarded(ctx, stage_accessor_refusals)


def replay(path):
    d = json.load(open(path))
    print(json.dumps(d, indent=1)[:6000])
    return 0
