"""C10 - Raw source edits are equivalent to re-parsing the whole file, or change nothing."""

from __future__ import annotations

import ast
import json
import warnings

warnings.simplefilter('ignore', SyntaxWarning)

from lib.common import *
from lib.oracle import cmp_ast
from lib.progs import corpus
from props.C11 import stage_translate

LEVEL = 'proof'
HDR = ('From Coq Require Import List Bool Arith.\nFrom PF Require Import gen.RawEffects models.Atomic.\nImport ListNotations.\n')

REPLACEMENTS = ['', 'x', 'foo(1)', ' ', '\n', '# c', 'pass', 'a = 1', 'a = 1\n', ')', '(', ':', 'if q:', 'if q:\n        z', 'else:', 'elif r:', '    ', '\n    ', 'x,', ', y',
                'é', '"s"', "'''t\nu'''", 'lambda: 0', 'yield', 'return 1', '\\\n', ';', '; w', 'def g(): pass', '@d', 'case _: pass', 'except E: pass', 'finally:', 'try:',
                'async ', 'await v', '*', '**', '=', '==', ' and ', 'not ', '[', ']', '{', '}', '1 +', 'for i in j:', 'with m as n:', 'class C: pass', '\t', 'x\n\ny', 'f"{a}"',
                'f"{a=}"', '  # trailing', 'b = (\n    1\n)']


def spliced(src, ln, col, eln, ecol, new):
    lines = src.split('\n')
    return '\n'.join(lines[:ln] + [lines[ln][:col] + new + lines[eln][ecol:]] + lines[eln + 1:])


KEYWORDS = ['if', 'while', 'for', 'with', 'elif', 'else', 'try', 'def', 'class', 'async def', 'async for', 'except', 'finally', 'match', 'case']


def keyword_swap(rng, root, lines):
    """rectangle = the leading keyword of a block statement header (or of an elif/else/except/finally clause)"""
    import re
    cands = []
    for i, l in enumerate(lines):
        m = re.match(r'\s*(async\s+def|async\s+for|async\s+with|if|while|for|with|elif|else|try|def|class|except\*?|finally|match|case)\b', l)
        if m:
            cands.append((i, m.start(1), i, m.end(1)))
    return rng.choice(cands) if cands else None


def rand_rect(rng, root, lines):
    r = rng.random()
    locs = [f.loc for f in root.walk(True) if f.loc is not None and f.parent is not None]
    if r < 0.45 and locs:
        ln, col, eln, ecol = rng.choice(locs)
        if rng.random() < 0.3:     # off node boundaries
            col = min(len(lines[ln]), max(0, col + rng.choice([-1, 1, 2])))
        if rng.random() < 0.3:
            ecol = min(len(lines[eln]), max(0, ecol + rng.choice([-1, 1, 2])))
        if (ln, col) > (eln, ecol):
            ln, col, eln, ecol = eln, ecol, ln, col
        return ln, col, eln, ecol
    if r < 0.6 and len(locs) >= 2:   # from the start of one node to the end of another (spanning statements / blocks)
        a, b = rng.choice(locs), rng.choice(locs)
        s, e = min(a[:2], b[:2]), max(a[2:], b[2:])
        if s <= e:
            return s[0], s[1], e[0], e[1]
    ln = rng.randrange(len(lines))
    eln = min(len(lines) - 1, ln + rng.choice([0, 0, 0, 1, 2]))
    col = rng.randrange(len(lines[ln]) + 1)
    ecol = rng.randrange(len(lines[eln]) + 1)
    if eln == ln and ecol < col:
        col, ecol = ecol, col
    return ln, col, eln, ecol


def rand_new(rng, src, lines):
    r = rng.random()
    if r < 0.55:
        return rng.choice(REPLACEMENTS)
    if r < 0.8:   # a piece of the program itself
        ln = rng.randrange(len(lines))
        a = rng.randrange(len(lines[ln]) + 1)
        b = rng.randrange(a, len(lines[ln]) + 1)
        return lines[ln][a:b]
    if r < 0.9:   # whole lines of the program (statements, with their indentation)
        ln = rng.randrange(len(lines))
        return '\n'.join(lines[ln:ln + rng.choice([1, 2, 3])])
    return rng.choice(REPLACEMENTS) + rng.choice(REPLACEMENTS)


def stage_oracle(ctx: Ctx, progs):
    import fst
    rng = ctx.rng
    nseq = ctx.scale(350, 7000)
    for si in range(nseq):
        src0 = rng.choice(progs)
        root = fst.FST(src0, 'exec')
        rid = id(root)
        history = []
        for step in range(rng.randrange(1, ctx.scale(6, 15))):
            src = root.src
            lines = src.split('\n')
            how = rng.choice(['put_src', 'put_src', 'put_src', 'put_src_node', 'raw_put', 'reparse'])
            before_dump = ast.dump(root.a, include_attributes=True)
            rec = {'start_src': src0, 'history': history, 'src_before': src, 'how': how}
            try:
                if how in ('put_src', 'put_src_node'):
                    ln, col, eln, ecol = rand_rect(rng, root, lines)
                    new = rand_new(rng, src, lines)
                    if rng.random() < 0.12 and (kwr := keyword_swap(rng, root, lines)):
                        ln, col, eln, ecol = kwr
                        new = rng.choice(KEYWORDS)
                    want_src = spliced(src, ln, col, eln, ecol, new)
                    rec.update(rect=[ln, col, eln, ecol], new=new)
                    node = root
                    if how == 'put_src_node':
                        node = rng.choice([f for f in root.walk(True)])
                        rec['called_on'] = repr(node)
                    node.put_src(new, ln, col, eln, ecol, 'reparse')
                elif how == 'raw_put':
                    cands = [f for f in root.walk(True) if f.parent is not None and f.loc is not None]
                    if not cands:
                        break
                    f = rng.choice(cands)
                    new = rand_new(rng, src, lines)
                    ln, col, eln, ecol = f.pars() if hasattr(f, 'pars') and isinstance(f.a, ast.expr) else f.bloc
                    rec.update(node=repr(f), new=new)
                    want_src = None     # the rectangle of a raw node put is the implementation's choice: judged by the resulting source only
                    f.replace(new, raw=True)
                else:
                    want_src = src
                    root.reparse()
                err = None
            except Exception as e:
                err = e
            ok = err is None
            history.append({'how': how, 'rect': rec.get('rect'), 'new': rec.get('new'), 'ok': ok, 'error': repr(err)[:120] if err else None})
            ctx.tick((hash(src) & 0xffffff, how, json.dumps(rec.get('rect')), rec.get('new')), f'raw:{how}:' + ('ok' if ok else 'raise'))
            if id(root) != rid:
                ctx.violation('root-identity', 'the root object changed', rec)
                break
            after_src = root.src
            if not ok:
                # must have changed nothing
                if after_src != src or ast.dump(root.a, include_attributes=True) != before_dump:
                    ctx.violation(f'failed-but-changed|{how}|{type(err).__name__}', 'a raw edit raised and left source or tree changed',
                                  {**rec, 'error': repr(err), 'after_src': after_src, 'tree_changed': ast.dump(root.a, include_attributes=True) != before_dump})
                    break
                if want_src is not None and how != 'reparse':
                    try:
                        ast.parse(want_src)
                        valid = True
                    except (SyntaxError, ValueError):
                        valid = False
                    if valid and not isinstance(err, NotImplementedError):
                        ctx.violation(f'valid-refused|{how}|{type(err).__name__}', 'the spliced whole source is valid but the raw edit was refused',
                                      {**rec, 'error': repr(err), 'want_src': want_src})
                        break
                continue
            if want_src is not None and after_src != want_src:
                ctx.violation(f'source-not-splice|{how}', 'the source after the raw edit is not the requested splice', {**rec, 'after_src': after_src, 'want_src': want_src})
                break
            try:
                ref = ast.parse(after_src + '\n' if after_src.endswith('\\\n') else after_src)   # a trailing line continuation is accepted by design (parsex._ast_parse)
            except (SyntaxError, ValueError) as e:
                ctx.violation(f'accepted-invalid|{how}', 'the raw edit succeeded although the new whole source does not parse', {**rec, 'after_src': after_src, 'parse_error': repr(e)})
                break
            d = cmp_ast(root.a, ref, positions=True)
            if d:
                ctx.violation(f'tree-differs|{how}|{d[0].split(":")[-1].strip()[:40]}', 'the tree after the raw edit differs from a from-scratch parse of the new source',
                              {**rec, 'after_src': after_src, 'diffs': d})
                break
    return


def stage_keywords(ctx: Ctx, progs):
    """systematic single-step sweep: every block / clause keyword of a program replaced by each of a few other keywords"""
    import fst
    import re
    rng = ctx.rng
    repls = ['if', 'while', 'for q in', 'with', 'elif', 'else', 'try', 'def', 'class', 'except', 'finally']
    extra = ['if x:\n  pass\nelif y:\n  pass\n', 'while a:\n    b\nelse:\n    c\n', 'for i in j:\n    k\nelse:\n    l\n', 'try:\n    a\nexcept E:\n    b\nelse:\n    c\nfinally:\n    d\n',
             'def f():\n    if a:\n        b\n    elif c:\n        d\n    else:\n        e\n', 'with a as b:\n    c\nif d: e\nelif f: g\n']
    pool = extra + rng.sample(progs, min(len(progs), ctx.scale(12, 80)))
    for src in pool:
        lines = src.split('\n')
        spots = []
        for i, l in enumerate(lines):
            m = re.match(r'\s*(async\s+def|async\s+for|async\s+with|if|while|for\b.*?\bin|with|elif|else|try|def|class|except\*?|finally)\b', l)
            if m:
                spots.append((i, m.start(1), m.end(1)))
        if len(spots) > 14:
            spots = rng.sample(spots, 14)
        for (ln, c0, c1) in spots:
            for new in repls:
                root = fst.FST(src, 'exec')
                before_dump = ast.dump(root.a, include_attributes=True)
                want_src = spliced(src, ln, c0, ln, c1, new)
                rec = {'start_src': src, 'rect': [ln, c0, ln, c1], 'new': new, 'how': 'keyword-swap'}
                try:
                    root.put_src(new, ln, c0, ln, c1, 'reparse')
                    err = None
                except Exception as e:
                    err = e
                ctx.tick((hash(src) & 0xffffff, 'kw', ln, c0, new), 'raw:keyword:' + ('ok' if err is None else 'raise'))
                try:
                    ref = ast.parse(want_src)
                except (SyntaxError, ValueError):
                    ref = None
                if err is not None:
                    if root.src != src or ast.dump(root.a, include_attributes=True) != before_dump:
                        ctx.violation(f'failed-but-changed|keyword|{type(err).__name__}', 'a raw edit raised and left source or tree changed', {**rec, 'error': repr(err), 'after_src': root.src})
                    elif ref is not None and not isinstance(err, NotImplementedError):
                        ctx.violation(f'valid-refused|keyword|{type(err).__name__}', 'the spliced whole source is valid but the raw edit was refused', {**rec, 'error': repr(err), 'want_src': want_src})
                    continue
                if root.src != want_src:
                    ctx.violation('source-not-splice|keyword', 'the source after the raw edit is not the requested splice', {**rec, 'after_src': root.src, 'want_src': want_src})
                elif ref is None:
                    ctx.violation('accepted-invalid|keyword', 'the raw edit succeeded although the new whole source does not parse', {**rec, 'after_src': root.src})
                else:
                    d = cmp_ast(root.a, ref, positions=True)
                    if d:
                        ctx.violation(f'tree-differs|keyword|{d[0].split(":")[-1].strip()[:40]}', 'the tree after the raw edit differs from a from-scratch parse of the new source',
                                      {**rec, 'after_src': root.src, 'diffs': d})


INTERNAL = ('RuntimeError', 'AssertionError', 'AttributeError', 'TypeError', 'KeyError', 'UnboundLocalError', 'RecursionError', 'WalkFail')


def judge_edit(ctx, tag, src, mode, rect, new, parse_kw=None, fst_kw=None):
    """one put_src(new, rect, 'reparse') on a fresh tree of (src, mode), judged against a from-scratch parse of the splice"""
    import fst
    parse_kw, fst_kw = parse_kw or {}, fst_kw or {}
    ln, col, eln, ecol = rect
    root = fst.FST(src, mode, **fst_kw)
    before_dump = ast.dump(root.a, include_attributes=True)
    want_src = spliced(src, ln, col, eln, ecol, new)
    rec = {'start_src': src, 'mode': mode, 'rect': list(rect), 'new': new, 'how': tag, **({'options': fst_kw} if fst_kw else {})}
    try:
        root.put_src(new, ln, col, eln, ecol, 'reparse')
        err = None
    except Exception as e:
        err = e
    ctx.tick((hash(src) & 0xffffff, tag, mode, tuple(rect), new), f'raw:{tag}:' + ('ok' if err is None else 'raise'))
    ref = None
    if mode == 'exec':
        try:
            ref = ast.parse(want_src + '\n' if want_src.endswith('\\\n') else want_src, **parse_kw)
        except (SyntaxError, ValueError):
            ref = None
    if err is not None:
        if root.src != src or ast.dump(root.a, include_attributes=True) != before_dump:
            ctx.violation(f'failed-but-changed|{tag}|{type(err).__name__}', 'a raw edit raised and left source or tree changed', {**rec, 'error': repr(err), 'after_src': root.src})
        elif type(err).__name__ in INTERNAL or type(err).__name__.startswith('_'):
            ctx.violation(f'internal-error|{tag}|{type(err).__name__}', 'a raw edit raised an internal error instead of applying or refusing the edit', {**rec, 'error': repr(err)[:300]})
        elif ref is not None and not isinstance(err, NotImplementedError):
            ctx.violation(f'valid-refused|{tag}|{type(err).__name__}', 'the spliced whole source is valid but the raw edit was refused', {**rec, 'error': repr(err), 'want_src': want_src})
        return
    if root.src != want_src:
        ctx.violation(f'source-not-splice|{tag}', 'the source after the raw edit is not the requested splice', {**rec, 'after_src': root.src, 'want_src': want_src})
        return
    if mode == 'exec':
        if ref is None:
            ctx.violation(f'accepted-invalid|{tag}', 'the raw edit succeeded although the new whole source does not parse', {**rec, 'after_src': root.src})
            return
        d = cmp_ast(root.a, ref, positions=True)
        if not d and parse_kw.get('type_comments'):
            tc = lambda t: [(type(n).__name__, getattr(n, 'type_comment', None)) for n in ast.walk(t) if hasattr(n, 'type_comment')]
            if tc(root.a) != tc(ref):
                d = [f'type_comment: {tc(root.a)} != {tc(ref)}']
    else:
        # a fragment root: the tree must be what parsing the new source gives, in the mode the root has now (own verify) and, when the
        # new source still parses in the original mode to the same kind of node, exactly that tree
        d = None
        try:
            root.verify()
        except Exception as e:
            d = [f'verify: {e!r}'[:300]]
        if not d:
            try:
                again = fst.FST(want_src, mode, **fst_kw)
            except Exception:
                again = None
            if again is not None and type(again.a) is type(root.a):
                d = cmp_ast(root.a, again.a, positions=True)
    if d:
        ctx.violation(f'tree-differs|{tag}|{d[0].split(":")[-1].strip()[:40]}', 'the tree after the raw edit differs from a from-scratch parse of the new source',
                      {**rec, 'after_src': root.src, 'diffs': d})


FRAGMENTS = [('expr', 'f(a * b, d)'), ('expr', '[a, b.c, (d, e)]'), ('expr', '{k: v, **r}'), ('expr', 'a if b else c'), ('expr', 'x[1:2, ...]'), ('expr', 'lambda q, *r: (q, r)'),
             ('expr', 'f"{a!r:>{w}} b"'), ('expr', '(yield z)'), ('expr', 'a < b <= c'), ('expr', 'ü + f(é, *z, k=1)'), ('expr', '[i for i in j if k]'), ('expr', '(\n  a,\n  b,  # c\n)'),
             ('stmt', 'a = 1'), ('stmt', 'if a: b'), ('stmt', 'for i in j:\n    k\nelse:\n    l'), ('stmt', 'def f(a, b=1): return a'), ('stmt', 'with a as b, c: pass'),
             ('pattern', '[a, *b, {"k": c}]'), ('pattern', 'C(x, y=1) | D()'), ('match_case', 'case [a, b] if c: pass'), ('ExceptHandler', 'except (A, B) as e: pass'),
             ('arguments', 'a, /, b=1, *c, d, **e'), ('withitem', 'a as b'), ('keyword', 'k=v + 1'), ('comprehension', 'for a in b if c'), ('alias', 'a.b as c'),
             ('Tuple', 'a, b, c'), ('_Assign_targets', 'a = b ='), ('_decorator_list', '@a\n@b(c)'), ('_withitems', 'a as b, c'), ('_arglikes', 'a, *b, c=d')]
FRAG_NEW = ['', 'x', 'b, c', 'b)(c', ')', '(', ', ', 'x, y', '*z', 'k=1', ' ', '\n', 'é', 'x = 1', ': pass', 'a: int', '[', ']', '(a)', 'not ', ' if p else q', ' as n', '# c\n', '**', '|', 'x.y']
TC_PROGS = ['for a in bb:  # type: int\n    pass\n', 'with aa:  # type: int\n    pass\n', 'def f(aa):\n    # type: (int) -> int\n    pass\n', 'x = []  # type: list\n',
            'async def g(a, b):  # type: (int, str) -> None\n    for i in a:  # type: int\n        with b as c:  # type: str\n            y = i  # type: int\n',
            'if q:\n    def h(\n        a,  # type: int\n        b,  # type: str\n    ):\n        # type: (...) -> None\n        pass\n']
CLAUSE_PROGS = ['for a in b:\n    x = 1\n', 'while a:\n    x = 1\n', 'if a:\n    x = 1\n', 'if a:\n    x = 1\nelif b:\n    y = 2\n', 'try:\n    pass\nexcept A:\n    x = 1\n',
                'try:\n    x = 1\nexcept A:\n    pass\nexcept B:\n    pass\n', 'try:\n    pass\nexcept* A:\n    x = 1\n', 'try:\n    pass\nexcept* A:\n    pass\nexcept* B:\n    pass\n',
                'if 1:\n  try:\n    pass\n  except A:\n    pass\n', 'def f():\n    for i in j:\n        if k:\n            x = 1\n', 'with a:\n    x = 1\n',
                'class C:\n    def m(self):\n        try:\n            x = 1\n        finally:\n            y = 2\n', 'if a:\n  if b:\n    x = 1\n', 'match a:\n    case 1:\n        x = 1\n',
                'x = 1', 'if a: x = 1\n', 'try: x = 1\nfinally: pass\n']
HEADER_PROGS = ['try  :\n    a\nfinally  :\n    b\n', 'try :\n    a\nexcept  E  as  e :\n    b\nelse :\n    c\nfinally :\n    d\n', 'try :\n    a\nexcept* E :\n    b\n', 'if  a  :\n    x = 1\nelif  b  :\n    y\nelse  :\n    z\n',
                'while  a :\n    x = 1\nelse :\n    y\n', 'for  i  in  j :\n    x = 1\nelse :\n    y\n', 'with  a  as  b ,  c :\n    x = 1\n', 'def  f ( a , b = 1 )  ->  r :\n    x = 1\n', 'class  C ( B , k = 1 ) :\n    x = 1\n',
                'match  a :\n    case  1  if  g :\n        x = 1\n    case  _ :\n        y\n', 'if x:\n    try  :\n        a\n    finally :\n        b\n    z\n', 'async def f():\n    async  with  a :\n        pass\n    async  for  i  in  j :\n        pass\n']
CONT_PROGS = ['a = 1 \\\n; b', 'if x:\n    a = 1 \\\n    ; b\n', 'a = 1; \\\n  b = 2\n', 'a = 1 \\\n  ; b \\\n  ; c\n', 'if x: a = 1 \\\n  ; b\n', 'a \\\n\nb\n', 'def f():\n    return 1 \\\n\n']
STMT_NEW = ['if x: a', 'x', 'def f(): pass', 'a = 1', 'a; w', 'pass  # c', 'while q: r', 'x = (\n  1)', 'x\n\ny', 'for i in j: k', '@d\ndef g(): pass']


def stage_targeted(ctx: Ctx, progs):
    """deterministic sweeps over the shapes random edits rarely hit: fragment (non-Module) roots, block headers with type comments, except <-> except*,
    new text that appends a clause (else / elif / except / finally) after the last statement of a block, statements joined by a line continuation and ';'"""
    import fst
    import re
    rng = ctx.rng
    # (1) fragment roots
    for mode, src in FRAGMENTS:
        try:
            root = fst.FST(src, mode)
        except Exception as e:
            ctx.broken.append({'kind': 'harness', 'name': 'fragment', 'detail': f'{mode} {src!r}: {e!r}'[:200]})
            continue
        locs = sorted({tuple(f.loc) for f in root.walk(True) if f.loc is not None and f.parent is not None})
        rects = list(locs) + [(l[0], l[1], l[0], l[1]) for l in locs] + [(l[2], l[3], l[2], l[3]) for l in locs]
        todo = [(r, n) for r in rects for n in FRAG_NEW]
        for rect, new in (todo if ctx.thorough else rng.sample(todo, min(len(todo), 40))):
            judge_edit(ctx, 'fragment', src, mode, rect, new)
    # (1b) fragment roots with comments / empty lines around the node: edits inside that leading / trailing trivia (the incremental path reparses the root statement alone)
    for mode, src in [('stmt', '#x\ny = 1'), ('stmt', '\n# x\nif a:\n  b\n# t\n'), ('stmt', '#x\n@d\ndef f(): pass  # t'), ('ExceptHandler', '#x\nexcept E: pass\n#t'), ('match_case', '\n#x\ncase 1: pass  # t\n'),
                      ('expr', '#x\n(a,\n b)  # t'), ('stmt', 'y = 1\n#x'), ('pattern', '# x\n[a, b]'), ('_decorator_list', '#x\n@a\n#y\n@b'), ('arguments', 'a,  # x\nb')]:
        try:
            root = fst.FST(src, mode)
        except Exception as e:
            ctx.broken.append({'kind': 'harness', 'name': 'fragment-trivia', 'detail': f'{mode} {src!r}: {e!r}'[:200]})
            continue
        ls = src.split('\n')
        rects = []
        for i, l in enumerate(ls):
            h = l.find('#')
            if h >= 0:
                rects += [(i, h, i, h + 1), (i, h, i, h), (i, h + 1, i, len(l)), (i, len(l), i, len(l))]
            elif not l.strip():
                rects += [(i, 0, i, 0)]
        rects += [(0, 0, 0, 0), (len(ls) - 1, len(ls[-1]), len(ls) - 1, len(ls[-1]))]
        for rect in sorted(set(rects)):
            for new in ('', 'z', 'z;', 'z\n', '#z\n', '\n', ' ', '\\\n', 'pass\n', '@q\n'):
                judge_edit(ctx, 'fragment-trivia', src, mode, rect, new)
    # (2) type comments
    for src in TC_PROGS:
        root = fst.FST(src, 'exec', type_comments=True)
        locs = sorted({tuple(f.loc) for f in root.walk(True) if f.loc is not None and f.parent is not None and isinstance(f.a, (ast.expr, ast.arg))})
        for rect in locs:
            for new in ('c', 'x.y', '(p, q)', ''):
                judge_edit(ctx, 'type-comment', src, 'exec', rect, new, {'type_comments': True}, {'type_comments': True})
    # (3) except <-> except*, (4) appended clauses
    for src in CLAUSE_PROGS + [p for p in progs if 'except' in p][:ctx.scale(4, 30)]:
        lines = src.split('\n')
        for i, l in enumerate(lines):
            m = re.match(r'\s*except(\*?)', l)
            if m:
                if m.group(1):
                    judge_edit(ctx, 'except-star', src, 'exec', (i, m.end(0) - 1, i, m.end(0)), '')
                else:
                    judge_edit(ctx, 'except-star', src, 'exec', (i, m.end(0), i, m.end(0)), '*')
        if src in CLAUSE_PROGS:
            root = fst.FST(src, 'exec')
            for f in root.walk(True):
                if isinstance(f.a, ast.stmt) and f.parent is not None and f.next() is None and not isinstance(f.a, (ast.FunctionDef, ast.ClassDef)):
                    _, _, eln, ecol = f.loc
                    par = f.parent
                    indents = {len(lines[eln]) - len(lines[eln].lstrip())}
                    while par is not None and par.loc is not None:
                        indents.add(len(lines[par.loc[0]]) - len(lines[par.loc[0]].lstrip()))
                        par = par.parent
                    for ind in sorted(indents):
                        for clause in ('else:', 'elif q:', 'except E:', 'except* E:', 'finally:', 'case _:'):
                            judge_edit(ctx, 'append-clause', src, 'exec', (eln, ecol, eln, ecol), f'\n{" " * ind}{clause}\n{" " * ind}    pass')
                            judge_edit(ctx, 'append-clause', src, 'exec', (eln, ecol, eln, ecol), f'\n{" " * ind}{clause} pass')
    # (4b) an edit that starts inside the header of a block / clause, runs to its end and re-states the rest of it followed by a new clause
    for src in CLAUSE_PROGS:
        root = fst.FST(src, 'exec')
        lines = src.split('\n')
        for f in root.walk(True):
            if isinstance(f.a, (ast.ExceptHandler, ast.match_case, ast.If, ast.For, ast.While, ast.Try, ast.With)) and f.loc is not None:
                ln, col, eln, ecol = f.loc
                m = re.match(r'\s*(except\*?|case|if|elif|for|while|try|with)', lines[ln][col:] if not lines[ln][:col].strip() else lines[ln][col:])
                if not m:
                    continue
                c0 = col + m.end(0)
                rest = '\n'.join([lines[ln][c0:]] + lines[ln + 1:eln] + [lines[eln][:ecol]]) if eln > ln else lines[ln][c0:ecol]
                ind = len(lines[ln]) - len(lines[ln].lstrip())
                for clause in ('finally:', 'else:', 'except Y:', 'except* Y:', 'case _:', 'elif q:'):
                    for body in ('\n' + ' ' * (ind + 4) + 'c', ' c', '\n' + ' ' * (ind + 4) + 'c\n' + ' ' * (ind + 4) + 'd'):
                        judge_edit(ctx, 'restate-and-append-clause', src, 'exec', (ln, c0, eln, ecol), rest + '\n' + ' ' * ind + clause + body)
    # (4c) edits that stay INSIDE a block header (keyword, blanks, the expressions before the colon): identical text, blanks added / removed, a continuation before the
    #      colon, and header text that brings a colon and a clause of its own
    for src in HEADER_PROGS:
        lines = src.split('\n')
        for ln, l in enumerate(lines):
            st = l.lstrip()
            if not st or not re.match(r'(async\s+)?(if|elif|else|for|while|try|except|finally|with|def|class|match|case)\b', st) or ':' not in l:
                continue
            colon = l.rindex(':') if not st.startswith(('def', 'class', 'async def')) else l.index(':', l.rindex(')') if ')' in l else 0)
            ind = len(l) - len(st)
            toks_ = [(m_.start(), m_.end()) for m_ in re.finditer(r'\w+|[^\w\s]', l[:colon])]
            for a_, b_ in toks_:
                judge_edit(ctx, 'header-edit', src, 'exec', (ln, a_, ln, b_), l[a_:b_])                 # the same text again
            for pos in sorted({ind, colon} | {b_ for _, b_ in toks_} | {a_ for a_, _ in toks_}):
                if pos > ind:
                    judge_edit(ctx, 'header-edit', src, 'exec', (ln, pos, ln, pos), ' ')
                    if l[pos - 1:pos] == ' ' and pos - 1 > ind and l[pos - 2:pos - 1] == ' ':
                        judge_edit(ctx, 'header-edit', src, 'exec', (ln, pos - 1, ln, pos), '')
            judge_edit(ctx, 'header-edit', src, 'exec', (ln, colon, ln, colon), ' \\\n' + ' ' * (ind + 2))
            # header text that closes the header itself and hides the rest of the line - the real colon, the scaffold of a header-only reparse - behind a comment
            for a_, b_ in toks_[-2:]:
                for tail in (': pass #', ': pass#', ':\n' + ' ' * (ind + 4) + 'pass #', ': x = 1  #'):
                    judge_edit(ctx, 'header-hides-colon', src, 'exec', (ln, a_, ln, b_), l[a_:b_] + tail)
            judge_edit(ctx, 'header-hides-colon', src, 'exec', (ln, colon, ln, colon), ': pass #')
        root = fst.FST(src, 'exec')
        for f in root.walk(True):
            if isinstance(f.a, ast.expr) and f.loc is not None and f.loc[0] == f.loc[2] and isinstance(f.parent.a, (ast.If, ast.While, ast.For, ast.With, ast.withitem, ast.ExceptHandler, ast.match_case, ast.Match)):
                ln_ = f.loc[0]
                ind = len(lines[ln_]) - len(lines[ln_].lstrip())
                for clause in ('else', 'elif b', 'finally', 'except E', 'case _'):
                    judge_edit(ctx, 'header-brings-clause', src, 'exec', tuple(f.loc), f'{f.src}: pass\n{" " * ind}{clause}')
    # (4d) the same on handler / case ROOTS (reparsed through their own wrappers): every header token replaced by itself, and by text that ends the header and brings
    #      statements of its own in front of the old body
    for mode, src in [('ExceptHandler', 'except Exc:\n    x = 1'), ('ExceptHandler', 'except  (A, B)  as  e :\n    x = 1\n    y\n'), ('ExceptHandler', 'except* Exc:\n    x = 1'), ('match_case', 'case abc:\n    x = 1'),
                      ('match_case', 'case [a, b] if c :\n    x = 1\n    y\n'), ('ExceptHandler', 'except:\n    x = 1'), ('match_case', 'case {"k": v} | None:\n    x = 1')]:
        l = src.split('\n')[0]
        colon = l.rindex(':')
        toks_ = [(m_.start(), m_.end()) for m_ in re.finditer(r'\w+|[^\w\s]', l[:colon])]
        for a_, b_ in toks_[1:]:
            judge_edit(ctx, 'root-header-edit', src, mode, (0, a_, 0, b_), l[a_:b_])
            judge_edit(ctx, 'root-header-brings-body', src, mode, (0, a_, 0, b_), l[a_:b_] + ':\n    foo()\n#')
            judge_edit(ctx, 'root-header-brings-body', src, mode, (0, a_, 0, colon), l[a_:b_] + ':\n    foo()\n    bar()\n#')
        judge_edit(ctx, 'root-header-edit', src, mode, (0, colon, 0, colon), ' ')
        judge_edit(ctx, 'root-header-brings-body', src, mode, (0, colon, 0, colon + 1), ':\n    foo()\n    if q:')
        judge_edit(ctx, 'root-header-brings-body', src, mode, (0, colon, 0, colon + 1), ': foo()\n    if q:')
    # (4e) negative columns count from the end of THEIR line: the edit is the one made with the positive coordinates, for rectangles over lines of different lengths
    for src in ['x = 1\ny = w = 2\nzzz = [a,\n b]\n', 'if a:\n    bb = 1\n    c = "é" + d\nq\n']:
        lines_ = src.split('\n')
        for ln in range(len(lines_) - 1):
            for eln in range(ln, len(lines_) - 1):
                for col in (0, 2, -1, -3, -len(lines_[ln])):
                    for ecol in (-1, -2, -4, -len(lines_[eln]), len(lines_[eln])):
                        pc = col if col >= 0 else len(lines_[ln]) + col
                        pe = ecol if ecol >= 0 else len(lines_[eln]) + ecol
                        if pc < 0 or pe < 0 or pc > len(lines_[ln]) or (ln, pc) > (eln, pe) or (col >= 0 and ecol >= 0):
                            continue
                        for new in ('', 'k', '\nk'):
                            outs = []
                            for c_, e_ in ((col, ecol), (pc, pe)):
                                r_ = fst.FST(src, 'exec')
                                try:
                                    r_.put_src(new, ln, c_, eln, e_, 'reparse')
                                    outs.append((r_.src, ast.dump(r_.a, include_attributes=True)))
                                except Exception as e:
                                    outs.append(('!' + type(e).__name__, r_.src))
                            ctx.tick(('neg-coords', src, ln, col, eln, ecol, new), 'raw:negative-coordinates')
                            if outs[0] != outs[1]:
                                ctx.violation('negative-coordinates', 'a raw edit given with negative columns is not the edit made with the same positions counted from the start of their lines',
                                              {'start_src': src, 'rect_negative': [ln, col, eln, ecol], 'rect_positive': [ln, pc, eln, pe], 'new': new, 'with_negative': outs[0][0][:200], 'with_positive': outs[1][0][:200]})
    # (4f) blanks put right at the first column of a statement that starts its own line inside a block: alone the statement would parse at the new column, in the block it is an
    #      indentation error - refused, nothing changed (or, where the new indentation is valid, applied like a from-scratch parse)
    for src in ['if x:\n    a\n    bc\n', 'def f():\n    x = 1\n    return x\nz\n', 'class K:\n    def m(self):\n        p\n        q\n    r = 1\n', 'for i in j:\n    if k:\n        l\n    m\nelse:\n    n\n    o\n']:
        t_ = ast.parse(src)
        for n_ in ast.walk(t_):
            if isinstance(n_, ast.stmt) and n_.lineno > 1 and n_.col_offset > 0:
                ln_, col_ = n_.lineno - 1, n_.col_offset
                for new in ('  ', ' ', '\t', '    '):
                    judge_edit(ctx, 'indent-at-statement-start', src, 'exec', (ln_, col_, ln_, col_), new)
                    judge_edit(ctx, 'indent-at-statement-start', src, 'exec', (ln_, col_, ln_, col_ + 1), new + src.split('\n')[ln_][col_])
                if col_ >= 2:
                    judge_edit(ctx, 'indent-at-statement-start', src, 'exec', (ln_, col_ - 1, ln_, col_), '')
    # (5) line continuations and semicolons
    for src in CONT_PROGS:
        root = fst.FST(src, 'exec')
        for f in root.walk(True):
            if isinstance(f.a, (ast.stmt, ast.expr)) and f.parent is not None and f.loc is not None:
                for new in STMT_NEW:
                    judge_edit(ctx, 'continuation', src, 'exec', tuple(f.loc), new)


SC_HDR = ('From Coq Require Import List Bool Arith NArith.\nFrom PF Require Import kernel.PyBase kernel.Text models.Scaffold.\nImport ListNotations.\n'
          "Fixpoint ln_eqb (a b : list N) : bool := match a, b with [], [] => true | x :: a', y :: b' => N.eqb x y && ln_eqb a' b' | _, _ => false end.\n"
          "Fixpoint txt_eqb (a b : list (list N)) : bool := match a, b with [], [] => true | x :: a', y :: b' => ln_eqb x y && txt_eqb a' b' | _, _ => false end.\n")


class ScaffoldRecorder:
    """records every statement-level reparse (fst_raw._reparse_raw_base called with scaffold=True) of a statement that starts at column 0: the live source, the copy the
    statement is reparsed in and the edit - for the correspondence with models/Scaffold.v and the hypothesis `pln <= ln` of its theorem"""
    def __init__(self, budget):
        self.budget, self.terms, self.meta, self.seen = budget, [], [], set()

    def __enter__(self):
        import fst.fst_raw as fr
        self.fr, self.orig = fr, fr._reparse_raw_base
        rec = self

        def wrapper(self_, new_lines, ln, col, end_ln, end_col, copy_lines, path, set_ast=True, mode=None, first_lineno=0, first_line_col_delta=0, scaffold=False):
            try:
                if scaffold and set_ast and len(rec.terms) < rec.budget:   # set_ast False = only the block header is reparsed, behind a synthetic body
                    pln, pcol = self_.bloc[:2]
                    L = [str(l) for l in self_.root._lines]
                    C = [str(l) for l in copy_lines]
                    key = (tuple(L), tuple(C), ln, col, end_ln, end_col)
                    if pcol == 0 and pln and C[:pln] == [''] * pln and key not in rec.seen and sum(map(len, L)) < 400:
                        rec.seen.add(key)
                        is_root = self_ is self_.root
                        t = f'Nat.leb {pln} {ln}'
                        if is_root:   # the kept part reaches the end of the source: the copy is exactly the scaffold, and after the edit the scaffold of the new source
                            t += (f' && txt_eqb (scaffold {clines(L)} {pln}) {clines(C)}'
                                  f' && txt_eqb (put_spec (scaffold {clines(L)} {pln}) {clines(new_lines)} {ln} {col} {end_ln} {end_col}) (scaffold (put_spec {clines(L)} {clines(new_lines)} {ln} {col} {end_ln} {end_col}) {pln})')
                        else:         # the kept part ends with the statement: the copy is a prefix of the scaffold (its last line cut at the statement's end)
                            t += f' && txt_eqb (firstn {len(C) - 1} (scaffold {clines(L)} {pln})) {clines(C[:-1])}'
                        rec.terms.append(t)
                        rec.meta.append({'src': '\n'.join(L), 'copy': '\n'.join(C), 'rect': [ln, col, end_ln, end_col], 'new': '\n'.join(new_lines), 'first_kept_line': pln, 'root_statement': is_root})
            except Exception as e:
                rec.meta.append({'recorder-error': repr(e)[:200]})
            return rec.orig(self_, new_lines, ln, col, end_ln, end_col, copy_lines, path, set_ast, mode, first_lineno, first_line_col_delta, scaffold)
        fr._reparse_raw_base = wrapper
        return self

    def __exit__(self, *a):
        self.fr._reparse_raw_base = self.orig


def run(ctx: Ctx):
    ctx.rule = ('random sequences (1..5 quick / 1..14 thorough steps) on corpus + generated programs of: put_src(new, rect, "reparse") on the root or a random node with rectangles '
                'on node boundaries, off them, spanning statements/blocks, or random; node.replace(text, raw=True); reparse(). new text: fixed hostile list (valid, invalid, '
                'indentation-changing, statement-merging/splitting), pieces and whole lines of the program. After each step: raised => source and ast.dump(with positions) '
                'identical to before, and the spliced source must not be a valid module; returned => source == text splice, ast.parse(source) == live tree incl. all positions; '
                'root object identity. Effect-order table of fst_raw.py regenerated and checked in Coq. distinct = (source, how, rectangle, text).')
    ctx.assumptions += ['CPython ast.parse decides validity for a Module root', 'an exception inside FST._put_src / _set_ast themselves is outside the model (C11 / C12)']
    ok = stage_translate(ctx)
    if ok:
        ctx.build_props()
    progs = corpus(ctx.rng, gen=ctx.scale(25, 200))
    progs = [p for p in progs if len(p) < 1500]
    with ScaffoldRecorder(ctx.scale(300, 3000)) as rec:
        run_guarded(ctx, stage_targeted, progs)
        run_guarded(ctx, stage_oracle, progs)
        run_guarded(ctx, stage_keywords, progs)
    if ok:
        try:
            failed = coq_eval_bools('C10_scaffold', SC_HDR, rec.terms, shard=100)
            ctx.correspondence('models/Scaffold.v scaffold == the copy in which fst_raw reparses a column-0 statement alone (every recorded _reparse_raw_base(scaffold=True) call), '
                               'the edit starts at or below its first kept line, and for a root statement the copy after the edit is the scaffold of the new source',
                               len(rec.terms), [rec.meta[i] for i in failed])
            ctx.extra['scaffold_calls_recorded'] = {'total': len(rec.terms), 'root_statement': sum(1 for m in rec.meta if m.get('root_statement'))}
        except CoqEvalError as e:
            ctx.broken.append({'kind': 'correspondence', 'name': 'scaffold', 'detail': str(e)[:2000]})


def replay(path):
    d = json.load(open(path))
    print(json.dumps(d, indent=1)[:6000])
    return 0
