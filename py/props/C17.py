"""C17 - Matching depends only on structure; quantifiers behave like regular expressions."""

from __future__ import annotations

import ast
import itertools
import json
import re

from lib.common import *
from lib.progs import corpus, relayout
from props.C11 import stage_translate

LEVEL = 'proof'
HDR = ('From Coq Require Import List Bool Arith.\nFrom PF Require Import models.Match.\nImport ListNotations.\n'
       'Fixpoint ln_eqb (a b : list nat) : bool := match a, b with [], [] => true | x :: a\', y :: b\' => Nat.eqb x y && ln_eqb a\' b\' | _, _ => false end.\n'
       'Definition oln_eqb (a b : option (list nat)) : bool := match a, b with None, None => true | Some x, Some y => ln_eqb x y | _, _ => false end.\n')

LETTERS = 'abc'


def item_kinds():
    """(coq, python-pattern-factory, regex) for every item kind of the exhaustive family"""
    out = []
    for ch in 'ab':
        out.append(('elem', ch))
    out.append(('elem', '.'))
    for sub in ('a', '.', 'ab'):
        for (mn, mx) in ((0, None), (1, None), (0, 1), (1, 2)):
            for greedy in (True, False):
                out.append(('q', sub, mn, mx, greedy))
    return out


def to_coq(it):
    ep = lambda ch: 'EAny' if ch == '.' else f'ELit {LETTERS.index(ch)}'
    if it[0] == 'elem':
        return f'IElem ({ep(it[1])})'
    _, sub, mn, mx, g = it
    return f'IQ {mn} {copt(mx, str)} {cbool(g)} [{"; ".join(ep(c) for c in sub)}]'


def to_regex(items):
    s = ''
    for it in items:
        if it[0] == 'elem':
            s += it[1]
        else:
            _, sub, mn, mx, g = it
            q = {(0, None): '*', (1, None): '+', (0, 1): '?', (1, 2): '{1,2}'}[(mn, mx)]
            s += f'((?:{sub}){q}{"" if g else "?"})'
    return s


def to_pat(items):
    from fst.match import MName, MQ, MList
    out = []
    k = 0
    ep = lambda ch: ... if ch == '.' else MName(ch)
    for it in items:
        if it[0] == 'elem':
            out.append(ep(it[1]))
        else:
            _, sub, mn, mx, g = it
            inner = ep(sub) if len(sub) == 1 else [ep(c) for c in sub]
            cls = MQ if g else MQ.NG
            out.append(cls(min=mn, max=mx, **{f'q{k}': inner}))
            k += 1
    return MList(elts=out)


def stage_quantifiers(ctx: Ctx):
    """exhaustive family (thorough) / sample (quick): model vs real vs re.fullmatch: accept/reject and repetition counts"""
    import fst
    rng = ctx.rng
    kinds = item_kinds()
    seqs = [(a,) for a in kinds] + [(a, b) for a in kinds for b in kinds]
    if ctx.thorough:
        seqs += [tuple(rng.choice(kinds) for _ in range(3)) for _ in range(6000)]
    else:
        seqs = rng.sample(seqs, 450) + [tuple(rng.choice(kinds) for _ in range(3)) for _ in range(250)]
    targets = [''.join(t) for n in range(0, 6 if ctx.thorough else 5) for t in itertools.product(LETTERS, repeat=n)]
    terms, meta = [], []
    trees = {t: fst.FST('[' + ', '.join(t) + ']', 'expr') for t in targets}
    for items in seqs:
        pat = to_pat(items)
        rx = re.compile(to_regex(items))
        nq = sum(1 for it in items if it[0] == 'q')
        tg = targets if ctx.thorough else rng.sample(targets, 40)
        for t in tg:
            m = pat.match(trees[t])
            rm = rx.fullmatch(t)
            desc = {'pattern': [list(map(str, it)) for it in items], 'regex': rx.pattern, 'target': t}
            ctx.tick((rx.pattern, t), 'quant:' + ('accept' if rm else 'reject'))
            if (m is None) != (rm is None):
                ctx.violation(f'quant-accept|{rx.pattern}|{t}', 'quantified list pattern accepts/rejects differently from the corresponding regular expression',
                              {**desc, 'fst_matches': m is not None, 're_matches': rm is not None})
                continue
            counts = None
            if m is not None:
                counts = []
                for k, it in enumerate([it for it in items if it[0] == 'q']):
                    counts.append(len(m.tags[f'q{k}']))
                rcounts = [len(rm.group(k + 1)) // len([it for it in items if it[0] == 'q'][k][1]) for k in range(nq)]
                if counts != rcounts:
                    ctx.violation(f'quant-capture|{rx.pattern}|{t}', 'quantifier captures differ from the regular expression (backtracking priority)',
                                  {**desc, 'fst_counts': counts, 're_counts': rcounts})
                    continue
            exp = 'None' if counts is None else f'(Some [{"; ".join(map(str, counts))}])'
            terms.append(f'oln_eqb (match_items [{"; ".join(to_coq(it) for it in items)}] false [{"; ".join(str(LETTERS.index(c)) for c in t)}]) {exp}')
            meta.append({**desc, 'real_counts': counts})
    ctx.sample({'quantifier_case': meta[len(meta) // 3]})
    failed = coq_eval_bools('C17_q', HDR, terms, shard=3000)
    ctx.correspondence('models/Match.v match_items == real list matching (accept/reject + repetition counts) on the pattern-sequence x element-sequence family',
                       len(terms), [meta[i] for i in failed])


def stage_backrefs(ctx: Ctx):
    """capturing elements and back-references (MTAG), flat and inside quantified sub-lists, vs re.fullmatch (accept/reject)"""
    import fst
    from fst.match import M, MTAG, MQ, MName, MList
    rng = ctx.rng
    targets = [''.join(t) for n in range(0, 7) for t in itertools.product('ab', repeat=n)]
    trees = {t: fst.FST('[' + ', '.join(t) + ']', 'expr') for t in targets}
    ep = lambda ch: ... if ch == '.' else MName(ch)
    fams = []
    for pre in ('', 'a', '.'):
        for suf in ('', 'b', '.'):
            for (mn, mx, q) in ((0, None, '*'), (1, None, '+'), (0, 1, '?'), (1, 2, '{1,2}'), (0, 2, '{0,2}')):
                for greedy in (True, False):
                    for tagged in (False, True):
                        def mk(pre=pre, suf=suf, mn=mn, mx=mx, greedy=greedy, tagged=tagged):
                            cls = MQ if greedy else MQ.NG
                            inner = [M(t=...), MTAG('t')]
                            qq = cls(min=mn, max=mx, g=inner) if tagged else cls(inner, min=mn, max=mx)
                            return MList(elts=[ep(c) for c in pre] + [qq] + [ep(c) for c in suf])
                        fams.append((f'{pre}(?:(.)\\1){q}{"" if greedy else "?"}{suf}', mk))
    fams.append(('(.)\\1', lambda: MList(elts=[M(t=...), MTAG('t')])))
    fams.append(('(.)(.)\\2\\1', lambda: MList(elts=[M(t=...), M(u=...), MTAG('u'), MTAG('t')])))
    fams.append(('(.)(?:.)*\\1', lambda: MList(elts=[M(t=...), MQ(..., min=0, max=None), MTAG('t')])))
    fams.append(('(.)(?:\\1)*b', lambda: MList(elts=[M(t=...), MQ(MTAG('t'), min=0, max=None), MName('b')])))
    # a capture under a first quantifier, another quantifier, then the back-reference: the same rest of the pattern is reached again at the same element with another binding
    for (mn1, mx1, q1), (mn2, mx2, q2) in itertools.product(((0, None, '*'), (1, None, '+'), (0, 2, '{0,2}'), (1, 3, '{1,3}')), ((0, None, '*'), (0, 1, '?'), (1, None, '+'), (0, 2, '{0,2}'))):
        for g1, g2 in itertools.product((True, False), repeat=2):
            def mk2(mn1=mn1, mx1=mx1, mn2=mn2, mx2=mx2, g1=g1, g2=g2):
                c1, c2 = (MQ if g1 else MQ.NG), (MQ if g2 else MQ.NG)
                return MList(elts=[c1(M(x=...), min=mn1, max=mx1), c2(..., min=mn2, max=mx2), MTAG('x')])
            fams.append((f'(?:(.)){q1}{"" if g1 else "?"}.{q2}{"" if g2 else "?"}\\1', mk2))
            def mk3(mn1=mn1, mx1=mx1, mn2=mn2, mx2=mx2, g1=g1, g2=g2):
                c1, c2 = (MQ if g1 else MQ.NG), (MQ if g2 else MQ.NG)
                return MList(elts=[c1([M(x=...), ...], min=mn1, max=mx1), c2(MName('a'), min=mn2, max=mx2), MTAG('x'), MQ(..., min=0, max=1)])
            fams.append((f'(?:(.).){q1}{"" if g1 else "?"}a{q2}{"" if g2 else "?"}\\1.?', mk3))
    n_tail = 4 + 4 * 4 * 4 * 2
    if not ctx.thorough:
        fams = rng.sample(fams[:-n_tail], 40) + fams[-n_tail:-n_tail + 4] + rng.sample(fams[-n_tail + 4:], 40)
    for rxs, mk in fams:
        rxs = rxs.replace('\\\\', '\\')
        try:
            pat = mk()
        except Exception as e:
            ctx.broken.append({'kind': 'harness', 'name': 'stage_backrefs', 'detail': f'{rxs}: {e!r}'})
            continue
        rx = re.compile(rxs)
        for t in (targets if ctx.thorough else rng.sample(targets, 70)):
            try:
                m = pat.match(trees[t])
            except Exception as e:
                ctx.violation(f'backref-raise|{rxs}', 'matching raised', {'regex': rxs, 'target': t, 'error': repr(e)})
                break
            rm = rx.fullmatch(t)
            ctx.tick(('backref', rxs, t), 'backref:' + ('accept' if rm else 'reject'))
            if (m is None) != (rm is None):
                ctx.violation(f'backref-accept|{rxs}', 'pattern with back-reference accepts/rejects differently from the corresponding regular expression',
                              {'regex': rxs, 'target': t, 'fst_matches': m is not None, 're_matches': rm is not None})
                break


def stage_captures(ctx: Ctx):
    """what a match REPORTS: captures made inside a quantifier (last repetition wins, as a regex group), captures behind it, static tags on the quantifier,
    the per-repetition list of a tagged quantifier - after the greedy / lazy quantifier had to give back or take more; vs re groups"""
    import fst
    from fst.match import M, MTAG, MQ, MName, MList
    rng = ctx.rng
    targets = [''.join(t) for n in range(0, 6) for t in itertools.product('ab', repeat=n)]
    trees = {t: fst.FST('[' + ', '.join(t) + ']', 'expr') for t in targets}
    fams = []
    for (mn, mx, q) in ((0, None, '*'), (1, None, '+'), (0, 1, '?'), (1, 2, '{1,2}'), (0, 2, '{0,2}')):
        for greedy in (True, False):
            for static in (False, True):
                for reptag in (False, True):
                    for suf, sufrx, ngroups in (('y', '(.)', 1), ('b', 'b', 0), ('yz', '(.)(.)', 2), ('x', '\\1', 0), ('', '', 0)):
                        if suf == 'x' and reptag:
                            continue        # captures of a tagged quantifier live in its list, not at top level
                        def mk(mn=mn, mx=mx, greedy=greedy, static=static, reptag=reptag, suf=suf):
                            cls = MQ if greedy else MQ.NG
                            kw = {'st': True} if static else {}
                            qq = cls(min=mn, max=mx, r=M(x=...), **kw) if reptag else cls(M(x=...), min=mn, max=mx, **kw)
                            tail = {'y': [M(y=...)], 'b': [MName('b')], 'yz': [M(y=...), M(z=...)], 'x': [MTAG('x')], '': []}[suf]
                            return MList(elts=[qq] + tail)
                        fams.append((f'(?:(.)){q}{"" if greedy else "?"}{sufrx}', mk, static, reptag, suf, ngroups))
    if not ctx.thorough:
        fams = rng.sample(fams, 60)
    for rxs, mk, static, reptag, suf, ngroups in fams:
        rx = re.compile(rxs)
        for t in (targets if ctx.thorough else rng.sample(targets, 40)):
            try:
                m = mk().match(trees[t])
            except Exception as e:
                ctx.violation(f'capture-raise|{rxs}', 'matching raised', {'regex': rxs, 'target': t, 'error': repr(e)})
                break
            rm = rx.fullmatch(t)
            ctx.tick(('capture', rxs, static, reptag, t), 'capture:' + ('accept' if rm else 'reject'))
            if (m is None) != (rm is None):
                ctx.violation(f'capture-accept|{rxs}', 'accepts/rejects differently from the corresponding regular expression', {'regex': rxs, 'target': t, 'fst_matches': m is not None})
                break
            if m is None:
                continue
            nrep = len(t) - {'y': 1, 'b': 1, 'yz': 2, 'x': 1, '': 0}[suf]
            want = {}
            if reptag:
                want['r'] = list(t[:nrep])
            elif rm.group(1) is not None:
                want['x'] = rm.group(1)
            if static:
                want['st'] = True
            for k, g in zip('yz', range(2, 2 + ngroups)):
                want[k] = rm.group(g)
            got = {}
            for k, v in m.tags.items():
                got[k] = [getattr(d.get('x'), 'src', None) if hasattr(d, 'get') else repr(d) for d in v] if isinstance(v, list) else v.src if hasattr(v, 'src') else v
            if got != want:
                ctx.violation(f'capture-tags|{"static" if static else "plain"}|{"reptag" if reptag else "notag"}|{"greedy" if "?" != rxs[len("(?:(.))") + len(rxs[7:8]):][:1] else "lazy"}',
                              'the tags reported by a match differ from the groups of the corresponding regular expression (captures of the last repetition, captures behind the quantifier, static tags)',
                              {'regex': rxs, 'target': t, 'static_tags_on_quantifier': static, 'repetition_tag': reptag, 'tags': {k: repr(v) for k, v in got.items()}, 'expected': {k: repr(v) for k, v in want.items()}})
                break


# ---- nested quantifiers (atomic repetitions) ---------------------------------------------------------------------------

NHDR = ('From Coq Require Import List Bool Arith.\nFrom PF Require Import models.Match models.MatchNested.\nImport ListNotations.\n'
        'Fixpoint ln_eqb (a b : list nat) : bool := match a, b with [], [] => true | x :: a\', y :: b\' => Nat.eqb x y && ln_eqb a\' b\' | _, _ => false end.\n'
        'Fixpoint lln_eqb (a b : list (list nat)) : bool := match a, b with [], [] => true | x :: a\', y :: b\' => ln_eqb x y && lln_eqb a\' b\' | _, _ => false end.\n'
        'Definition olln_eqb (a b : option (list (list nat))) : bool := match a, b with None, None => true | Some x, Some y => lln_eqb x y | _, _ => false end.\n'
        'Definition run (items : list nitem) (tgt : list nat) := option_map fst (nmatch items false tgt).\n')
NQS = ((0, None), (1, None), (0, 1), (1, 2), (0, 2), (2, 3))


def gen_nitems(rng, depth, n):
    out = []
    for _ in range(n):
        if depth and rng.random() < 0.55:
            mn, mx = rng.choice(NQS)
            out.append(('q', mn, mx, rng.random() < 0.5, gen_nitems(rng, depth - 1, rng.choice((1, 1, 2, 3)))))
        else:
            out.append(('e', rng.choice('ab.')))
    return out


def n_coq(items):
    ep = lambda ch: 'EAny' if ch == '.' else f'ELit {LETTERS.index(ch)}'
    return '[' + '; '.join(f'NElem ({ep(it[1])})' if it[0] == 'e' else f'NQ {it[1]} {copt(it[2], str)} {cbool(it[3])} {n_coq(it[4])}' for it in items) + ']'


def n_regex(items, top=True):
    s = ''
    for it in items:
        if it[0] == 'e':
            s += it[1]
        else:
            _, mn, mx, g, sub = it
            body = f'(?:(?>{n_regex(sub, False)})){{{mn},{"" if mx is None else mx}}}{"" if g else "?"}'
            s += f'({body})' if top else body
    return s


def n_pat(items, top=True):
    from fst.match import MName, MQ
    out, k = [], 0
    for it in items:
        if it[0] == 'e':
            out.append(... if it[1] == '.' else MName(it[1]))
        else:
            _, mn, mx, g, sub = it
            cls = MQ if g else MQ.NG
            inner = n_pat(sub, False)
            if len(sub) == 1 and sub[0][0] == 'e' and k % 2:
                inner = inner[0]           # a single element pattern may be given without the list
            out.append(cls(min=mn, max=mx, **{f'q{k}': inner}) if top else cls(inner, min=mn, max=mx))
            k += 1
    return out


def n_wf(items):
    def min_len(it):
        return 1 if it[0] == 'e' else it[1] * sum(map(min_len, it[4]))
    return all(it[0] == 'e' or ((it[1] <= it[2] if it[2] is not None else sum(map(min_len, it[4])) > 0) and n_wf(it[4])) for it in items)


def stage_nested(ctx: Ctx):
    """quantifiers whose repeated sub-list contains quantifiers: real matcher vs the regular expression in which every repetition is an ATOMIC group
    (the documented "backtracking doesn't mix with the parent quantifier") and vs models/MatchNested.v (accept/reject + the length of every repetition
    of every top-level quantifier); the constructor's refusal of unbounded possibly-empty sub-lists vs wf_items."""
    import fst
    from fst.match import MList
    rng = ctx.rng
    targets = [''.join(t) for n in range(0, 7) for t in itertools.product('ab', repeat=n)]
    trees = {t: fst.FST('[' + ', '.join(t) + ']', 'expr') for t in targets}
    terms, meta, wterms, wmeta = [], [], [], []
    # deterministic first: repetitions that may be EMPTY (a sub-list of optional items) under a quantifier with a minimum: the minimum counts repetitions, not elements
    forced = []
    for (mn, mx) in ((1, None), (1, 2), (2, 3), (3, 3), (2, 2), (0, 2)):
        for g in (True, False):
            for sub in ([('q', 0, 1, True, [('e', 'a')])], [('q', 0, 1, True, [('e', 'a')]), ('q', 0, 1, False, [('e', 'b')])], [('q', 0, 2, True, [('e', 'a')])],
                        [('q', 0, 1, True, [('e', 'a'), ('e', 'b')])], [('q', 0, 1, True, [('e', '.')]), ('q', 0, 1, True, [('e', 'a')])]):
                for tail in ([], [('e', 'b')], [('e', 'a')]):
                    forced.append([('q', mn, mx, g, sub)] + tail)
                    forced.append(tail + [('q', mn, mx, g, sub)])
    for it_no in range(len(forced) + ctx.scale(260, 4000)):
        items = forced[it_no] if it_no < len(forced) else gen_nitems(rng, rng.choice((1, 2, 2, 3)), rng.choice((1, 2, 3)))
        if it_no >= len(forced) and not any(it[0] == 'q' and any(s[0] == 'q' for s in it[4]) for it in items) and rng.random() < 0.7:
            continue
        desc = {'pattern': items}
        try:
            pat = MList(elts=n_pat(items))
            built = True
        except ValueError as e:
            built = False
        wterms.append(f'Bool.eqb (wf_items {n_coq(items)}) {cbool(built)}')
        wmeta.append({**desc, 'constructor_accepts': built})
        if built != n_wf(items):
            ctx.violation('quant-constructor', 'the MQ constructor accepts / refuses a nested quantifier differently from "min <= max and an unbounded repetition cannot be empty"',
                          {**desc, 'constructor_accepts': built})
            continue
        if not built:
            continue
        rxs = n_regex(items)
        rx = re.compile(rxs)
        tops = [it for it in items if it[0] == 'q']
        for t in (targets if ctx.thorough else rng.sample(targets, 24)):
            try:
                m = pat.match(trees[t])
            except Exception as e:
                ctx.violation(f'nested-raise|{type(e).__name__}', 'matching raised', {**desc, 'target': t, 'error': repr(e)[:200]})
                break
            rm = rx.fullmatch(t)
            ctx.tick((rxs, t), 'nested:' + ('accept' if rm else 'reject'))
            d = {**desc, 'regex': rxs, 'target': t}
            if (m is None) != (rm is None):
                ctx.violation(f'nested-accept|{rxs}|{t}', 'nested quantifier pattern accepts/rejects differently from the regular expression with atomic repetitions',
                              {**d, 'fst_matches': m is not None, 're_matches': rm is not None})
                break
            lens = None
            if m is not None:
                lens = [[len(x.matched) if isinstance(x.matched, list) else 1 for x in m.tags[f'q{k}']] for k in range(len(tops))]
                rtot = [len(rm.group(k + 1)) for k in range(len(tops))]
                if [sum(l) for l in lens] != rtot:
                    ctx.violation(f'nested-capture|{rxs}|{t}', 'what the top-level quantifiers consumed differs from the regular expression (priority of alternatives)',
                                  {**d, 'fst_lens': lens, 're_totals': rtot})
                    break
            exp = 'None' if lens is None else '(Some [' + '; '.join('[' + '; '.join(map(str, l)) + ']' for l in lens) + '])'
            terms.append(f'olln_eqb (run {n_coq(items)} [{"; ".join(str(LETTERS.index(c)) for c in t)}]) {exp}')
            meta.append({**d, 'real_lens': lens})
    if meta:
        ctx.sample({'nested_quantifier_case': meta[len(meta) // 2]})
    failed = coq_eval_bools('C17_n', NHDR, terms, shard=3000)
    ctx.correspondence('models/MatchNested.v nmatch == real list matching with nested quantifiers (accept/reject + length of every repetition of every top-level quantifier)',
                       len(terms), [meta[i] for i in failed])
    failed = coq_eval_bools('C17_w', NHDR, wterms, shard=3000)
    ctx.correspondence('models/MatchNested.v wf_items == the MQ constructor accepting the nested pattern', len(wterms), [wmeta[i] for i in failed])


# ---- search / structure ------------------------------------------------------------------------------------------------

def pattern_pool():
    from fst.match import M, MNOT, MOR, MAND, MTYPES, MName, MConstant, MCall, MBinOp, MAttribute, MAssign, MIf
    return [
        ('Name', lambda: ast.Name), ('MName(a)', lambda: MName('a')), ('NOT(MName(a))', lambda: MNOT(MName('a'))),
        ('NOT(Name)', lambda: MNOT(ast.Name)), ('NOT(NOT(MName(a)))', lambda: MNOT(MNOT(MName('a')))),
        ('OR(Name,Constant)', lambda: MOR(ast.Name, ast.Constant)), ('OR(MName(a),NOT(Call))', lambda: MOR(MName('a'), MNOT(ast.Call))),
        ('AND(Name,NOT(MName(b)))', lambda: MAND(ast.Name, MNOT(MName('b')))), ('AND(NOT(Name),NOT(Constant))', lambda: MAND(MNOT(ast.Name), MNOT(ast.Constant))),
        ('MTYPES(Name,Call)', lambda: MTYPES((ast.Name, ast.Call))), ('NOT(MTYPES(Name,Call))', lambda: MNOT(MTYPES((ast.Name, ast.Call)))),
        ('NOT(MTYPES(Name, id=a))', lambda: MNOT(MTYPES((ast.Name,), id='a'))), ('M(tag=NOT(MConstant(1)))', lambda: M(t=MNOT(MConstant(1)))),
        ('MCall(func=NOT(MName(f)))', lambda: MCall(func=MNOT(MName('f')))), ('NOT(MBinOp)', lambda: MNOT(MBinOp())),
        ('OR(NOT(MAttribute(attr=b)),If)', lambda: MOR(MNOT(MAttribute(attr='b')), ast.If)), ('...', lambda: ...),
        ('NOT(OR(Name,MConstant(1)))', lambda: MNOT(MOR(ast.Name, MConstant(1)))), ('expr', lambda: ast.expr), ('NOT(stmt)', lambda: MNOT(ast.stmt)),
        # expression contexts as patterns (without ctx=True every context matches every context pattern) and primitive types (valid patterns no node is an instance of)
        ('Load()', lambda: ast.Load()), ('Store()', lambda: ast.Store()), ('expr_context', lambda: ast.expr_context), ('OR(Load(),Name)', lambda: MOR(ast.Load(), ast.Name)), ('NOT(Load())', lambda: MNOT(ast.Load())),
        ('str', lambda: str), ('OR(str,Name)', lambda: MOR(str, ast.Name)), ('NOT(str)', lambda: MNOT(str)), ('AND(int,Name)', lambda: MAND(int, ast.Name)), ('MTYPES(Load,Store)', lambda: MTYPES((ast.Load, ast.Store))),
    ]


def stage_search(ctx: Ctx, progs):
    import fst
    rng = ctx.rng
    pool = pattern_pool()
    for pi, src in enumerate(progs):
        root = fst.FST(src, 'exec')
        for name, mk in (pool if ctx.thorough else rng.sample(pool[:-10], 8) + (pool[-10:] if pi < 3 else rng.sample(pool[-10:], 2))):
            pat = mk()
            try:
                got = [m.matched for m in root.search(pat, nested=True)]
            except Exception as e:
                ctx.violation(f'search-raise|{name}', 'search() raised', {'src': src, 'pattern': name, 'error': repr(e)})
                continue
            want = [f for f in root.walk(True) if f.match(pat) is not None]
            ctx.tick((pi, name), 'search')
            if [id(x) for x in got] != [id(x) for x in want]:
                missed = [x for x in want if id(x) not in {id(y) for y in got}]
                extra = [x for x in got if id(x) not in {id(y) for y in want}]
                ctx.violation(f'search-filter|{name}', 'search(pattern) does not yield exactly the nodes, in walk order, that match(pattern) accepts',
                              {'src': src, 'pattern': name, 'missed': [(type(x.a).__name__, x.src[:30]) for x in missed[:4]],
                               'extra': [(type(x.a).__name__, x.src[:30]) for x in extra[:4]], 'n_search': len(got), 'n_filter': len(want)})


def stage_search_ctx(ctx: Ctx, progs):
    """search(pattern, ctx=True) == the walk filtered by match(pattern, ctx=True): AST patterns that carry a concrete expression context, built from the names of the program"""
    import fst
    rng = ctx.rng
    extra = ['i = 0\nfor i in i: del i\nprint(i)\n', 'a.b = a.b\ndel a.b\nx[k] = x[k]\ndel x[k]\n', '(p, q) = [p, q] = p, q\n']
    for pi, src in enumerate(extra + list(progs)):
        root = fst.FST(src, 'exec')
        names = sorted({f.a.id for f in root.walk(ast.Name)})
        for nm in (names if pi < len(extra) else rng.sample(names, min(len(names), 3))):
            for cx in (ast.Load, ast.Store, ast.Del):
                for use_ctx in (True, False):
                    pats = [('Name', lambda: ast.Name(id=nm, ctx=cx())), ('Attribute', lambda: ast.Attribute(value=ast.Name(id=nm, ctx=ast.Load()), attr='b', ctx=cx())),
                            ('Tuple', lambda: ast.Tuple(elts=[ast.Name(id=nm, ctx=cx()), ast.Name(id='q', ctx=cx())], ctx=cx()))]
                    for pname, mk in (pats if pi < len(extra) else pats[:1]):
                        try:
                            got = [m.matched for m in root.search(mk(), nested=True, ctx=use_ctx)]
                            want = [f for f in root.walk(True) if f.match(mk(), ctx=use_ctx) is not None]
                        except Exception as e:
                            ctx.violation(f'search-ctx-raise|{type(e).__name__}', 'search() / match() with ctx raised', {'src': src, 'pattern': f'{pname}({nm!r}, {cx.__name__}())', 'ctx': use_ctx, 'error': repr(e)[:200]})
                            continue
                        ctx.tick(('search-ctx', src, nm, cx.__name__, use_ctx, pname), 'search:ctx=' + str(use_ctx))
                        if [id(x) for x in got] != [id(x) for x in want]:
                            ctx.violation(f'search-filter|ctx={use_ctx}|{pname}', 'search(pattern, ctx=) does not yield exactly the nodes, in walk order, that match(pattern, ctx=) accepts',
                                          {'src': src, 'pattern': f'{pname}({nm!r}, {cx.__name__}())', 'ctx': use_ctx, 'search': [(x.src, type(x.a.ctx).__name__) for x in got][:8],
                                           'match_filter': [(x.src, type(x.a.ctx).__name__) for x in want][:8]})


SEARCH_MODE_PROGS = ['x = (a + b) * (c + d)\ny = f(g(1), 2)\n', 'r = f(f(a, b), f(c))(f)\n', 'v = [[a, b], [[c], d], []]\n', 'if a + b:\n    if c + (d + e):\n        z = p + q\n',
                     'w = a.b.c(d.e).f\n', 'def f(a=g(h(1))):\n    return f(f)\n']


def stage_search_modes(ctx: Ctx, progs):
    """search(pattern, on=, back=) == walk(on=, back=) filtered by match(pattern), event by event (entering and leaving), every yielded match carrying the tags match() gives
    for THAT node: patterns whose candidates nest in each other with different outcomes and different captures"""
    import fst
    from fst.match import M, MNOT, MOR, MName, MCall, MBinOp, MList, MAttribute, MQSTAR
    pats = [('MBinOp(left=M(l=Name), right=Name)', lambda: MBinOp(left=M(l=ast.Name), right=ast.Name)), ('MCall(func=M(fn=MName(f)))', lambda: MCall(func=M(fn=MName('f')))),
            ('M(n=MBinOp)', lambda: M(n=MBinOp())), ('MCall(args=[M(first=...), MQSTAR])', lambda: MCall(args=[M(first=...), MQSTAR])), ('MList(elts=[M(e=...), MQSTAR])', lambda: MList(elts=[M(e=...), MQSTAR])),
            ('MOR(M(c=Call), M(a=Attribute))', lambda: MOR(M(c=ast.Call), M(a=ast.Attribute))), ('M(x=expr)', lambda: M(x=ast.expr)), ('MAttribute(value=M(v=...))', lambda: MAttribute(value=M(v=...))),
            ('MNOT(Name)', lambda: MNOT(ast.Name))]

    def tags_of(m):
        out = {}
        for k, v in m.tags.items():
            out[k] = ('node', id(v)) if isinstance(v, fst.FST) else ('other', repr(v)[:60])
        return out
    for pi, src in enumerate(SEARCH_MODE_PROGS + list(progs[:ctx.scale(3, 30)])):
        for name, mk in pats:
            for on in ('enter', 'leave', 'both'):
                for back in (False, True):
                    root = fst.FST(src, 'exec')
                    pat = mk()
                    rec = {'src': src, 'pattern': name, 'on': on, 'back': back}
                    try:
                        got = []
                        for g in root.search(pat, on=on, back=back):
                            m, leaving = g if on == 'both' else (g, on == 'leave')
                            got.append((id(m.matched), leaving, tags_of(m), (type(m.matched.a).__name__, m.matched.src[:30])))
                        want = []
                        for g in root.walk(True, on=on, back=back):
                            f, leaving = g if on == 'both' else (g, on == 'leave')
                            if (m := f.match(pat)) is not None:
                                want.append((id(f), leaving, tags_of(m), (type(f.a).__name__, f.src[:30])))
                    except Exception as e:
                        ctx.violation(f'search-modes-raise|{type(e).__name__}', 'search() / walk() / match() raised', {**rec, 'error': repr(e)[:200]})
                        continue
                    ctx.tick(('search-modes', src, name, on, back), f'search:on={on}')
                    if [x[:2] for x in got] != [x[:2] for x in want]:
                        ctx.violation(f'search-filter|on={on}', 'search(pattern, on=) does not yield exactly the events of walk(on=) whose node match(pattern) accepts',
                                      {**rec, 'search': [(x[3], x[1]) for x in got][:10], 'match_filter': [(x[3], x[1]) for x in want][:10]})
                    elif [x[2] for x in got] != [x[2] for x in want]:
                        k = next(i for i, (x, y) in enumerate(zip(got, want)) if x[2] != y[2])
                        ctx.violation(f'search-tags|on={on}', 'a match yielded by search() does not carry the tags match() gives for that node',
                                      {**rec, 'node': got[k][3], 'leaving': got[k][1], 'search_tags': sorted(got[k][2]), 'match_tags': sorted(want[k][2]),
                                       'same_keys_other_values': sorted(got[k][2]) == sorted(want[k][2])})


TM_HDR = ('From Coq Require Import List Bool Arith ZArith NArith.\nFrom PF Require Import models.TreeMatch.\nImport ListNotations.\n')
_TM_KINDS = {}


def enc_tree(n) -> str:
    """an AST (or a field value) as a models/TreeMatch.v tree: Node kind [fields in _fields order], a list as Node 0 [...], primitives as leaves; the three expression
    contexts are ONE kind (match() without ctx= does not tell them apart)"""
    if isinstance(n, ast.AST):
        name = 'expr_context' if isinstance(n, ast.expr_context) else type(n).__name__
        k = _TM_KINDS.setdefault(name, len(_TM_KINDS) + 1)
        return f'(Node {k} [' + '; '.join(enc_tree(getattr(n, f, None)) for f in n._fields) + '])'
    if isinstance(n, list):
        return '(Node 0 [' + '; '.join(enc_tree(x) for x in n) + '])'
    cp = lambda t: '[' + '; '.join(f'{c}%N' for c in t) + ']'
    if n is None:
        return '(Leaf VNone)'
    if n is ...:
        return '(Leaf VDots)'
    if isinstance(n, bool):
        return f'(Leaf (VBool {"true" if n else "false"}))'
    if isinstance(n, int):
        return f'(Leaf (VInt ({n})%Z))'
    if isinstance(n, str):
        return f'(Leaf (VStr {cp(map(ord, n))}))'
    if isinstance(n, bytes):
        return f'(Leaf (VBytes {cp(n)}))'
    return f'(Leaf (VNum {cp(map(ord, repr(n)))}))'


def stage_structure(ctx: Ctx, progs):
    """self-match, one-leaf difference, layout independence, pure-AST agreement, statelessness"""
    import fst
    from fst.match import MName, MNOT, MOR, MQSTAR, MList, MCall, M
    rng = ctx.rng
    pats = [('Call(args=[*, Name, *])', lambda: MCall(args=[MQSTAR, M(n=ast.Name), MQSTAR])),
            ('List(elts=[a*, rest])', lambda: MList(elts=[MQSTAR(a=MName('a')), MQSTAR(r=...)])),
            ('OR(Name,NOT(Constant))', lambda: MOR(ast.Name, MNOT(ast.Constant)))]
    tm_terms, tm_meta = [], []

    def tm_case(f, pat, got, what):
        if sum(1 for _ in ast.walk(f.a)) <= 120 and len(tm_terms) < ctx.scale(600, 6000):
            tm_terms.append(f'Bool.eqb (tmatch (of_tree {enc_tree(pat)}) {enc_tree(f.a)}) {"true" if got else "false"}')
            tm_meta.append({'node_src': f.src[:120], 'pattern': ast.dump(pat)[:300], 'what': what, 'real_match': got})
    for pi, src in enumerate(progs):
        root = fst.FST(src, 'exec')
        nodes = list(root.walk(True))
        sample = rng.sample(nodes, min(len(nodes), ctx.scale(12, 60)))
        re_src = relayout(src, rng)
        root2 = fst.FST(re_src, 'exec') if re_src != src else None
        for f in sample:
            a = f.a
            ctx.tick((pi, root.child_path(f, True)), 'structure')
            # any tree matches the pattern built from its own AST
            self_m = f.match(a) is not None
            tm_case(f, f.copy_ast(), self_m, 'own AST')
            if not self_m:
                ctx.violation(f'self-match|{type(a).__name__}', 'a node does not match the pattern built from its own AST', {'src': src, 'node': type(a).__name__, 'node_src': f.src[:80]})
                continue
            # ... and not one that differs in a single leaf
            cp = f.copy_ast()
            leaves = [n for n in ast.walk(cp) if isinstance(n, (ast.Name, ast.Constant, ast.arg, ast.alias, ast.Attribute))]
            if leaves:
                lf = rng.choice(leaves)
                if isinstance(lf, ast.Name):
                    lf.id += '_x'
                elif isinstance(lf, ast.Constant):
                    lf.value = 'changed' if lf.value != 'changed' else 'changed2'
                elif isinstance(lf, ast.arg):
                    lf.arg += '_x'
                elif isinstance(lf, ast.alias):
                    lf.name += '_x'
                else:
                    lf.attr += '_x'
                leaf_m = f.match(cp) is not None
                tm_case(f, cp, leaf_m, 'one leaf changed')
                if leaf_m:
                    ctx.violation(f'leaf-differs|{type(a).__name__}|{type(lf).__name__}', 'a node matches a pattern that differs from it in one leaf',
                                  {'src': src, 'node': type(a).__name__, 'node_src': f.src[:80], 'leaf': type(lf).__name__})
                    continue
            # layout independence and pure AST
            for name, mk in pats:
                pat = mk()
                m1 = f.match(pat)
                m_again = f.match(pat)
                pure = pat.match(f.copy_ast())

                def shape(m):
                    if m is None:
                        return None
                    out = {}
                    for k, v in m.tags.items():
                        out[k] = len(v) if isinstance(v, list) else type(getattr(v, 'a', v)).__name__
                    return out
                if shape(m1) != shape(m_again):
                    ctx.violation(f'stateful|{name}', 'two identical match calls gave different results', {'src': src, 'pattern': name})
                if shape(m1) != shape(pure):
                    ctx.violation(f'pure-ast|{name}|{type(a).__name__}', 'match on the formatted node and on its pure AST differ',
                                  {'src': src, 'pattern': name, 'node_src': f.src[:80], 'fst': shape(m1), 'ast': shape(pure)})
                if root2 is not None:
                    try:
                        f2 = root2.child_from_path(root.child_path(f))
                    except Exception:
                        f2 = None
                    if f2 is not None and shape(f2.match(pat)) != shape(m1):
                        ctx.violation(f'layout|{name}|{type(a).__name__}', 'match result depends on layout', {'src': src, 'relayout': re_src, 'pattern': name, 'node_src': f.src[:80]})


    # the same (pattern, target) pairs on the tree-matching model, plus a wildcard leaf and a falsy-leaf family per sampled Constant
    try:
        failed = coq_eval_bools('C17_treematch', TM_HDR, tm_terms, shard=150)
        ctx.correspondence('models/TreeMatch.v tmatch == FST.match(<AST pattern>) (a node against its own AST and against a copy with one leaf changed)', len(tm_terms), [tm_meta[k] for k in failed])
    except CoqEvalError as e:
        ctx.broken.append({'kind': 'correspondence', 'name': 'treematch', 'detail': str(e)[:2000]})

def stage_history(ctx: Ctx):
    """a match never depends on previous calls: ONE pattern object matched against a sequence of targets gives, at every step, what a freshly built
    pattern object gives on that target alone (match + search), and the pattern object itself does not change (repr). Patterns with static tags in
    front of optional captures, alternatives over list fields with lazy quantifiers that fail to extend, NOT / MAYBE."""
    import fst
    from fst.match import M, MOR, MAND, MNOT, MBinOp, MList, MQSTAR, MQPLUS, MQOPT, MName, MCall, MTAG, MConstant, MTuple
    try:
        from fst.match import MMAYBE
    except ImportError:
        MMAYBE = None
    rng = ctx.rng
    makers = [
        ('BinOp(left=M(Name,static), right=OR(M(const=Constant), Name))', lambda: MBinOp(left=M(ast.Name, is_name=True), right=MOR(M(const=ast.Constant), ast.Name))),
        ('List(OR([a*? c], [*, last]))', lambda: MList(elts=MOR([MQSTAR.NG('a'), 'c'], [MQSTAR, M(last=ast.Name)]))),
        ('List(OR([x a*? c], [*, \\x]))', lambda: MList(elts=MOR([M(x=ast.Name), MQSTAR.NG('a'), 'c'], [MQSTAR, MTAG('x')]))),
        ('Call(func=M(Name,k=1), args=[OR(M(c=Constant), Name)*])', lambda: MCall(func=M(ast.Name, k=1), args=[MQSTAR(MOR(M(c=ast.Constant), ast.Name))])),
        ('AND(M(BinOp, s=True), BinOp(right=M(r=Constant)))', lambda: MOR(MAND(M(ast.BinOp, s=True), MBinOp(right=M(r=ast.Constant))), M(other=...))),
        ('NOT(List([a+? b]))', lambda: MNOT(MList(elts=[MQPLUS.NG('a'), 'b']))),
        ('List([M(h=...) static, (x)?, *])', lambda: MList(elts=[M(h=..., first=True), MQOPT(M(x=ast.Constant)), MQSTAR])),
        ('Tuple(OR([M(a=Name)], [M(b=Constant)], [M(c=...), *]))', lambda: MTuple(elts=MOR([M(a=ast.Name)], [M(b=ast.Constant)], [M(c=...), MQSTAR]))),
    ]
    targets = ['a + 1', 'a + b', '1 + a', '[a, b, d]', '[a, a, c]', '[q, b, q]', '[q, a, c]', 'f(1, x)', 'f(x)', 'f()', '[a, b]', '[a, a, b]', '[1]', '[x, 1, 2]', '(a,)', '(1,)', '(f(), 2)', 'x', '[]']
    trees = {t: fst.FST(t, 'expr') for t in targets}

    def shape(m):
        if m is None:
            return None
        out = {}
        for k, v in m.tags.items():
            if isinstance(v, list):
                out[k] = [shape(x) if hasattr(x, 'tags') else (type(x).__name__, ast.unparse(x)) if isinstance(x, ast.AST) else str(x) for x in v]
            elif hasattr(v, 'a') and isinstance(v.a, ast.AST):
                out[k] = (type(v.a).__name__, ast.unparse(v.a))
            elif isinstance(v, ast.AST):
                out[k] = (type(v).__name__, ast.unparse(v))
            else:
                out[k] = repr(v)
        return out
    for name, mk in makers:
        try:
            shared = mk()
        except Exception as e:
            ctx.broken.append({'kind': 'harness', 'name': 'stage_history', 'detail': f'{name}: {e!r}'[:200]})
            continue
        r0 = repr(shared)
        for rnd in range(ctx.scale(6, 40)):
            seq = [rng.choice(targets) for _ in range(rng.randrange(2, 6))]
            hist = []
            for t in seq:
                how = rng.choice(['match', 'match', 'search', 'pure'])
                if how == 'match':
                    got, want = shape(shared.match(trees[t])), shape(mk().match(trees[t]))
                elif how == 'pure':
                    got, want = shape(shared.match(trees[t].copy_ast())), shape(mk().match(trees[t]))
                else:
                    node_of = lambda m: getattr(m, 'matched', m)
                    got = [(type(node_of(m).a).__name__, node_of(m).src, shape(m) if hasattr(m, 'tags') else None) for m in trees[t].search(shared)]
                    want = [(type(node_of(m).a).__name__, node_of(m).src, shape(m) if hasattr(m, 'tags') else None) for m in trees[t].search(mk())]
                hist.append([how, t])
                ctx.tick(('hist', name, tuple(map(tuple, hist))), 'history:' + how)
                if got != want:
                    ctx.violation(f'history|{name}', 'the result of a match depends on the matches made before with the same pattern object',
                                  {'pattern': name, 'history': hist, 'got': repr(got)[:300], 'fresh_pattern_gives': repr(want)[:300]})
                    break
                if repr(shared) != r0:
                    ctx.violation(f'history-pattern-mutated|{name}', 'matching changed the pattern object', {'pattern': name, 'history': hist, 'repr_before': r0[:300], 'repr_after': repr(shared)[:300]})
                    break


FIELD_PROGS = [
    'a = b = 1', 'x = {**p, q: 1, **r}', 'def f(a, *, k, j=1): pass', 'x = lambda *, k, j=1: 0', 'def g():\n  global m, n\n  return m', 'def g():\n  def h():\n    nonlocal g, u',
    'match v:\n  case C(p, k=1, j=2): pass\n  case {1: a, **r}: pass\n  case [a, *b]: pass\n  case a | b: pass', '@d1\n@d2\nclass K(B, m=M): pass', 'x = [i for i in j if k if l]',
    'x = a < b <= c', 'x = f(a, *b, k=1, **c)', 'with a as b, c: pass', 'import a, b.c as d', 'from m import a, b as c', 'del a, b', 'x = "5 \u00b5m"', 'x = "\ufb01le"', 'x = "\uff21\u00b2"',
    'try: pass\nexcept E: pass\nexcept F as e: pass', 'type T[A, *B] = C', 'x = a and b and c', 'x = f"{a}b{c!r}"', 'for i in j: pass\nelse: pass', 'def f():\n  """doc"""\n  return 1',
    'def f():\n  global \ufb01, b\n', 'match v:\n  case C(\ufb01=1, b=2): pass\n', 'def f():\n  def g():\n    nonlocal \ufb01\n', 'def f():\n  global a, \\\n b\n', 'import \ufb01.\ufb02 as \ufb03',
    'def \ufb01(\ufb02, *\ufb03): pass', 'f(\ufb01=1)', 'x.\ufb01 = 1', 'match v:\n  case {**\ufb01}: pass\n  case [*\ufb02]: pass\n  case x as \ufb03: pass',
    'x = {a, b}', 'x = (a, b)', 'x = [a, b]', 'x = {k: v for k, v in d}', 'async def f(): pass', 'x[a:b, c]', 'x: int = 1', 'if a: pass\nelif b: pass\nelse: pass',
]


def stage_field_sweep(ctx: Ctx):
    """every field of every node of a set of programs (list fields that hold None, identifier lists, non-ASCII strings, virtual-view fields), as a pattern
    built from the node's OWN AST: plain and wrapped in M(tag=) / MOR / MAND / MNOT(MNOT()): the formatted node and its pure AST both match; with one element
    dropped / doubled or the string changed neither matches; a back-reference to the captured field matches a second copy of the statement"""
    import fst, unicodedata
    import fst.match as fm
    from fst.match import M, MOR, MAND, MNOT, MTAG, MModule, MTuple

    def wraps(v):
        out = [('plain', lambda: v), ('M(t=)', lambda: M(t=v)), ('MOR', lambda: MOR(v)), ('MAND', lambda: MAND(v)), ('MNOT(MNOT)', lambda: MNOT(MNOT(v)))]
        return out

    def variants(v):
        if isinstance(v, list):
            for i in range(len(v)):
                yield f'drop[{i}]', v[:i] + v[i + 1:]
            if v:
                yield 'doubled-last', v + [v[-1]]
                yield 'prepended-None', [None] + v
        elif isinstance(v, str):
            yield 'suffix', v + '_x'
            n = unicodedata.normalize('NFKC', v)
            if n != v:
                yield 'nfkc', n

    def both(pat_of, f):
        res = []
        for route in ('fst', 'ast'):
            try:
                pat = pat_of()
                res.append(pat.match(f if route == 'fst' else f.copy_ast()) is not None)
            except Exception as e:
                res.append(f'!{type(e).__name__}: {e}'[:120])
        return res
    for src in FIELD_PROGS:
        root = fst.FST(src, 'exec')
        for f in root.walk(True):
            cls = type(f.a)
            Mcls = getattr(fm, 'M' + cls.__name__, None)
            if Mcls is None or f.parent is None:
                continue
            for field in cls._fields:
                pa = f.copy_ast()
                v = getattr(pa, field, None)
                for wname, w in wraps(v):
                    try:
                        w()
                        Mcls(**{field: w()})
                    except Exception:
                        continue          # this wrapper does not take this kind of value
                    got = both(lambda: Mcls(**{field: w()}), f)
                    ctx.tick(('field', src, root.child_path(f, True), field, wname), 'field:self')
                    if got != [True, True]:
                        ctx.violation(f'field-self|{cls.__name__}.{field}|{wname}|{got}', 'a node does not match (on the formatted tree and on the pure AST alike) the pattern built from its own field value',
                                      {'src': src, 'node': cls.__name__, 'node_src': f.src[:80], 'field': field, 'value': repr(v)[:80], 'wrapped': wname, 'formatted_tree': got[0], 'pure_ast': got[1]})
                    for vname, v2 in variants(v):
                        w2 = {'plain': lambda: v2, 'M(t=)': lambda: M(t=v2), 'MOR': lambda: MOR(v2), 'MAND': lambda: MAND(v2), 'MNOT(MNOT)': lambda: MNOT(MNOT(v2))}[wname]
                        got = both(lambda: Mcls(**{field: w2()}), f)
                        ctx.tick(('field', src, root.child_path(f, True), field, wname, vname), 'field:differs')
                        if got != [False, False]:
                            ctx.violation(f'field-differs|{cls.__name__}.{field}|{wname}|{vname}|{got}', 'a node matches a pattern that differs from it in one field (or the formatted tree and the pure AST disagree)',
                                          {'src': src, 'node': cls.__name__, 'node_src': f.src[:80], 'field': field, 'value': repr(v)[:80], 'pattern_value': repr(v2)[:80] if not isinstance(v2, list) else f'{vname} of the value',
                                           'wrapped': wname, 'formatted_tree': got[0], 'pure_ast': got[1]})
        # back-references to a captured field: the statement twice
        for st in root.body:
            two = fst.FST(st.src + '\n' + st.src, 'exec')
            if len(two.a.body) != 2:
                continue
            cls = type(st.a)
            Mcls = getattr(fm, 'M' + cls.__name__)
            for field in cls._fields:
                mk = lambda: MModule(body=[Mcls(**{field: M(t=...)}), Mcls(**{field: MTAG('t')})])
                got = []
                for route in ('fst', 'ast'):
                    try:
                        got.append(mk().match(two if route == 'fst' else two.copy_ast()) is not None)
                    except Exception as e:
                        got.append(f'!{type(e).__name__}: {e}'[:120])
                ctx.tick(('backref-field', st.src, field), 'field:backref')
                if got != [True, True]:
                    ctx.violation(f'field-backref|{cls.__name__}.{field}|{got}', 'a back-reference to a captured field does not match an identical second statement (on the formatted tree and on the pure AST alike)',
                                  {'src': two.src, 'node': cls.__name__, 'field': field, 'formatted_tree': got[0], 'pure_ast': got[1]})


PRIM_LEAVES = [None, 0, 1, 0.0, 1.5, 0j, 2j, '', 'a', '0', b'', b'a', b'0', False, True, 10 ** 30, 'é', 'None']


def stage_primitive_leaves(ctx: Ctx):
    """deterministic: every pair (pattern value, target value) of primitive leaves - None, the falsy and truthy values of every constant type - as Constant.value: pattern given as MConstant,
    as a Constant AST and inside a whole statement AST, target formatted and pure AST, match() and search(): a match exactly when type and value are the same (0 / False / 0.0 / '' / None all differ)"""
    import fst
    from fst.match import MConstant, MAssign, MName, M
    same = lambda p, t: type(p) is type(t) and p == t and repr(p) == repr(t)   # an Ellipsis CONSTANT in a pattern is a literal (only a pattern field given as `...` is the wildcard)
    tm_terms, tm_meta = [], []
    for p in PRIM_LEAVES + [...]:
        for t in PRIM_LEAVES + [...]:
            src = f'x = {t!r}' if t is not ... else 'x = ...'
            root = fst.FST(src, 'exec')
            tgt = root.body[0].value
            if not isinstance(tgt.a, ast.Constant):
                continue          # -0.0 parses as a UnaryOp
            want = same(p, tgt.a.value)
            got = {}
            try:
                got['MConstant/fst'] = tgt.match(MConstant(value=p)) is not None
                got['MConstant/ast'] = MConstant(value=p).match(ast.Constant(value=tgt.a.value)) is not None
                got['Constant/fst'] = tgt.match(ast.Constant(value=p)) is not None
                got['M(tag)/fst'] = (tgt.match(MConstant(value=M(v=p))) is not None) if p is not ... else want    # M(v=...) is the wildcard: checked against the model below
                got['stmt/fst'] = root.body[0].match(ast.Assign(targets=[ast.Name(id='x', ctx=ast.Store())], value=ast.Constant(value=p))) is not None
                got['stmt/ast'] = MAssign(targets=[MName('x')], value=MConstant(value=p)).match(ast.parse(src).body[0]) is not None
                got['search'] = any(m.matched is tgt for m in root.search(MConstant(value=p)))
            except Exception as e:
                ctx.violation(f'prim-leaf-raise|{type(e).__name__}', 'matching a primitive leaf raised', {'pattern_value': repr(p), 'target_src': src, 'error': repr(e)[:200]})
                continue
            ctx.tick(('prim-leaf', repr(p), repr(t)), 'prim-leaf:' + ('same' if want else 'differs'))
            tm_terms.append(f'Bool.eqb (tmatch (of_tree {enc_tree(ast.Constant(value=p))}) {enc_tree(tgt.a)}) {"true" if got["Constant/fst"] else "false"}')
            tm_meta.append({'pattern_value': repr(p), 'target_src': src, 'real_match': got['Constant/fst']})
            if p is ...:     # the wildcard: MConstant(value=M(v=...)) names no kind and any value
                wild = tgt.match(MConstant(value=M(v=...))) is not None
                k = enc_tree(ast.Constant(value=0)).split()[1]
                tm_terms.append(f'Bool.eqb (tmatch (TNode {k} [TAny; TAny]) {enc_tree(tgt.a)}) {"true" if wild else "false"}')
                tm_meta.append({'pattern': 'MConstant(value=M(v=...))', 'target_src': src, 'real_match': wild})
            bad = sorted(k for k, v in got.items() if v != want)
            if bad:
                ctx.violation(f'prim-leaf|{type(p).__name__}-vs-{type(t).__name__}|{"matches-different" if not want else "rejects-same"}',
                              'a primitive leaf of a pattern matches a different value (or rejects the same one)', {'pattern_value': repr(p), 'target_src': src, 'expected_match': want, 'wrong': bad})


    # the `kind` leaf of a string constant (None / 'u'): a plain Constant pattern and the AST of a u-string differ in that one leaf
    from fst.match import MList, MQSTAR, MTAG
    for psrc, tsrc in [("'a'", "u'a'"), ("u'a'", "'a'"), ("u'a'", "u'a'"), ("'a'", "'a'"), ("[u'a', 'a']", "['a', 'a']"), ("f(k='a')", "f(k=u'a')")]:
        root = fst.FST(f'x = {tsrc}', 'exec')
        tgt = root.body[0].value
        pat = ast.parse(psrc, mode='eval').body
        want = ast.dump(pat) == ast.dump(ast.parse(tsrc, mode='eval').body)
        got = {}
        try:
            got['ast/fst'] = tgt.match(pat) is not None
            got['ast/ast'] = fst.FST(pat, 'expr').match(ast.parse(tsrc, mode='eval').body) is not None if False else (fst.match.M(p=pat).match(ast.parse(tsrc, mode='eval').body) is not None)
            got['search'] = any(m.matched is tgt for m in root.search(pat))
        except Exception as e:
            ctx.violation(f'kind-leaf-raise|{type(e).__name__}', 'matching a string constant pattern raised', {'pattern_src': psrc, 'target_src': tsrc, 'error': repr(e)[:200]})
            continue
        ctx.tick(('kind-leaf', psrc, tsrc), 'prim-leaf:kind')
        bad = sorted(k for k, v in got.items() if v != want)
        if bad:
            ctx.violation(f'prim-leaf|kind|{"matches-different" if not want else "rejects-same"}', 'a string constant pattern matches a constant that differs in the `kind` leaf (or rejects the same one)',
                          {'pattern_src': psrc, 'target_src': tsrc, 'expected_match': want, 'wrong': bad})
        tm_terms.append(f'Bool.eqb (tmatch (of_tree {enc_tree(pat)}) {enc_tree(tgt.a)}) {"true" if got["ast/fst"] else "false"}')
        tm_meta.append({'pattern_src': psrc, 'target_src': tsrc, 'real_match': got['ast/fst']})
    # a back-reference to a captured plain string does not accept the u-string
    for tsrc, want in [("['a', u'a']", False), ("[u'a', 'a']", False), ("['a', 'a']", True), ("[u'a', u'a']", True)]:
        tgt = fst.FST(f'x = {tsrc}', 'exec').body[0].value
        try:
            got1 = tgt.match(MList(elts=[M(x=...), MTAG('x')])) is not None
            got2 = MList(elts=[M(x=...), MTAG('x')]).match(ast.parse(tsrc, mode='eval').body) is not None
        except Exception as e:
            ctx.violation(f'kind-leaf-raise|{type(e).__name__}', 'matching a back-reference raised', {'target_src': tsrc, 'error': repr(e)[:200]})
            continue
        ctx.tick(('kind-backref', tsrc), 'prim-leaf:kind-backref')
        if (got1, got2) != (want, want):
            ctx.violation('prim-leaf|kind|back-reference', 'a back-reference to a captured string constant accepts one that differs in the `kind` leaf (or rejects the same one)',
                          {'target_src': tsrc, 'expected_match': want, 'formatted_tree': got1, 'pure_ast': got2})
    try:
        failed = coq_eval_bools('C17_treematch_prim', TM_HDR, tm_terms, shard=200)
        ctx.correspondence('models/TreeMatch.v tmatch == FST.match(Constant(value=p)) on every pair of primitive leaves (None, falsy and truthy values of every constant type, `...` as the wildcard)', len(tm_terms), [tm_meta[k] for k in failed])
    except CoqEvalError as e:
        ctx.broken.append({'kind': 'correspondence', 'name': 'treematch-prim', 'detail': str(e)[:2000]})

def stage_type_patterns(ctx: Ctx):
    """deterministic: for every node of the field programs and each of its fields, the pattern that asks for the TYPE of what the pure AST holds there (a node class, str / int /
    ... for primitives, a list of them for list fields) gives the same answer - a match - on the formatted tree and on the pure AST"""
    import fst
    import fst.match as fm
    for src in FIELD_PROGS:
        root = fst.FST(src, 'exec')
        for f in root.walk(True):
            cls = type(f.a)
            Mcls = getattr(fm, 'M' + cls.__name__, None)
            if Mcls is None or isinstance(f.a, (ast.expr_context, ast.mod)):
                continue
            for field in cls._fields:
                v = getattr(f.a, field, None)
                if v is None or (isinstance(v, list) and (not v or any(e is None for e in v))):
                    continue
                tp = [type(e) for e in v] if isinstance(v, list) else type(v)
                got = []
                for route in ('fst', 'ast'):
                    try:
                        pat = Mcls(**{field: tp})
                        got.append(pat.match(f if route == 'fst' else f.copy_ast()) is not None)
                    except Exception as e:
                        got.append(f'!{type(e).__name__}: {e}'[:120])
                ctx.tick(('type-pattern', src, root.child_path(f, True), field), 'field:type-pattern')
                if got != [True, True]:
                    kind = 'identifier-list' if isinstance(v, list) and isinstance(v[0], str) else 'identifier' if isinstance(v, str) else 'other'
                    ctx.violation(f'fst-vs-ast|type-pattern|{kind}|{cls.__name__}.{field}', 'a pattern asking for the type of what a field holds does not match the formatted tree and the pure AST alike',
                                  {'src': f.src, 'node': cls.__name__, 'field': field, 'pattern_types': repr(tp)[:120], 'formatted_tree': got[0], 'pure_ast': got[1]})


def stage_cross_class_backrefs(ctx: Ctx):
    """a back-reference from a node of one class to a node of ANOTHER class with the same source text (a parameter and the name it binds, an import alias and a use, a with-item
    and its expression, an expression statement and an equal value): same answer on the formatted tree, on a re-layout and on the pure AST - identical text is not identical structure"""
    import fst
    from fst.match import M, MTAG, MModule, MFunctionDef, Marguments, MReturn, MWith, MExpr, MImport, MAssign, MCall, Mkeyword, MImportFrom, MExceptHandler, MTry, MMatch, Mmatch_case, MMatchAs
    cases = [('def f(a): return a\n', 'def f( a ):\n    return a\n', lambda: MModule(body=[MFunctionDef(args=Marguments(args=[M(p=...)]), body=[MReturn(MTAG('p'))])])),
             ('with a+b: a+b\n', 'with a+b:\n    a + b\n', lambda: MModule(body=[MWith(items=[M(w=...)], body=[MExpr(MTAG('w'))])])),
             ('import a\na\n', 'import  a\n(a)\n', lambda: MModule(body=[MImport(names=[M(n=...)]), MExpr(MTAG('n'))])),
             ('a\nx = a\n', 'a\nx = (a)\n', lambda: MModule(body=[M(s=...), MAssign(value=MTAG('s'))])),
             ('a\nx = a\n', 'a\nx = (a)\n', lambda: MModule(body=[MExpr(M(s=...)), MAssign(value=MTAG('s'))])),
             ('f(k)\ng(k=k)\n', 'f( k )\ng(k = k)\n', lambda: MModule(body=[MExpr(MCall(args=[M(v=...)])), MExpr(MCall(keywords=[MTAG('v')]))])),
             ('from m import a\na\n', 'from m import (a)\na\n', lambda: MModule(body=[MImportFrom(names=[M(n=...)]), MExpr(MTAG('n'))])),
             ('x = a\nx = a\n', 'x = a\nx=a\n', lambda: MModule(body=[M(s=...), MTAG('s')])),
             ('def f(a, a2=a): pass\n', 'def f(a, a2 = a): pass\n', lambda: MModule(body=[MFunctionDef(args=Marguments(args=[M(p=...), ...], defaults=[MTAG('p')]))])),
             ('match a:\n case a: pass\n', 'match a:\n    case a:\n        pass\n', lambda: MModule(body=[MMatch(subject=M(s=...), cases=[Mmatch_case(pattern=MTAG('s'))])]))]
    for src, relaid, mk in cases:
        got = {}
        for route, tgt in (('fst', lambda: fst.FST(src, 'exec')), ('relayout', lambda: fst.FST(relaid, 'exec')), ('ast', lambda: ast.parse(src))):
            try:
                got[route] = mk().match(tgt()) is not None
            except Exception as e:
                got[route] = f'!{type(e).__name__}: {e}'[:100]
        ctx.tick(('cross-class-backref', src), 'backref:cross-class')
        if len({repr(v) for v in got.values()}) != 1:
            ctx.violation('backref|cross-class|' + '/'.join(f'{k}={v}' for k, v in got.items())[:60], 'a back-reference between nodes of different classes with the same source text answers differently on the formatted tree, a re-layout and the pure AST',
                          {'src': src, 'relayout': relaid, **got})


def run(ctx: Ctx):
    ctx.rule = ('(1) pattern sequences (<=2 items exhaustively sampled, 3 items random; items over {a, b, ., Q(a), Q(.), Q([a;b])} x {*, +, ?, {1,2}} x greedy/lazy) '
                'x element sequences over {a,b,c} up to length 4 (quick) / 5 (thorough): real matcher vs re.fullmatch (accept + repetition counts) and vs the Coq '
                'model; (2) search(p) vs [n for n in walk if n.match(p)] for 20 combinator patterns per corpus program; (3) per sampled node: self-match, '
                'one-leaf difference, formatted vs pure AST vs re-layout, repeated calls. distinct = (regex, target) / (program, pattern) / (program, node).')
    ctx.assumptions += ['re.fullmatch is the reference for quantifier sequences (OH3)']
    ok = stage_translate(ctx)
    if ok:
        ctx.build_props()
    run_guarded(ctx, stage_quantifiers)
    run_guarded(ctx, stage_backrefs)
    run_guarded(ctx, stage_captures)
    run_guarded(ctx, stage_cross_class_backrefs)
    run_guarded(ctx, stage_nested)
    run_guarded(ctx, stage_history)
    run_guarded(ctx, stage_field_sweep)
    run_guarded(ctx, stage_type_patterns)
    run_guarded(ctx, stage_primitive_leaves)
    progs = corpus(ctx.rng, gen=ctx.scale(6, 60))
    run_guarded(ctx, stage_search, progs)
    run_guarded(ctx, stage_search_ctx, progs)
    run_guarded(ctx, stage_search_modes, progs)
    run_guarded(ctx, stage_structure, [p for p in progs if len(p) < 1200])


def replay(path):
    d = json.load(open(path))
    print(json.dumps(d, indent=1)[:6000])
    return 0
