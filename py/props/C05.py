"""C05 - Parsing is lossless and agrees with Python's parser in every parse mode."""

from __future__ import annotations

import ast
import collections
import copy
import io
import json
import re
import tokenize

from lib.common import *
from lib.oracle import cmp_ast
from lib.progs import corpus, relayout
from props.C11 import stage_translate

LEVEL = 'proof'
HDR = ('From Coq Require Import List NArith ZArith Bool Arith.\nFrom PF Require Import kernel.PyBase kernel.Text models.Extract models.Wrap.\nImport ListNotations.\n'
       'Fixpoint ln_eqb (a b : list N) : bool := match a, b with [], [] => true | x :: a\', y :: b\' => N.eqb x y && ln_eqb a\' b\' | _, _ => false end.\n'
       'Fixpoint txt_eqb (a b : list (list N)) : bool := match a, b with [], [] => true | x :: a\', y :: b\' => ln_eqb x y && txt_eqb a\' b\' | _, _ => false end.\n'
       'Definition isnone {A} (o : option A) : bool := match o with None => true | _ => false end.\n')


# ---- embeddings written for this check (independent of parsex.py) -------------------------------------------------
def _get(t, path):
    for p in path:
        t = t[p] if isinstance(p, int) else getattr(t, p)
    return t


class Emb:
    def __init__(self, pre, post, path, kind='node', placeholder='_h', n=None, root_pos=True, classes=None):
        self.pre, self.post, self.path, self.kind, self.placeholder, self.n, self.root_pos, self.classes = pre, post, path, kind, placeholder, n, root_pos, classes

    def text(self, src):
        parts = list(self.pre) + [src] + ([self.post] if self.post is not None else [])
        return '\n'.join(parts)

    @property
    def k(self):
        return len(self.pre)


B0 = ('body', 0)
EMB = {
    'expr':              [Emb(['('], ')', B0 + ('value',)), Emb(['['], ']', B0 + ('value', 'elts'), 'one')],
    'expr_slice':        Emb(['_['], ']', B0 + ('value', 'slice')),
    'expr_all':          [Emb(['_['], ']', B0 + ('value', 'slice')), Emb(['('], ')', B0 + ('value',)), Emb(['_('], ')', B0 + ('value', 'args'), 'one')],     # documented: whatever a subscript takes, except that a lone `*a` WITHOUT a comma stays a Starred (judge)
    'expr_arglike':      [Emb(['('], ')', B0 + ('value',)), Emb(['_('], ')', B0 + ('value', 'args'), 'one')],
    'keyword':           Emb(['_('], ')', B0 + ('value', 'keywords'), 'one', 'k=_'),
    '_arglike':          [Emb(['_('], ')', B0 + ('value', 'args'), 'one'), Emb(['_('], ')', B0 + ('value', 'keywords'), 'one', 'k=_')],
    'arguments':         Emb(['def _('], '): pass', B0 + ('args',), placeholder='_h'),
    'arguments_lambda':  Emb(['(lambda '], ': None)', B0 + ('value', 'args'), placeholder='_h'),
    'arg':               [Emb(['def _('], '): pass', B0 + ('args', 'args'), 'one'), Emb(['def _(*'], '): pass', B0 + ('args', 'vararg'))],
    'Import_name':       Emb(['import \\'], None, B0 + ('names',), 'one'),
    'ImportFrom_name':   [Emb(['from . import ('], ')', B0 + ('names',), 'one'), Emb(['from . import \\'], None, B0 + ('names',), 'one')],
    '_Import_names':     Emb(['import \\'], None, B0 + ('names',), 'list'),
    '_ImportFrom_names': [Emb(['from . import ('], ')', B0 + ('names',), 'list'), Emb(['from . import \\'], None, B0 + ('names',), 'list')],
    'withitem':          Emb(['with ('], '): pass', B0 + ('items',), 'one', '_h as _g'),
    '_withitems':        Emb(['with ('], '): pass', B0 + ('items',), 'list', '_h as _g'),
    'ExceptHandler':     Emb(['try: pass'], 'finally: pass', B0 + ('handlers',), 'one', 'except: pass'),
    '_ExceptHandlers':   Emb(['try: pass'], 'finally: pass', B0 + ('handlers',), 'list', 'except: pass'),
    'pattern':           [Emb(['match _:', ' case ('], '): pass', B0 + ('cases', 0, 'pattern')), Emb(['match _:', ' case ['], ']: pass', B0 + ('cases', 0, 'pattern', 'patterns'), 'one')],
    'comprehension':     Emb(['[_'], ']', B0 + ('value', 'generators'), 'one', 'for _h in _g'),
    '_comprehensions':   Emb(['[_ for _ in _'], ']', B0 + ('value', 'generators'), 'tail', 'for _h in _g'),
    '_comprehension_ifs': Emb(['[_ for _ in _'], ']', B0 + ('value', 'generators', 0, 'ifs'), 'list', 'if _h'),
    '_decorator_list':   Emb([], 'class _: pass', B0 + ('decorator_list',), 'list', '@_h'),
    'type_param':        Emb(['type _['], '] = _', B0 + ('type_params',), 'one'),
    '_type_params':      Emb(['type _['], '] = _', B0 + ('type_params',), 'list'),
    'stmt':              Emb([], None, ('body',), 'one', 'pass'),
    'exec':              Emb([], None, (), 'node', 'pass'),
}
LISTFIELD = {'_arglikes': 'arglikes', '_Import_names': 'names', '_ImportFrom_names': 'names', '_withitems': 'items', '_ExceptHandlers': 'handlers', '_comprehensions': 'generators',
             '_comprehension_ifs': 'ifs', '_decorator_list': 'decorator_list', '_type_params': 'type_params'}
OPMODES = {'operator': ('(_\n', '\n_)', lambda t: t.body[0].value.op, ast.BinOp), 'boolop': ('(_\n', '\n_)', lambda t: t.body[0].value.op, ast.BoolOp),
           'unaryop': ('(\n', '\n_)', lambda t: t.body[0].value.op, ast.UnaryOp), 'cmpop': ('(_\n', '\n_)', lambda t: t.body[0].value.ops[0], ast.Compare)}


STMTLIKE = ('stmt', 'exec', 'ExceptHandler', '_ExceptHandlers', '_decorator_list')


def toks(src, wrapped=False):
    """code tokens of a fragment; wrapped=True tokenizes it between parentheses (free layout) and maps lines back"""
    out = []
    text = '(\n' + src + '\n)' if wrapped else src
    try:
        for t in tokenize.generate_tokens(io.StringIO(text).readline):
            if t.type in (tokenize.NL, tokenize.NEWLINE, tokenize.INDENT, tokenize.DEDENT, tokenize.ENDMARKER, tokenize.COMMENT):
                continue
            out.append(t)
    except (tokenize.TokenError, IndentationError, SyntaxError):
        return None
    if wrapped:
        if len(out) < 2 or out[0].string != '(' or out[-1].string != ')' or out[-1].start[0] != src.count('\n') + 3:
            return None
        out = [t._replace(start=(t.start[0] - 1, t.start[1]), end=(t.end[0] - 1, t.end[1])) for t in out[1:-1]]
    return out


def balanced(ts):
    st = []
    pairs = {')': '(', ']': '[', '}': '{'}
    for t in ts:
        if t.type == tokenize.OP and t.string in '([{':
            st.append(t.string)
        elif t.type == tokenize.OP and t.string in pairs:
            if not st or st.pop() != pairs[t.string]:
                return False
    return not st


def set_hole(tree, path, value):
    parent = _get(tree, path[:-1])
    last = path[-1]
    if isinstance(last, int):
        parent[last] = value
    else:
        setattr(parent, last, value)


def judge(mode, src):
    """independent verdict: ('invalid', why) or ('valid', expected_node_or_list, k) for src in mode; a mode may have
    alternative embeddings (the first that judges valid wins)"""
    ts = toks(src, wrapped=mode not in STMTLIKE)
    if ts is None:
        return ('invalid', 'fragment does not tokenize')
    if not balanced(ts):
        return ('invalid', 'brackets of the fragment are not balanced')
    if not ts and mode in LISTFIELD:
        return ('valid', [], 0)
    if mode == '_arglikes':
        # positional and keyword arguments of a call, merged in SOURCE order (two AST lists, one text)
        try:
            t1 = ast.parse('_(\n' + src + '\n)')
        except SyntaxError as ex:
            return ('invalid', f'embedding does not parse: {ex.msg}')
        call = t1.body[0].value if len(t1.body) == 1 and isinstance(t1.body[0], ast.Expr) else None
        if not isinstance(call, ast.Call) or not isinstance(call.func, ast.Name) or call.end_lineno != src.count('\n') + 3 or call.lineno != 1:
            return ('invalid', 'the fragment changed the construct around it')
        exp = sorted(call.args + call.keywords, key=lambda n: (n.lineno, n.col_offset))
        if exp and (exp[0].lineno <= 1 or exp[-1].end_lineno > src.count('\n') + 2):
            return ('invalid', 'the element extends into the wrapper (it uses the delimiters of the embedding as its own)')
        return ('valid', exp, 1)
    alts = EMB[mode] if isinstance(EMB[mode], list) else [EMB[mode]]
    why = None
    for e in alts:
        if 'except*' in src and e.placeholder == 'except: pass':
            e = Emb(e.pre, e.post, e.path, e.kind, 'except* _h: pass')
        v = judge1(mode, src, e, ts)
        if v[0] == 'valid':
            return v
        why = why or v
    return why


def judge1(mode, src, e, ts):
    try:
        t1 = ast.parse(e.text(src))
    except SyntaxError as ex:
        return ('invalid', f'embedding does not parse: {ex.msg}')
    try:
        t0 = ast.parse(e.text(e.placeholder))
    except SyntaxError as ex:   # harness bug
        raise RuntimeError(f'placeholder embedding for {mode} does not parse') from ex
    try:
        hole = _get(t1, e.path) if e.path else t1
    except (AttributeError, IndexError, TypeError):
        return ('invalid', 'embedding parsed to a different construct')
    if e.path:
        # everything outside the hole must be what the embedding of the placeholder gives
        c1, c0 = copy.deepcopy(t1), copy.deepcopy(t0)
        try:
            set_hole(c1, e.path, None)
            set_hole(c0, e.path, None)
        except (AttributeError, IndexError, TypeError):
            return ('invalid', 'embedding parsed to a different construct')
        if ast.dump(c1) != ast.dump(c0):
            return ('invalid', 'the fragment changed the construct around it')
    if e.kind == 'one':
        if not isinstance(hole, list) or len(hole) != 1:
            return ('invalid', f'expected exactly one element, embedding has {len(hole) if isinstance(hole, list) else "?"}')
        exp = hole[0]
    elif e.kind == 'tail':
        if hole[0].ifs or ast.dump(hole[0]) != ast.dump(_get(t0, e.path)[0]):
            return ('invalid', 'fragment attached to the wrapper comprehension')        # its conditions, or its iterable ('.y for a in b' continues `_`)
        exp = hole[1:]
    else:
        exp = hole
    if mode == 'expr_all' and isinstance(exp, ast.Tuple) and len(exp.elts) == 1 and isinstance(exp.elts[0], ast.Starred) and not any(t.string == ',' for t in ts[-1:]):
        exp = exp.elts[0]      # `*a` alone: the subscript makes a one-element tuple of it, the mode's result is the Starred (a trailing comma makes it a Tuple)
    # the fragment's tokens must all belong to the result (nothing of it may have been taken for wrapper syntax)
    k = e.k
    nodes = exp if isinstance(exp, list) else [exp]
    if mode in ('withitem', '_withitems') and ts:
        # the embedding `with (...)` makes a bare yield / walrus legal as ITS parenthesized expression; as a with-item (`with <items>: pass`, the grammar's `expression`) it needs parentheses of its own
        lines_ = src.split('\n')
        b_ = lambda t: (t.start[0], len(lines_[t.start[0] - 1][:t.start[1]].encode()))
        be_ = lambda t: (t.end[0], len(lines_[t.end[0] - 1][:t.end[1]].encode()))
        for it in nodes:
            ce = getattr(it, 'context_expr', None)
            if isinstance(ce, (ast.NamedExpr, ast.Yield, ast.YieldFrom)):
                s_ = (ce.lineno - e.k, ce.col_offset)
                en_ = (ce.end_lineno - e.k, ce.end_col_offset)
                prev = [t for t in ts if be_(t) <= s_]
                nxt = [t for t in ts if b_(t) >= en_]
                if not (prev and prev[-1].string == '(' and nxt and nxt[0].string == ')'):
                    return ('invalid', 'a yield / named expression as with-item must be parenthesized')
    if nodes and all(hasattr(n, 'lineno') for n in nodes) and ts and mode not in ('exec',):
        first, last = nodes[0], nodes[-1]
        if mode in ('_decorator_list', '_comprehension_ifs'):
            if mode == '_comprehension_ifs' and sum(t.string == 'if' for t in ts) < len(nodes):
                return ('invalid', 'fewer if keywords than conditions')
        else:
            if (first.lineno <= k or last.end_lineno - k > src.count('\n') + 1) and not isinstance(first, (ast.Tuple, ast.MatchSequence)):
                return ('invalid', 'the element extends into the wrapper (it uses the delimiters of the embedding as its own)')
            s = (first.lineno - k, first.col_offset)
            if getattr(first, 'decorator_list', None):
                s = (first.decorator_list[0].lineno - k, 0)
            en = (last.end_lineno - k, last.end_col_offset)
            lines = src.split('\n')
            b = lambda t: (t.start[0], len(lines[t.start[0] - 1][:t.start[1]].encode()))
            be = lambda t: (t.end[0], len(lines[t.end[0] - 1][:t.end[1]].encode()))
            lead = [t for t in ts if be(t) <= s]
            trail = [t for t in ts if b(t) >= en]
            if any(t.string != '(' for t in lead) or any(t.string not in ((')', ',', ';') if mode == 'stmt' else (')', ',')) for t in trail) or sum(t.string == '(' for t in lead) != sum(t.string == ')' for t in trail):
                # tokens outside the result other than balanced enclosing parentheses / a trailing comma
                if not (mode in ('expr', 'pattern', 'expr_slice', 'expr_arglike', 'expr_all') and isinstance(first, (ast.Tuple, ast.MatchSequence))):
                    return ('invalid', 'part of the fragment lies outside the parsed element')
    return ('valid', exp, k)


def shifted(node, k):
    n = copy.deepcopy(node)
    if k:
        for a in ast.walk(n):
            if getattr(a, 'end_lineno', None) is not None:
                a.lineno -= k
                a.end_lineno -= k
    return n


# ---- fragment sources ----------------------------------------------------------------------------------------------
def fragments_from(tree, rng):
    out = collections.defaultdict(list)
    for n in ast.walk(tree):
        try:
            if isinstance(n, ast.expr) and not isinstance(n, (ast.Slice,)):
                u = ast.unparse(n)
                if not isinstance(n, ast.Starred):
                    out['expr'].append(u)
                out['expr_arglike'].append(u)
            if isinstance(n, ast.Subscript):
                out['expr_slice'].append(ast.unparse(n.slice) if not isinstance(n.slice, ast.Tuple) else ast.unparse(n)[len(ast.unparse(n.value)) + 1:-1])
            if isinstance(n, ast.keyword):
                out['keyword'].append(ast.unparse(n))
            if isinstance(n, (ast.FunctionDef, ast.AsyncFunctionDef)):
                out['arguments'].append(ast.unparse(n.args))
                if n.decorator_list:
                    out['_decorator_list'].append('\n'.join('@' + ast.unparse(d) for d in n.decorator_list))
                for a in n.args.args + n.args.kwonlyargs + n.args.posonlyargs:
                    out['arg'].append(ast.unparse(a))
                if getattr(n, 'type_params', None):
                    out['_type_params'].append(', '.join(ast.unparse(t) for t in n.type_params))
                    for t in n.type_params:
                        out['type_param'].append(ast.unparse(t))
            if isinstance(n, ast.Lambda):
                out['arguments_lambda'].append(ast.unparse(n.args))
            if isinstance(n, ast.Import):
                out['_Import_names'].append(', '.join(ast.unparse(a) for a in n.names))
                for a in n.names:
                    out['Import_name'].append(ast.unparse(a))
            if isinstance(n, ast.ImportFrom):
                out['_ImportFrom_names'].append(', '.join(ast.unparse(a) for a in n.names))
                for a in n.names:
                    out['ImportFrom_name'].append(ast.unparse(a))
            if isinstance(n, (ast.With, ast.AsyncWith)):
                out['_withitems'].append(', '.join(ast.unparse(a) for a in n.items))
                for a in n.items:
                    out['withitem'].append(ast.unparse(a))
            if isinstance(n, (ast.Try, ast.TryStar)) and n.handlers:
                out['_ExceptHandlers'].append('\n'.join(ast.unparse(h) for h in n.handlers))
                for h in n.handlers:
                    out['ExceptHandler'].append(ast.unparse(h))
            if isinstance(n, ast.match_case):
                out['pattern'].append(ast.unparse(n.pattern))
            if isinstance(n, (ast.ListComp, ast.SetComp, ast.GeneratorExp, ast.DictComp)):
                out['_comprehensions'].append(' '.join(ast.unparse(g).strip() for g in n.generators))
                for g in n.generators:
                    out['comprehension'].append(ast.unparse(g).strip())
                    if g.ifs:
                        out['_comprehension_ifs'].append(' '.join('if ' + ast.unparse(i) for i in g.ifs))
            if isinstance(n, ast.stmt):
                out['stmt'].append(ast.unparse(n))
        except Exception:
            continue
    return out


HOSTILE = {
    'expr': ['( (a)),\nb', '(\n (a)\n),\nb', '((a)),\nb', '( # c\n(a)),\nb', '( ( (a) ) ),\n(b)', '((a),\n b), c', 'a,\n"é"', '"é",\n"ü", "ö"', 'a,\n"é",', '"ключ",\n  ñ', 'a,\nü.é', "'é';", "f('ü', 'ö');", 'ä;', ')+(', 'a),(b', 'a) if (b', 'a, b', 'a,\nb', '*a', '*a,', 'a:b', 'x for x in y', '', '#c', 'a;', 'a\nb', 'yield', 'a := b', '(a', 'a)', 'a # c\n', '\\\na', ' a', 'a if b', '*not a', 'lambda: a, b'],
    'expr_slice': ['a:b', 'a:b:c, d', '*a', '*not a', '][', 'a][b', ':', '::', 'a,', '', 'x for x in y', 'a:b]=[c'],
    'expr_all': ['a,\n"é"', '*ü,\n"é"', '*a\n ,', '*ab\n  ,', '*a  # c\n ,', '*é\n  ,', '*a,', '*a\n,', '*a', 'a:b', 'a:b:c, d', 'a, b', 'a,\nb', '*a, *b', '*a\n, b', 'x for x in y', '', 'a := b', 'yield', '*not a', '*a\n  ,  # c',
                 '*(a)\n ,', '*a \\\n ,', ')+(', 'a][b', 'a)(b', ':', '*a:b'],
    'expr_arglike': ['( (a)),\nb', '(\n (a)\n),\n*b', 'f(a ,\n b)', 'f(a,\n b),', '*f(a,\n b)\n,', '*a', '*not a', 'a, b', 'a=b', '**a', 'x for x in y', ')(', 'a)(b', '', 'a:b'],
    '_arglikes': ['x=1,\n*b', '  a,\nb, c=1', '        k=1,\n    *s,\n**kw', 'a, b', 'a, *b, k=1, **d', '', 'a)(b', 'a for x in y', '(a for x in y), b', 'k=1, *a', 'a,', '*a, b=c, *d', 'a=1, b', 'a,\n      k=v,\n  *c,\nj=w',
                  '**d, k=1', 'a\n,\nk=1\n,', ')(', 'a, # c\n b=1 # d\n', 'é=1,\n*ü'],
    '_arglike': ['f(a ,\n b)', 'f(a,\n b),', 'k=f(a,\n b)\n,', '*f(a ,\n b)', 'a for x in y', '(a for x in y)', '*a', '**k', 'k=v', 'a, b', 'a=b, c', '', 'a)(b', ')(', '*not a', 'k=x for x in y', 'a := b', 'yield', '(yield)', 'a,', 'k=v,'],
    'keyword': ['a=(1 ,\n 2)', 'a=(1,\n 2),', 'a=(1,\n 2)\n,', 'a=1', 'a=1, b=2', '**k', 'a', 'a=1)(b=2', 'a=1), _(b=2', '', 'a=(yield)', 'a = 1,', 'a=1 # c', '*a', 'a==1', 'a=x for x in y'],
    'arguments': ['a: pass #', 'a): pass #', ')->(', 'a)->(b', 'a, b=1, /, c, *, d, **e', '', '*', 'a=', 'a: int=3', '*a: *b', '): pass\ndef g(', 'a,', '/', 'self, /,', '**k,'],
    'arguments_lambda': [': lambda', 'a: b', 'a, *b, c=1, **d', '', 'a=1: None)+(lambda', 'a,', '*'],
    'arg': ['a: pass #', 'a: (b ,\n c)', 'a: (b,\n c),', 'a: (b,\n c)\n,', 'a: *b, **c', 'a: *b, c', 'a: *b, *, c', 'a: *b = 1', 'a: *b, /', 'a: *b,', 'a', 'a: int', 'a=1', 'a, b', '*a', 'a: *b', '', 'a)->(b', 'a: (x := 1)'],
    'Import_name': ['a', 'a.b as c', '*', 'a, b', 'a as b, c', '', 'a;b', 'a.b.c', '(a)', 'a as'],
    'ImportFrom_name': ['a', 'a as b', '*', 'a.b', 'a, b', '', '(a)', 'a)\nfrom . import (b'],
    '_Import_names': ['a, b.c as d', 'a,', '', '*', 'a;import b'],
    '_ImportFrom_names': ['a, b as c', '*', 'a,', '', '*, a', 'a)\nfrom . import (b'],
    'withitem': ['(a ,\n b) as c', 'a as (b ,\n c)', 'a as (b,\n c),', 'a as (b,\n c)\n,', 'a', 'a as b', 'a, b', '(a, b)', '(a, b) as c', 'a as b,', '', 'a)as(b', 'a): pass\nwith (b', 'x for x in y', '(yield)', 'yield', 'a := b', '(a) as (b)', 'a as (b, c)', 'a as b.c', '(a as b)',
                 'yield from x', 'yield x', '(yield from x)', 'yield from x as y', 'yield as y', 'a := b as c', '(a := b) as c', 'lambda: x', 'lambda: x as y', 'await a', 'await a as b', '*a', '*a as b', 'a if b else c', 'not a as b', 'a for a in b as c'],
    '_withitems': ['a) as (b', 'a)as(b', 'a) as (b,', 'f(a)) as (b', 'a, b', 'a as b, c as d', '(a, b)', '(a), (b)', '', 'a,', 'a), (b', '(a as b), c', 'a as b)if(c', 'yield from x', 'a, yield from x', 'yield from x, a', 'yield x, a', 'a, b := c', 'a, (yield from x)', 'a as b, yield', 'lambda: x, a', '*a, b', 'a, await b as c'],
    'ExceptHandler': ['except: pass', 'except E as e:\n    pass', 'except* E: pass', 'except: pass\nexcept: pass', 'except: pass\nelse: pass', 'finally: pass', '', 'except (A, B): pass',
                      ' except: pass', 'except: pass\nfinally: pass\ntry: pass'],
    '_ExceptHandlers': ['except A: pass\nexcept B: pass', '', 'except: pass\nelse: pass', 'except* A: pass\nexcept* B: pass', 'except A: pass\nexcept* B: pass'],
    'pattern': ['( (a)),\nb', '(\n (a)\n),\nb', '((a)),\nb', '( ( (a) ) ),\n(b)', 'a,\n"é"', '"é",\n*ü', 'ñ,\n"é",', '"é" |\n"ü"', 'a', '1', 'a | b', '[a, *b]', 'a, b', '*a', '{1: a, **r}', 'C(x, y=1)', 'a as b', '(a)', '', 'a) if (b', 'a): pass\n case (b', 'a if b', '1 + 2j', '-1', 'a.b', '_', '[a]if[b]', 'x]if[',
                # text that ends the wrapper's header itself and hides the wrapper's own ': pass' behind a comment
                'a: pass #', '1: pass # c', 'a | b: pass  #', '[a, b]: pass#', 'a: pass # c\n', 'a: x = 1 #', 'a: pass; y #', 'a if b: pass #'],
    'comprehension': ['(x) for a in b', '+ 1 for a in b', '.y for a in b', '[0] for a in b', 'if z else w for a in b', ', q for a in b', 'for a in b', 'for a in b if c', 'async for a in b', 'for a in b for c in d', 'if a', '', 'for a in b]+[c', 'for a, b in c if d if e', 'for a in b,'],
    '_comprehensions': ['.y for a in b', '(x) for a in b', '+ 1 for a in b', '[0] for a in b', 'or z for a in b', 'if q else r for a in b', 'for a in b for c in d', '', 'if x for a in b', 'for a in b] + [c for d in e'],
    '_comprehension_ifs': ['.y if a', '(x) if a', '+ 1 if a', 'or z if a', 'if a if b', '', 'for a in b', 'if a for b in c', 'if a] + [b'],
    '_decorator_list': ['@a', '@a\n@b(c)', '', 'a', '@a\nclass X: pass\n@b', '@a # c\n\n@b', '@(yield)'],
    'type_param': ['T: (a ,\n    b)', 'T\n,', 'T,\n', 'T: (a,\n b) # c\n,', 'T: (a,\n b),', 'T: (a,\n b)  ,', 'T = (a ,\n b)', '*Ts = (a,\n b),', 'T', 'T: int', '*Ts', '**P', 'T, U', '', 'T = int', 'T] = int; type X[U'],
    '_type_params': ['T, U', 'T: int, *Ts, **P', '', 'T,', 'T] = int; type X[U'],
    'stmt': ["'é';", "x = 'ü'; y", 'a', 'a = 1', 'a; b', 'a\nb', 'if a: pass', '', 'pass;', ' a', '# c', 'if a:\n  pass\nelse:\n  pass'],
}
# text that closes the wrapper of the mode, goes on as the BODY / rest of the wrapping construct on further (indented) lines and opens what the wrapper's tail then closes
ESCAPES = {
    '_more_hostile': [],
    'arguments': ['a):\n  def g(b', 'a):\n  x = (b', 'a) -> c:\n  def g(b', '):\n  def g(b', 'a=(1)):\n  def g(b=(2)'],
    'arg': ['a):\n  def g(b', 'a: int):\n  def g(b', 'a):\n  x = (b'],
    'arguments_lambda': ['a: 0\nlambda b', 'a: (0)\n(lambda b'],
    '_withitems': ['a):\n with (b', 'a as x):\n with (b', 'a):\n  x = (b', 'a, b):\n with (c, d'],
    'withitem': ['a):\n with (b', 'a as x):\n with (b'],
    'pattern': ['a:\n  match b:\n   case c', 'a:\n  x\n case c', 'a:\n  pass\n case c', '[a]:\n  match b:\n   case [c]'],
    'expr_slice': ['b].x[c', 'b]()[c', 'b] + d[c', 'b], e[c', 'b][0].x[c', 'b] if d else e[c'],
    'expr': ['a)\n(b', 'a).x(b', 'a)()(b', 'a) + (b'],
    'expr_arglike': ['a)\n_(b', 'a).x(b', '*a)\n_(*b'],
    '_arglike': ['a)\n_(b', 'a).x(b', 'k=a)\n_(j=b'],
    'keyword': ['a=1)\n_(b=2', 'a=1).x(b=2'],
    '_type_params': ['T]():\n  def g[U', 'T] = int\ntype Y[U'],
    'type_param': ['T]():\n  def g[U', 'T] = int\ntype Y[U'],
    '_comprehension_ifs': ['if a]\n[x for x in y if b', 'if a].x[b'],
    'comprehension': ['for a in b]\n[c for d in e', 'for a in b].x[c'],
    '_comprehensions': ['for a in b]\n[c for d in e'],
    'ImportFrom_name': ['a)\nfrom . import (b', 'a as x)\nfrom . import (b'],
    '_ImportFrom_names': ['a, c)\nfrom . import (b'],
    '_decorator_list': ['@a\ndef f(): pass\n@b', '@a\nclass X:\n  pass\n@b'],
    'ExceptHandler': ['except A: pass\nfinally: pass\ntry: pass\nexcept B: pass', 'except A:\n  try: pass\n  except B: pass'],
}


def relayout_fragment(src, rng, mode):
    """insert newlines / comments / continuation after commas and inside brackets; add surrounding comment lines"""
    ts = toks(src, wrapped=mode not in STMTLIKE)
    if not ts or '\n' in src and mode in ('stmt', 'ExceptHandler', '_ExceptHandlers', '_decorator_list'):
        return src
    out = []
    depth = 0
    wrapped = mode not in ('stmt', 'Import_name', '_Import_names', 'ImportFrom_name', '_ImportFrom_names', 'ExceptHandler', '_ExceptHandlers', '_decorator_list')
    prev_end = (1, 0)
    lines = src.split('\n')
    for i, t in enumerate(ts):
        gap = ''
        if t.start[0] == prev_end[0]:
            gap = lines[t.start[0] - 1][prev_end[1]:t.start[1]]
        else:
            gap = '\n' + lines[t.start[0] - 1][:t.start[1]]
        out.append(gap)
        out.append(t.string)
        if t.string in '([{':
            depth += 1
        elif t.string in ')]}':
            depth -= 1
        prev_end = t.end
        if i + 1 < len(ts) and (depth > 0 or wrapped) and t.string in (',', '(', '[', '{') and rng.random() < 0.3:
            out.append(rng.choice(['\n', '\n    ', '  # c\n  ', '\n\n ', ' \\\n ']))
    s = ''.join(out)
    r = rng.random()
    if wrapped and r < 0.15:
        s = '# lead\n' + s
    elif wrapped and r < 0.3:
        s = s + '  # trail'
    elif wrapped and r < 0.4:
        s = '\n' + s + '\n'
    elif r < 0.5:
        s = s + ' '
    return s


def multibyte(src, rng):
    names = {'a': 'ä', 'b': 'β', 'x': 'χ', 'foo': 'fö', 'bar': 'bär', 'c': 'ç', 'y': 'ý'}
    return re.sub(r'\b[a-z_][a-z0-9_]*\b', lambda m: names.get(m.group(0), m.group(0)) if rng.random() < 0.5 else m.group(0), src)


def stage_whole(ctx: Ctx, progs):
    import fst
    rng = ctx.rng
    for pi, src0 in enumerate(progs):
        for variant in range(2):
            src = src0 if not variant else relayout(src0, rng)
            try:
                ref = ast.parse(src)
            except SyntaxError:
                continue
            ctx.tick(('whole', pi, variant), 'whole:exec')
            for how in ('FST', 'fromsrc', 'parse'):
                try:
                    f = fst.FST(src, 'exec') if how == 'FST' else fst.FST.fromsrc(src, 'exec') if how == 'fromsrc' else fst.parse(src).f
                except Exception as e:
                    ctx.violation(f'whole-rejected|{how}', 'a valid program was rejected', {'src': src, 'error': repr(e)})
                    continue
                if f.src != src:
                    ctx.violation(f'whole-lossy|{how}', 'building a tree changed the source text', {'src': src, 'got': f.src})
                d = cmp_ast(f.a, ref, positions=True)
                if d:
                    ctx.violation(f'whole-tree|{how}', 'the tree differs from CPython\'s parse', {'src': src, 'diffs': d})
        if pi == 0:
            # line endings: the lines the tree is positioned on must be the lines CPython positioned it on - every node's source must be readable
            for lsrc in ['x = 1\r\ny = 2', 'a = 1\r\n', 'a\rb', 'if x:\r    y\r', 's = \'\'\'a\rb\'\'\'\nt = 1', 'a = 1\r\nb = "c\rd"\r\n', 'a = 1 \\\r\n  + 2\r\n']:
                try:
                    ref = ast.parse(lsrc)
                except (SyntaxError, ValueError):
                    continue
                ctx.tick(('whole-eol', lsrc), 'whole:line-endings')
                try:
                    f = fst.FST(lsrc, 'exec')
                except (SyntaxError, ValueError, fst.NodeError):
                    continue      # refusing such a source is consistent
                except Exception as e:
                    ctx.violation('line-endings|lone-carriage-return' if re.search(r'\r(?!\n)', lsrc) else f'line-endings|crash|{type(e).__name__}',
                                  'building a tree from a source with carriage returns crashed', {'src': lsrc, 'error': repr(e)[:200]})
                    continue
                try:
                    ok = f.src == lsrc and not cmp_ast(f.a, ref, positions=True)
                    for g in f.walk(True):
                        if isinstance(g.a, (ast.stmt, ast.expr)) and g.loc is not None:
                            seg = ast.get_source_segment(lsrc, g.a)
                            if seg is not None and g.src.replace('\r', '\n') != seg.replace('\r\n', '\n').replace('\r', '\n') and g.src != seg:
                                ok = False
                    if not ok:
                        ctx.violation('line-endings|inconsistent', 'the tree built from a source with carriage returns is not positioned on its own lines', {'src': lsrc, 'lines': list(f.lines)})
                except Exception as e:
                    sig = 'line-endings|lone-carriage-return' if re.search(r'\r(?!\n)', lsrc) else 'line-endings|unreadable'
                    ctx.violation(sig, 'reading node sources of a tree built from a source with carriage returns raised (CPython counts a lone \\r as a line break, the stored lines do not)',
                                  {'src': lsrc, 'lines': list(f.lines), 'error': repr(e)[:200]})
        # an expression in eval mode
        exprs = [n for n in ast.walk(ast.parse(src0)) if isinstance(n, ast.expr) and not isinstance(n, (ast.Starred, ast.Slice))]
        if exprs:
            es = ast.unparse(rng.choice(exprs))
            try:
                ref = ast.parse(es, mode='eval')
            except SyntaxError:
                continue
            try:
                f = fst.FST(es, 'eval')
                d = cmp_ast(f.a, ref, positions=True)
                if d or f.src != es:
                    ctx.violation('whole-tree|eval', 'eval mode tree/source differs from CPython', {'src': es, 'diffs': d})
            except Exception as e:
                ctx.violation('whole-rejected|eval', 'a valid expression was rejected in eval mode', {'src': es, 'error': repr(e)})


ALLOWED_REJECT = [
    ('withitem', 'must be parenthesized'), ('_withitems', 'must be parenthesized'),
]


def check_fragment(ctx, mode, src, origin):
    import fst
    try:
        verdict = judge(mode, src)
    except RuntimeError as e:
        ctx.broken.append({'kind': 'harness', 'name': 'judge', 'detail': str(e)})
        return
    try:
        f = fst.FST(src, mode)
        err = None
    except (SyntaxError, ValueError, fst.NodeError) as e:
        f, err = None, e
    except Exception as e:
        ctx.violation(f'crash|{mode}|{type(e).__name__}', 'the parser raised something other than a syntax/parse error', {'mode': mode, 'src': src, 'error': repr(e)})
        return
    ctx.tick((mode, src), f'frag:{mode}:{origin}:{"valid" if verdict[0] == "valid" else "invalid"}')
    rec = {'mode': mode, 'src': src, 'origin': origin, 'verdict': verdict[0], 'why': verdict[1] if verdict[0] == 'invalid' else None}
    if f is None:
        if verdict[0] == 'valid' and origin != 'hostile':
            if any(mode == m and s in str(err) for m, s in ALLOWED_REJECT):
                return
            if mode in ('Import_name', '_Import_names', 'ImportFrom_name', '_ImportFrom_names') and ('#' in src or re.search(r'\n\s*\n|^\s*\n|\n\s*$', src)):
                return   # the alias modes are the unparenthesized import forms: no comments / blank lines
            ctx.violation(f'valid-rejected|{mode}', 'a fragment that is valid for the mode (it parses inside the full construct, untouched around it) was rejected',
                          {**rec, 'error': repr(err)})
        return
    if f.src != src:
        ctx.violation(f'lossy|{mode}', 'building the tree changed the source text', {**rec, 'got': f.src})
        return
    if verdict[0] == 'invalid':
        ctx.violation(f'invalid-accepted|{mode}', 'a fragment that is not valid for the mode was accepted', {**rec, 'tree': ast.dump(f.a)[:300]})
        return
    exp, k = verdict[1], verdict[2]
    if mode in LISTFIELD:
        got = getattr(f.a, LISTFIELD[mode], None)
        if got is None:
            ctx.violation(f'result-kind|{mode}', 'the result is not the expected slice holder', {**rec, 'tree': ast.dump(f.a)[:300]})
            return
        pairs = list(zip(got, exp)) if len(got) == len(exp) else None
        if pairs is None:
            ctx.violation(f'result-len|{mode}', 'the result has a different number of elements than the full construct', {**rec, 'got': len(got), 'want': len(exp)})
            return
    else:
        pairs = [(f.a, exp)]
    for g, x in pairs:
        xs = shifted(x, k)
        skip_root = isinstance(x, (ast.Tuple, ast.MatchSequence)) and mode in ('expr', 'pattern', 'expr_slice', 'expr_arglike', 'expr_all') and x.lineno <= k
        if skip_root:
            # the embedding parenthesizes an unparenthesized sequence, so its own span is not the reference's: it must run from its first element to (at least) the end of
            # its last one and not beyond the last code character of the source
            kids = list(getattr(g, 'elts', None) or getattr(g, 'patterns', None) or [])
            if kids:
                first, last = kids[0], kids[-1]
                srcb = [l.encode() for l in src.split('\n')]
                code_end = max(((i + 1, len(l.split(b'#')[0].rstrip())) for i, l in enumerate(srcb) if l.split(b'#')[0].strip()), default=(1, 0))
                # the sequence starts where the fragment's first token starts (the first element with ALL the parentheses of its own, whatever stands between them)
                ft = next(iter(toks(src, wrapped=True) or []), None)
                lead_ok = ft is not None and (g.lineno, g.col_offset) == (ft.start[0], len(src.split('\n')[ft.start[0] - 1][:ft.start[1]].encode()))
                if not lead_ok or (g.end_lineno, g.end_col_offset) < (last.end_lineno, last.end_col_offset) or \
                        ((g.end_lineno, g.end_col_offset) > code_end and "'" not in src and '"' not in src):
                    ctx.violation(f'tree|{mode}|unparenthesized-sequence-span', 'an unparenthesized sequence does not span from its first element to the end of its last one',
                                  {**rec, 'span': [g.lineno, g.col_offset, g.end_lineno, g.end_col_offset], 'first_element_start': [first.lineno, first.col_offset],
                                   'last_element_end': [last.end_lineno, last.end_col_offset]})
                    return
            for p in ('lineno', 'col_offset', 'end_lineno', 'end_col_offset'):
                setattr(xs, p, getattr(g, p, None))
        d = cmp_ast(g, xs, positions=True)
        if d:
            ctx.violation(f'tree|{mode}', 'the result differs from the sub-tree of the full construct (positions relative to the fragment)', {**rec, 'diffs': d})
            return


MATCH_CASES = [
    'case 1: pass', 'case [a, *b]:\n    x = a', 'case {"k": v, **r} if v:\n    pass\n    y = 1', 'case C(a, b=c) as d: pass',
    'case 1:\n  f("""a\nb""" + (1,\n    2))', 'case _:\n    s = \'\'\'x\n  y\'\'\'\n    t = (s,\n         2)', 'case "é" | "ü":\n    z = "ö" + (q,\n  r)',
    'case (1 |\n      2): pass', 'case [\n    a,  # c\n    b,\n]:\n    pass', 'case x if (x >\n           1):\n    g(x)  # trailing',
    'case 1: pass\ncase 2: pass', 'case 1:\n    """doc\n    more"""\ncase _:\n    u = f"""{a}\n{b}""" + (c,\n d)',
    'case 1: pass\nelse: pass', 'x = 1', '', 'case: pass', ' case 1: pass', 'case 1: pass\n  case 2: pass', 'case 1:\npass',
]


def check_match_cases(ctx, mode, src):
    """match_case / _match_cases: the fragment is embedded below `match _:` with one space of indentation on every line that
    is not the continuation of a multi-line string; positions are compared after removing that line and that column"""
    import fst
    lines = src.split('\n')
    cont = set()
    try:
        for t in tokenize.generate_tokens(io.StringIO(src).readline):
            if t.type in (tokenize.STRING, getattr(tokenize, 'FSTRING_MIDDLE', -1)) and t.end[0] > t.start[0]:
                cont.update(range(t.start[0], t.end[0]))     # 0-based indices of the lines after the first
    except (tokenize.TokenError, IndentationError, SyntaxError):
        cont = None
    verdict = None
    first = next((l for l in lines if l.strip() and not l.lstrip().startswith('#')), '')
    if cont is not None and first[:1] not in (' ', '\t'):      # a statement-like fragment starts at column 0
        emb = 'match _:\n' + '\n'.join((l if i in cont else ' ' + l) for i, l in enumerate(lines))
        try:
            t1 = ast.parse(emb)
            ok = len(t1.body) == 1 and isinstance(t1.body[0], ast.Match) and (mode == '_match_cases' or len(t1.body[0].cases) == 1)
            verdict = t1.body[0].cases if ok else None
        except SyntaxError:
            verdict = None
    if not src.strip() and mode == '_match_cases':
        verdict = []
    try:
        f = fst.FST(src, mode)
        err = None
    except (SyntaxError, ValueError, fst.NodeError) as e:
        f, err = None, e
    except Exception as e:
        ctx.violation(f'crash|{mode}|{type(e).__name__}', 'the parser raised something other than a syntax/parse error', {'mode': mode, 'src': src, 'error': repr(e)})
        return
    ctx.tick((mode, src), f'frag:{mode}:' + ('valid' if verdict is not None else 'invalid'))
    rec = {'mode': mode, 'src': src, 'verdict': 'valid' if verdict is not None else 'invalid'}
    if f is None:
        if verdict is not None and verdict != []:
            ctx.violation(f'valid-rejected|{mode}', 'a valid case block was rejected', {**rec, 'error': repr(err)})
        return
    if f.src != src:
        ctx.violation(f'lossy|{mode}', 'building the tree changed the source text', {**rec, 'got': f.src})
        return
    if verdict is None:
        ctx.violation(f'invalid-accepted|{mode}', 'a fragment that is not valid for the mode was accepted', {**rec, 'tree': ast.dump(f.a)[:300]})
        return
    got = f.a.cases if mode == '_match_cases' else [f.a]
    if len(got) != len(verdict):
        ctx.violation(f'result-len|{mode}', 'different number of cases', {**rec, 'got': len(got), 'want': len(verdict)})
        return
    for g, x in zip(got, verdict):
        xs = copy.deepcopy(x)
        for a in ast.walk(xs):
            if getattr(a, 'end_lineno', None) is not None:
                a.lineno -= 1
                a.end_lineno -= 1
                if (a.lineno - 1) not in cont:
                    a.col_offset -= 1
                if (a.end_lineno - 1) not in cont:
                    a.end_col_offset -= 1
        d = cmp_ast(g, xs, positions=True)
        if d:
            ctx.violation(f'tree|{mode}', 'the result differs from the cases of the full match statement (positions relative to the fragment)', {**rec, 'diffs': d})
            return


def stage_fragments(ctx: Ctx, progs):
    rng = ctx.rng
    pool = collections.defaultdict(list)
    for src in progs:
        try:
            t = ast.parse(src)
        except SyntaxError:
            continue
        for m, l in fragments_from(t, rng).items():
            pool[m] += l
    per_mode = ctx.scale(45, 600)
    pool['_arglike'] = pool.get('expr_arglike', [])[::2] + pool.get('keyword', [])[::2]
    pool['_arglikes'] = []
    pos_pool = [x for x in pool.get('expr_arglike', []) if '\n' not in x and not x.lstrip().startswith('*')][:40] or ['a', 'b.c', 'f(x)']
    kw_pool = [x for x in pool.get('keyword', []) if '\n' not in x and not x.lstrip().startswith('**')][:40] or ['k=v', 'j=1']
    for _ in range(ctx.scale(40, 400)):
        parts = [rng.choice(pos_pool) for _ in range(rng.randrange(0, 3))] + [rng.choice(kw_pool) for _ in range(rng.randrange(0, 3))]
        if rng.random() < 0.5:
            parts.append('*' + rng.choice(['st', 'rest.x', 'g()']))
        if rng.random() < 0.3:
            parts.append(rng.choice(kw_pool))
        if rng.random() < 0.3:
            parts.append('**kw')
        # every element on its own line, each at a random indentation (a later line may start left of an earlier one)
        pool['_arglikes'].append(',\n'.join(' ' * rng.randrange(0, 9) + p_ for p_ in parts) if rng.random() < 0.7 else ', '.join(parts))
    pool['expr_all'] = pool.get('expr', [])[::3] + pool.get('expr_slice', [])[::2] + pool.get('expr_arglike', [])[::3]
    for mode in list(EMB) + ['_arglikes']:
        if mode == 'exec':
            continue
        cands = list(dict.fromkeys(pool.get(mode, [])))
        rng.shuffle(cands)
        for src in cands[:per_mode]:
            check_fragment(ctx, mode, src, 'plain')
            v = relayout_fragment(src, rng, mode)
            if v != src:
                check_fragment(ctx, mode, v, 'layout')
            if rng.random() < 0.4:
                v = multibyte(relayout_fragment(src, rng, mode) if rng.random() < 0.5 else src, rng)
                check_fragment(ctx, mode, v, 'multibyte')
        for src in ESCAPES.get(mode, []):
            check_fragment(ctx, mode, src, 'hostile')
        for src in HOSTILE.get(mode, []):
            check_fragment(ctx, mode, src, 'hostile')
            for _ in range(2):
                v = multibyte(src, rng)
                if v != src:
                    check_fragment(ctx, mode, v, 'hostile')
            if mode in ('expr', 'stmt', 'expr_arglike') and src:
                check_fragment(ctx, mode, "'é' + " + src, 'hostile')
                check_fragment(ctx, mode, src + "  # é", 'hostile')
            # splice hostile text into valid fragments
        for src in cands[:ctx.scale(6, 60)]:
            for h in (')+(', ') if (', '], [', ': pass\n', ')->(', ',', ' as b), (c'):
                kk = rng.randrange(0, len(src) + 1)
                check_fragment(ctx, mode, src[:kk] + h + src[kk:], 'hostile')
    # match_case / _match_cases
    mc = list(MATCH_CASES)
    for src in progs:
        try:
            for n in ast.walk(ast.parse(src)):
                if isinstance(n, ast.Match):
                    mc += [ast.unparse(c) for c in n.cases]
                    mc.append('\n'.join(ast.unparse(c) for c in n.cases))
        except SyntaxError:
            pass
    for src in list(dict.fromkeys(mc)):
        for mode in ('match_case', '_match_cases'):
            check_match_cases(ctx, mode, src)
            v = multibyte(src, rng)
            if v != src:
                check_match_cases(ctx, mode, v)
    # operators
    import fst
    for mode, (pre, post, ext, fam) in OPMODES.items():
        for op in ['+', '-', '*', '@', '/', '%', '**', '<<', '>>', '|', '^', '&', '//', 'and', 'or', 'not', '~', '==', '!=', '<', '<=', '>', '>=', 'is', 'is not', 'in',
                   'not in', 'is  not', 'not  in', ' + ', '+ # c', '', '+ +', '=', ':=', 'if', 'is\\\nnot', '<>', '+=', '->',
                   # a backslash that is no line continuation is not trivia
                   '+\\a', '+\\', '+ \\\n', 'and\\a', 'is \\a not', 'not in\\x', 'not\\\nin', '- \\ \n', '* # c \\\n']:
            try:
                t_ = ast.parse(pre + op + post)
                want = type(ext(t_)) if type(t_.body[0].value) is fam else None
                if mode == 'cmpop' and want is not None and len(t_.body[0].value.ops) != 1:
                    want = None
                # the operator text alone must be all of the fragment
                if mode == 'unaryop' and op.strip() in ('+ +',):
                    want = None
            except Exception:
                want = None
            nt = len(toks(op, wrapped=True) or [])
            if want is not None and nt != (2 if [t.string for t in toks(op, wrapped=True)] in (['is', 'not'], ['not', 'in']) else 1):
                want = None
            try:
                got = type(fst.FST(op, mode).a)
            except (SyntaxError, ValueError):
                got = None
            except Exception as e:
                ctx.violation(f'crash|{mode}', 'operator parse raised an unexpected error', {'mode': mode, 'src': op, 'error': repr(e)})
                continue
            ctx.tick((mode, op), f'frag:{mode}')
            if got is not want and not (want is None and got is not None and op.strip().endswith('=') and mode == 'operator'):
                ctx.violation(f'operator|{mode}', 'operator mode result differs from the operator of the full expression', {'mode': mode, 'src': op, 'got': str(got), 'want': str(want)})


ALL_FIRSTS = ['yield a', 'yield', 'yield from a', 'await x', 'await a.b', 'lambda: 0', 'lambda a, *b: (a, b)', 'a', 'match', 'type', 'case', 'True', 'None', 'False', 'if a: pass', 'for a in b: pass',
              'async def f(): pass', 'pass', 'x = 1', '(a)', '[a]', '-a', '"s"', '1', '*a, = b', '@d\ndef f(): pass', 'not a', '~a', '...', 'f"{a}"', 'match a:\n case 1: pass', 'type X = int',
              'del a', 'import a', 'from a import b', 'with a: pass', 'try: pass\nfinally: pass', 'class c: pass', 'global a', 'return', 'raise', 'assert a', 'while a: pass', 'é = 1', '"é"',
              'b"x"', '{a: b}', '{a}', 'a if b else c', 'a, b', 'a.b', 'a[b]', 'a(b)', 'a: int', 'a += 1', 'a := 1', 'match.x', 'type[x]', 'async for a in b: pass', 'async with a: pass',
              'yield \\\n  v', 'await g(\n    ä,\n)', 'lambda: None  # c', 'a as b', 'a:b', '*a', 'k=v', 'for a in b', 'if a', 'except: pass', 'case 1: pass', 'a |', '1 | 2', 'a=1, b',
              'elif a: pass', 'else: pass', 'finally: pass', '@d', 'T: int', '**P', 'a, /, b', 'x for x in y', 'import', 'from . import a', 'a.b as c', 'not', 'is not', '+', 'and']
ALL_SECONDS = ['y', 'yield b', 'foo()', 'x = 1  # ü', 'return 1', 'w += 1', 'class c: pass', '# only a comment', 'if q: pass', 'as z', ', z', 'for z in w', 'if z', 'case 2: pass', 'except A: pass', '| c']
ALL_JOINS = ['\n', '; ', '\n\n\n', '\n# c\n', ';', '  # c\n']


def mode_of_result(a):
    n = type(a).__name__
    if isinstance(a, ast.expr):
        return 'expr_all'
    if isinstance(a, ast.pattern):
        return 'pattern'
    if isinstance(a, ast.stmt):
        return 'stmt'
    if isinstance(a, ast.Module):
        return 'exec'
    return n if n in EMB or n == '_arglikes' else None


def stage_all_mode(ctx: Ctx, progs):
    """the default parse mode 'all' (what FST(src) uses): source that python parses as a module gives python's tree - the module, its only statement or the expression of its only
    expression statement - positions included, source unchanged, whatever word it starts with; source python does not parse gives a node only if the text is valid for the mode
    that node belongs to (embedding oracle of the fragment stage) and then the same tree as that mode"""
    import fst
    srcs = []
    for a_ in ALL_FIRSTS:
        srcs.append(a_)
        srcs += [a_ + '\n', '\n' + a_, ' ' + a_, '# c\n' + a_, a_ + ';', a_ + ' \\\n']
        for j in ALL_JOINS:
            for b_ in ALL_SECONDS:
                srcs.append(a_ + j + b_)
    for m, l in HOSTILE.items():
        srcs += l
    for m, l in ESCAPES.items():
        srcs += l
    for p in progs[:ctx.scale(15, 120)]:
        srcs.append(p)
        try:
            t = ast.parse(p)
        except SyntaxError:
            continue
        for i, s in enumerate(t.body[:6]):
            seg = ast.get_source_segment(p, s)
            if seg:
                srcs.append(seg)
                if i + 1 < len(t.body) and (seg2 := ast.get_source_segment(p, t.body[i + 1])):
                    srcs.append(seg + '\n' + seg2)
    for src in dict.fromkeys(srcs):
        try:
            # a line continuation that ends the text is taken as going on into an empty last line (parsex._ast_parse, deliberate: such text is a fragment put somewhere later)
            ref = ast.parse(src + '\n' if src.endswith('\\\n') else src)
        except (SyntaxError, ValueError):
            ref = None
        try:
            f = fst.FST(src)
            err = None
        except (SyntaxError, ValueError, fst.NodeError) as e:
            f, err = None, e
        except RecursionError:
            continue
        except Exception as e:
            ctx.violation(f'crash|all|{type(e).__name__}', 'the parser raised something other than a syntax/parse error', {'mode': 'all', 'src': src, 'error': repr(e)})
            continue
        ctx.tick(('all', src), f'all:{"module" if ref is not None else "fragment"}:{"accepted" if f is not None else "rejected"}')
        rec = {'mode': 'all', 'src': src}
        if ref is not None:
            if f is None:
                ctx.violation('valid-rejected|all', "source python parses as a module was rejected by the default mode 'all'", {**rec, 'error': repr(err)})
                continue
            if f.src != src:
                ctx.violation('lossy|all', 'building the tree changed the source text', {**rec, 'got': f.src})
                continue
            a = f.a
            want = ref
            if isinstance(a, ast.stmt) and len(ref.body) == 1:
                want = ref.body[0]
            elif isinstance(a, ast.expr) and len(ref.body) == 1 and isinstance(ref.body[0], ast.Expr):
                want = ref.body[0].value
            d = cmp_ast(a, want, positions=True) if type(a) is type(want) else [f'node type {type(a).__name__} where python gives {type(want).__name__} ({len(ref.body)} statements)']
            if d:
                ctx.violation('tree|all', "the default mode 'all' gives something other than python's tree for source python parses", {**rec, 'diffs': d[:6]})
            continue
        if f is None:
            continue
        mode = mode_of_result(f.a)
        if mode is None or mode in ('stmt', 'exec'):
            if mode is not None:
                ctx.violation('invalid-accepted|all|statements', "source python does not parse was accepted as statements", {**rec, 'tree': ast.dump(f.a)[:300]})
            continue
        if f.src != src:
            ctx.violation('lossy|all', 'building the tree changed the source text', {**rec, 'got': f.src})
            continue
        if src.endswith('\\\n'):
            continue        # the ending line continuation again: the embedding oracle has no place for it
        check_fragment(ctx, mode, src, 'hostile')
        try:
            g = fst.FST(src, mode)
        except Exception:
            continue        # judged by check_fragment
        d = cmp_ast(f.a, g.a, positions=True)
        if d:
            ctx.violation(f'tree|all-vs-{mode}', f"the default mode 'all' gives another tree than the mode {mode!r} its result belongs to", {**rec, 'diffs': d[:6]})


TC_BASES = {
    'type_param': ['T', 'T: int', 'T: (a,\n b)', 'T: (a ,\n    b)', '*Ts', '**P', 'T = (a ,\n b)', 'T: (a,\n b) = (c,\n d)', 'Té: "é"'],
    'keyword': ['a=1', 'a=(1,\n 2)', 'a=(1 ,\n    2)', '**k', '**f(a,\n b)', 'é="é"'],
    'withitem': ['a', 'a as b', 'a as (b,\n c)', '(a ,\n b) as c', 'f(a,\n b)', 'f(a ,\n    b) as c'],
    'arg': ['a', 'a: int', 'a: (b,\n c)', 'a: (b ,\n    c)', 'é: "é"'],
    '_arglike': ['a', 'f(a,\n b)', 'k=f(a,\n b)', '*a', '*f(a ,\n   b)', '**k', '**f(a,\n b)'],
    'expr_arglike': ['a', 'f(a,\n b)', '*a', '*f(a ,\n   b)'],
    'pattern': ['a', '[a,\n b]', 'C(a ,\n  b)', '{1: a,\n 2: b}'],
    'expr': ['a', '(a,\n b)', 'f(a ,\n   b)', '[a,\n b]'],
    'expr_slice': ['a', 'a:b', 'a:f(b,\n c)', 'f(a ,\n   b)'],
    'expr_all': ['a', '*a', 'a:b', 'f(a ,\n   b)', '*f(a,\n b)'],
    'Import_name': ['a', 'a as b', 'a.b'],
    'ImportFrom_name': ['a', 'a as b'],
    'comprehension': ['for a in b', 'for a in (b,\n c)', 'for a in b if (c ,\n d)'],
    'arguments': ['a', 'a=(1,\n 2)', '*a', '**k', 'a, /', '*, a', 'a: (b ,\n  c)'],
    'arguments_lambda': ['a', 'a=(1,\n 2)', '*a', '**k'],
}
TC_TAILS = [',', ' ,', '\n,', ' # c\n,', ',\n', ', # c', '\n  ,', ' \\\n,', ',\n# c']


def stage_trailing_comma(ctx: Ctx):
    """a trailing comma after a single element: whether a mode takes it or refuses it (the one-element modes refuse it, the sequence-capable ones make a sequence of it) may not depend
    on where the comma stands - same line, next line, behind a comment, behind a continuation - nor on the element running over several lines; the element alone is always accepted"""
    import fst
    for mode, bases in TC_BASES.items():
        for base in bases:
            check_fragment(ctx, mode, base, 'plain')
            outcomes = {}
            for tail in TC_TAILS:
                if mode in ('Import_name', 'ImportFrom_name') and ('#' in tail or '\n' in tail):
                    continue
                src = base + tail
                try:
                    f = fst.FST(src, mode)
                    out = type(f.a).__name__
                    if f.src != src:
                        ctx.violation(f'lossy|{mode}', 'building the tree changed the source text', {'mode': mode, 'src': src, 'got': f.src})
                except (SyntaxError, ValueError, fst.NodeError):
                    out = 'rejected'
                except Exception as e:
                    ctx.violation(f'crash|{mode}|{type(e).__name__}', 'the parser raised something other than a syntax/parse error', {'mode': mode, 'src': src, 'error': repr(e)})
                    continue
                ctx.tick((mode, src), f'trailing-comma:{mode}:{out if out == "rejected" else "accepted"}')
                outcomes.setdefault(out, []).append(src)
                if out != 'rejected':
                    check_fragment(ctx, mode, src, 'hostile')
            if len(outcomes) > 1:
                ctx.violation(f'trailing-comma-layout|{mode}', 'whether a trailing comma after the element is taken depends on the layout of the fragment',
                              {'mode': mode, 'element': base, 'outcomes': {k_: v[:4] for k_, v in outcomes.items()}})


def stage_guard(ctx: Ctx):
    """_verify_no_close_delimiters vs models/Wrap.v guard on the text the harness computes to be outside the elements"""
    from fst import parsex
    rng = ctx.rng
    terms, meta = [], []
    for it in range(ctx.scale(300, 4000)):
        # one line: elements e0 [, e1]; text around them built from ( ) other
        pre = ''.join(rng.choice('() a') for _ in range(rng.randrange(0, 4)))
        e0 = rng.choice(['x', 'foo', '(y)', 'é'])
        mid = ''.join(rng.choice('() a') for _ in range(rng.randrange(0, 4)))
        tail = rng.choice(['', ', z' + ''.join(rng.choice('() ') for _ in range(rng.randrange(0, 3))), ' # )', ' # c'])
        line = pre + e0 + mid + tail
        lines = [line]
        col0 = len(pre.encode())
        end0 = len((pre + e0).encode())
        try:
            parsex._verify_no_close_delimiters(lines, 0, col0, 0, end0, 0)
            real = True
        except SyntaxError:
            real = False
        # the scanned text: before e0, and after e0 up to the first comma, comments stripped
        after = line[len(pre + e0):]
        if '#' in after:
            after = after[:after.index('#')]
        if ',' in after:
            after = after[:after.index(',')]
        scanned = pre.strip() + after.strip()
        syms = '; '.join('DOpen' if c == '(' else 'DClose' if c == ')' else 'DOther' for c in scanned)
        terms.append(f'Bool.eqb (negb (isnone (guard 0 [{syms}]))) {cbool(real)}')
        meta.append({'line': line, 'e0': [col0, end0], 'scanned': scanned, 'real_accepts': real})
        ctx.tick(('guard', line), 'guard:' + ('accept' if real else 'refuse'))
    # several lines: lines above the first element, the rest of its line and following lines, each with an optional comment that may contain ')' and ','
    cm = lambda: rng.choice(['', '', ' # c', ' # ),(', ' # x, y', '# oops :), sorry', ' #,'])
    code = lambda n, alphabet='() a': ''.join(rng.choice(alphabet) for _ in range(rng.randrange(0, n)))
    for it in range(ctx.scale(400, 5000)):
        above = [code(4) + cm() for _ in range(rng.randrange(0, 3))]
        pre = code(4)
        e0 = rng.choice(['x', 'foo', '(y)', 'é', '(a,\n b)'])
        rest = code(4, '() a,' if rng.random() < 0.3 else '() a') + cm()
        below = [code(5, '() a,' if rng.random() < 0.4 else '() a') + cm() for _ in range(rng.randrange(0, 4))]
        e0_lines = e0.split('\n')
        lines = above + [pre + e0_lines[0]] + e0_lines[1:]
        lines[-1] += rest
        lines += below
        e0_ln = len(above)
        e0_end_ln = e0_ln + len(e0_lines) - 1
        col0 = len(pre.encode())
        end0 = len(((pre if len(e0_lines) == 1 else '') + e0_lines[-1]).encode())
        end_ln = rng.randrange(e0_end_ln, len(lines))
        try:
            parsex._verify_no_close_delimiters(lines, e0_ln, col0, e0_end_ln, end0, end_ln)
            real = True
        except SyntaxError:
            real = False
        strip_c = lambda l: l[:l.index('#')] if '#' in l else l
        scanned = ''.join(strip_c(l).strip() for l in above) + pre.strip()
        for l in [rest] + lines[e0_end_ln + 1:end_ln + 1]:
            l = strip_c(l)
            if ',' in l:
                scanned += l[:l.index(',')].strip()
                break
            scanned += l.strip()
        syms = '; '.join('DOpen' if c == '(' else 'DClose' if c == ')' else 'DOther' for c in scanned if c != ' ')
        terms.append(f'Bool.eqb (negb (isnone (guard 0 [{syms}]))) {cbool(real)}')
        meta.append({'lines': lines, 'e0': [e0_ln, col0, e0_end_ln, end0], 'end_ln': end_ln, 'scanned': scanned, 'real_accepts': real})
        ctx.tick(('guard', tuple(lines), end_ln), 'guard-multiline:' + ('accept' if real else 'refuse'))
    failed = coq_eval_bools('C05_guard', HDR, terms, shard=500)
    ctx.correspondence('models/Wrap.v guard == parsex._verify_no_close_delimiters (accept/refuse) on the text outside the first element', len(terms), [meta[i] for i in failed])
    # wrapper geometry on the model vs Python: spans of an embedding
    terms, meta = [], []
    for it in range(ctx.scale(150, 1500)):
        L = [''.join(rng.choice('ab (é,') for _ in range(rng.randrange(0, 6))) for _ in range(rng.randrange(1, 4))]
        pres = [''.join(rng.choice('xy(') for _ in range(rng.randrange(0, 4))) for _ in range(rng.randrange(1, 3))]
        post = '):'
        ln = rng.randrange(0, len(L))
        eln = rng.randrange(ln, len(L))
        col = rng.randrange(0, len(L[ln]) + 1)
        ecol = rng.randrange(col if eln == ln else 0, len(L[eln]) + 1)
        W = pres + L + [post]
        k = len(pres)
        # Python side: the span text in the embedding
        if eln == ln:
            want = [W[k + ln][col:ecol]]
        else:
            want = [W[k + ln][col:]] + W[k + ln + 1:k + eln] + [W[k + eln][:ecol]]
        terms.append(f'txt_eqb (get_src (wrapn {clines(pres)} {cline(post)} {clines(L)}) {k + ln} {col} {k + eln} {ecol}) {clines(want)} && '
                     f'txt_eqb (get_src {clines(L)} {ln} {col} {eln} {ecol}) {clines(want)}')
        meta.append({'L': L, 'pres': pres, 'span': [ln, col, eln, ecol], 'want': want})
    failed = coq_eval_bools('C05_wrap', HDR, terms, shard=300)
    ctx.correspondence('models/Wrap.v wrapn + kernel get_src == Python slicing of the embedding text (span text identical in embedding and fragment)', len(terms), [meta[i] for i in failed])


def run(ctx: Ctx):
    ctx.rule = ('(1) whole programs (corpus + re-layout): FST(src), fromsrc, parse: source unchanged, tree == ast.parse incl. positions; eval mode. (2) per extended mode: fragments '
                'taken from the corpus (ast.unparse of every node of the kind), re-laid-out (newlines/comments/continuations after separators, surrounding comment lines), with '
                'non-ASCII identifiers, plus a hostile stream (wrapper-closing text, wrong element counts, splices): an independent embedding of the fragment in its full construct '
                'decides validity (embedding parses, nothing around the hole changed, every fragment token inside the element) and supplies the expected sub-tree; accepted => '
                'lossless + equal incl. shifted positions; invalid => must be rejected. (3) model correspondences (guard, wrapper geometry). distinct = (mode, fragment).')
    ctx.assumptions += ['CPython ast.parse is the reference parser', 'the harness embeddings (EMB table) define "the full construct that contains the fragment"']
    ok = stage_translate(ctx)
    if ok:
        ctx.build_props()
    run_guarded(ctx, stage_guard)
    progs = corpus(ctx.rng, gen=ctx.scale(15, 120))
    run_guarded(ctx, stage_whole, progs)
    run_guarded(ctx, stage_fragments, progs)
    run_guarded(ctx, stage_all_mode, progs)
    run_guarded(ctx, stage_trailing_comma)


def replay(path):
    d = json.load(open(path))
    print(json.dumps(d, indent=1)[:6000])
    return 0
