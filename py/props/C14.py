"""C14 - Traversal visits every node once, in source order, consistently across APIs."""

from __future__ import annotations

import ast, itertools
import json

from lib.common import *
from lib.progs import corpus, CORPUS
from props.C11 import stage_translate

LEVEL = 'proof'
HDR = ('From Coq Require Import List String Bool Arith.\nFrom PF Require Import models.Traverse models.Walk models.WalkShallowModes gen.TraverseTables.\nImport ListNotations.\n'
       'Local Open Scope string_scope.\n'
       'Fixpoint lookup (c : string) (t : list (string * option (list citem))) : option (option (list citem)) :=\n'
       '  match t with [] => None | (k, v) :: r => if String.eqb c k then Some v else lookup c r end.\n'
       'Fixpoint lookp (c : string) (f : option string) (t : list (string * option string * option (list instr))) : option (list instr) :=\n'
       '  match t with [] => None | (k, g, p) :: r => if String.eqb c k && match f, g with None, None => true | Some a, Some b => String.eqb a b | _, _ => false end then p else lookp c f r end.\n'
       'Fixpoint occ_of (l : list (string * nat)) (f : string) : nat := match l with [] => 0 | (g, n) :: r => if String.eqb f g then n else occ_of r f end.\n'
       'Definition op_eqb (a b : option (string * nat)) : bool := match a, b with None, None => true | Some x, Some y => pos_eqb x y | _, _ => false end.\n'
       'Fixpoint lp_eqb (a b : list (string * nat)) : bool := match a, b with [], [] => true | x :: a\', y :: b\' => pos_eqb x y && lp_eqb a\' b\' | _, _ => false end.\n'
       '(* one real node: class, occupancy, observed children positions, observed (pos, next, prev) triples, observed first/last *)\n'
       'Definition node_ok (cls : string) (occ : list (string * nat)) (kids : list (string * nat))\n'
       '  (steps : list (string * nat * option (string * nat) * option (string * nat))) (first last : option (string * nat)) : bool :=\n'
       '  match lookup cls children_tbl with\n'
       '  | Some (Some items) =>\n'
       '      lp_eqb (children_of items (occ_of occ)) kids &&\n'
       '      forallb (fun s => let \'(f, i, nx, pv) := s in\n'
       '                 match lookp cls (Some f) next_tbl, lookp cls (Some f) prev_tbl with\n'
       '                 | Some pn, Some pp => op_eqb (exec Fwd pn (occ_of occ) i) nx && op_eqb (exec Bwd pp (occ_of occ) i) pv\n'
       '                 | _, _ => false end) steps &&\n'
       '      match lookp cls None next_tbl, lookp cls None prev_tbl with\n'
       '      | Some pn, Some pp => op_eqb (exec Fwd pn (occ_of occ) 0) first && op_eqb (exec Bwd pp (occ_of occ) 0) last\n'
       '      | _, _ => false end\n'
       '  | _ => false end.\n')

SPECIAL = {'ClassDef', 'Call', 'Dict', 'Compare', 'arguments', 'MatchMapping'}
IGNORED = {('Module', 'type_ignores')}


def cpos(p):
    return 'None' if p is None else f'(Some ({cstr(p[0])}, {p[1]}))'


def pfield_of(parent, child):
    for f in parent._fields:
        v = getattr(parent, f, None)
        if v is child:
            return (f, 0)
        if isinstance(v, list):
            for i, x in enumerate(v):
                if x is child:
                    return (f, i)
    return None


def stage_tables_corr(ctx: Ctx, progs):
    """translated tables (children order, next/prev programs) executed in Coq on the occupancy of every real node ==
    the real syntax_ordered_children / NEXT_FUNCS / PREV_FUNCS results on that node."""
    import fst
    from fst.astutil import syntax_ordered_children
    from fst.traverse_next import NEXT_FUNCS
    from fst.traverse_prev import PREV_FUNCS
    rng = ctx.rng
    terms, meta = [], []
    seen_shapes = set()
    budget = ctx.scale(1500, 20000)
    for src in progs:
        root = fst.FST(src, 'exec')
        for a in ast.walk(root.a):
            cls = type(a).__name__
            if cls in SPECIAL:
                continue
            occ = []
            for f in a._fields:
                v = getattr(a, f, None)
                if isinstance(v, list):
                    if v and not isinstance(v[0], ast.AST):
                        continue
                    occ.append((f, len([x for x in v if x is not None])))
                    if any(x is None for x in v):
                        occ = None
                        break
                elif isinstance(v, ast.AST):
                    occ.append((f, 1))
                elif (cls, f) not in IGNORED:
                    occ.append((f, 0))
            if occ is None:
                continue
            occ = [(f, n) for f, n in occ if (cls, f) not in IGNORED]
            shape = (cls, tuple(occ))
            if shape in seen_shapes:
                continue
            seen_shapes.add(shape)
            if len(terms) >= budget:
                continue
            kids = [k for k in syntax_ordered_children(a) if k is not None]
            kpos = [pfield_of(a, k) for k in kids]
            if any(p is None or (cls, p[0]) in IGNORED for p in kpos):
                kpos = [p for p in kpos if p is not None and (cls, p[0]) not in IGNORED]
            steps = []

            def res(r):
                if r is None:
                    return None
                if isinstance(r, fst.FST):
                    return pfield_of(a, r.a)
                return ('?', 0)
            for (f, i) in kpos:
                nf = NEXT_FUNCS.get((type(a), f))
                pf = PREV_FUNCS.get((type(a), f))
                if nf is None or pf is None:
                    ctx.violation(f'missing-step-func|{cls}.{f}', 'no next/prev stepping function for a (class, field) that holds children', {'class': cls, 'field': f})
                    continue
                steps.append((f, i, res(nf(a, i)), res(pf(a, i))))
            first = res(NEXT_FUNCS[(type(a), None)](a, None)) if (type(a), None) in NEXT_FUNCS else None
            last = res(PREV_FUNCS[(type(a), None)](a, None)) if (type(a), None) in PREV_FUNCS else None
            t = (f'node_ok {cstr(cls)} [{"; ".join("(" + cstr(f) + ", " + str(n) + ")" for f, n in occ)}] '
                 f'[{"; ".join("(" + cstr(f) + ", " + str(i) + ")" for f, i in kpos)}] '
                 f'[{"; ".join("(" + cstr(f) + ", " + str(i) + ", " + cpos(nx) + ", " + cpos(pv) + ")" for f, i, nx, pv in steps)}] {cpos(first)} {cpos(last)}')
            terms.append(t)
            meta.append({'class': cls, 'occupancy': occ, 'children': kpos, 'steps': steps, 'first': first, 'last': last})
            ctx.tick(('shape',) + shape, 'node-shape:' + cls)
    ctx.sample({'node_shape_case': meta[len(meta) // 2]})
    failed = coq_eval_bools('C14_tbl', HDR, terms, shard=400)
    ctx.correspondence('gen/TraverseTables.v executed on the occupancy of real nodes == real syntax_ordered_children / NEXT_FUNCS / PREV_FUNCS (all distinct node shapes of the corpus)',
                       len(terms), [meta[i] for i in failed])


def rtree_lit(a, kids_fn, okf, ids):
    i = ids.setdefault(id(a), len(ids))
    ks = []
    for k in kids_fn(a):
        ks.append('None' if k is None else f'Some ({rtree_lit(k, kids_fn, okf, ids)})')
    return f'RNode {i} {cbool(okf(a))} [{"; ".join(ks)}]'


def stage_walk_corr(ctx: Ctx, progs):
    """models/Walk.v stack machines == real walk() for on x back x recurse x all-filter on real trees"""
    import fst
    from fst.astutil import syntax_ordered_children
    from fst.fst_traverse import _check_all_param
    rng = ctx.rng
    terms, meta = [], []
    n = ctx.scale(160, 2500)
    small = [p for p in progs if len(p) < 900]
    for it in range(n):
        src = rng.choice(small)
        root = fst.FST(src, 'exec')
        nodes = list(ast.walk(root.a))
        start = rng.choice(nodes) if rng.random() < 0.6 else root.a
        all_ = rng.choice([True, False, 'loc', ast.Name, {ast.Name, ast.Call, ast.If, ast.Assign}])
        on = rng.choice(['enter', 'enter', 'leave', 'both'])
        back = rng.random() < 0.4
        recurse = rng.random() < 0.75
        ids = {}
        lit = rtree_lit(start, syntax_ordered_children, lambda a: bool(_check_all_param(a.f, all_)), ids)
        if len(ids) > 400:
            continue
        try:
            got = list(start.f.walk(all_, on, back=back, recurse=recurse))
        except Exception as e:
            ctx.violation('walk-raised', 'walk() raised on an unmodified tree', {'src': src, 'all': repr(all_), 'on': on, 'back': back, 'error': repr(e)})
            continue
        if on == 'both':
            exp = '[' + '; '.join(f'({ids[id(f.a)]}, {cbool(b)})' for f, b in got) + ']'
            if not recurse:
                terms.append(f'lnb_eqb (walk_both_r {cbool(back)} false ({lit})) {exp}')      # models/WalkShallowModes.v
            else:
                model = f'walk_both {cbool(back)} ({lit})'
                if back:
                    continue  # back+both / back+leave have no theorem; compared through mirror below
                terms.append(f'lnb_eqb ({model}) {exp}')
        elif on == 'leave':
            exp = '[' + '; '.join(str(ids[id(f.a)]) for f in got) + ']'
            if not recurse:
                terms.append(f'ln_eqb (walk_leave_r {cbool(back)} false ({lit})) {exp}')
            else:
                if back:
                    continue
                terms.append(f'ln_eqb (walk_leave false ({lit})) {exp}')
        else:
            exp = '[' + '; '.join(str(ids[id(f.a)]) for f in got) + ']'
            terms.append(f'ln_eqb (walk_enter {cbool(back)} {cbool(recurse)} ({lit})) {exp}')
        meta.append({'src': src, 'start': type(start).__name__, 'all': repr(all_), 'on': on, 'back': back, 'recurse': recurse, 'yielded': len(got)})
        ctx.tick(('walk', hash(src) & 0xffff, ids.get(id(start)), repr(all_), on, back, recurse), f'walk:{on}:{"back" if back else "fwd"}')
    ctx.sample({'walk_case': {k: v for k, v in meta[0].items() if k != 'src'}})
    failed = coq_eval_bools('C14_walk', HDR, terms, shard=60)
    ctx.correspondence('models/Walk.v stack machines == real FST.walk (all in {True, False, loc, type, set}, on, back, recurse; random start node)',
                       len(terms), [meta[i] for i in failed])


# ---- oracle ----------------------------------------------------------------------------------------------------------

def span_of(a):
    """(start, end) of a node: own position or the hull of its positioned descendants"""
    if getattr(a, 'end_col_offset', None) is not None:
        s = (a.lineno, a.col_offset)
        e = (a.end_lineno, a.end_col_offset)
        deco = getattr(a, 'decorator_list', None)
        if deco:
            s = min(s, (deco[0].lineno, deco[0].col_offset))
        return s, e
    best = None
    for c in ast.iter_child_nodes(a):
        sp = span_of(c)
        if sp:
            best = sp if best is None else (min(best[0], sp[0]), max(best[1], sp[1]))
    return best


def stage_oracle(ctx: Ctx, progs):
    import fst
    rng = ctx.rng
    for pi, src in enumerate(progs):
        root = fst.FST(src, 'exec')
        a = root.a
        ref = list(ast.walk(a))
        w = list(root.walk(True))
        ctx.tick(('oracle', pi), 'oracle-program')
        # set / once / parent first
        if sorted(id(f.a) for f in w) != sorted(id(x) for x in ref):
            ctx.violation('walk-set', 'walk(all=True) does not yield exactly the nodes ast.walk reaches, each once',
                          {'src': src, 'walk_count': len(w), 'ast_walk_count': len(ref), 'distinct': len(set(id(f.a) for f in w))})
            continue
        order = {id(f.a): i for i, f in enumerate(w)}
        bad = None
        for f in w:
            if f.parent is not None and order[id(f.parent.a)] > order[id(f.a)]:
                bad = ('child before parent', type(f.a).__name__)
        # siblings in text order, via one-level walks
        for f in w:
            kids = list(f.walk(True, self_=False, recurse=False))
            spans = [(k, span_of(k.a)) for k in kids]
            spans = [(k, s) for k, s in spans if s]
            for (k1, s1), (k2, s2) in zip(spans, spans[1:]):
                if s1[0] > s2[0] and not (isinstance(f.a, ast.JoinedStr) and isinstance(k1.a, ast.Constant) and isinstance(k2.a, ast.FormattedValue) and s2[0] <= s1[0] and s1[1] <= s2[1]):
                    # (the text of a self-documenting field `{e=}` is a Constant that CPython lists in front of the field it lies inside)
                    bad = ('siblings out of text order', type(f.a).__name__, type(k1.a).__name__, s1, type(k2.a).__name__, s2)
            # next()/prev() agree with the one-level walk and are mutually inverse
            seq = []
            c = f.first_child(True)
            while c is not None:
                seq.append(c)
                c = c.next(True)
            if [id(x) for x in seq] != [id(x) for x in kids]:
                bad = ('first_child/next chain differs from walk(recurse=False)', type(f.a).__name__)
            seqb = []
            c = f.last_child(True)
            while c is not None:
                seqb.append(c)
                c = c.prev(True)
            if [id(x) for x in seqb] != [id(x) for x in reversed(kids)]:
                bad = ('last_child/prev chain differs from reversed walk(recurse=False)', type(f.a).__name__)
            for x, y in zip(seq, seq[1:]):
                if y.prev(True) is not x:
                    bad = ('prev(next(x)) is not x', type(f.a).__name__)
            kb = list(f.walk(True, self_=False, recurse=False, back=True))
            if [id(x) for x in kb] != [id(x) for x in reversed(kids)]:
                bad = ('back=True does not reverse sibling order', type(f.a).__name__)
            # next_child / prev_child
            seqc = []
            c = f.next_child(None, True)
            while c is not None:
                seqc.append(c)
                c = f.next_child(c, True)
            if [id(x) for x in seqc] != [id(x) for x in kids]:
                bad = ('next_child chain differs from walk(recurse=False)', type(f.a).__name__)
            if bad:
                break
        if bad:
            ctx.violation('order|' + str(bad[0]), 'navigation order inconsistency', {'src': src, 'detail': [str(x) for x in bad]})
            continue
        # leave = children before parents, same set; both = brackets
        wl = list(root.walk(True, 'leave'))
        ol = {id(f.a): i for i, f in enumerate(wl)}
        if sorted(ol) != sorted(order) or any(f.parent is not None and ol[id(f.parent.a)] < ol[id(f.a)] for f in wl):
            ctx.violation('leave-order', "walk(on='leave') is not children-before-parents over the same node set", {'src': src})
        wb = list(root.walk(True, 'both'))
        stack = []
        okb = True
        for f, leaving in wb:
            if not leaving:
                stack.append(f)
            else:
                if not stack or stack.pop() is not f:
                    okb = False
        if not okb or stack or [id(f.a) for f, l in wb if not l] != [id(f.a) for f in w]:
            ctx.violation('both-brackets', "walk(on='both') does not bracket each node's descendants", {'src': src})
        # the same with type filters and inner start nodes: the filter applies to every yielded node, the root included
        for _ in range(ctx.scale(6, 40)):
            flt = rng.choice([ast.Name, ast.Constant, {ast.Name, ast.Call, ast.If, ast.Assign}, False, 'loc'])
            st = rng.choice(w)
            we = list(st.walk(flt))
            wb2 = list(st.walk(flt, 'both'))
            wl2 = list(st.walk(flt, 'leave'))
            stk, okb2 = [], True
            for f, leaving in wb2:
                if not leaving:
                    stk.append(f)
                elif not stk or stk.pop() is not f:
                    okb2 = False
            if not okb2 or stk or [id(f) for f, l in wb2 if not l] != [id(f) for f in we] or sorted(id(f) for f in wl2) != sorted(id(f) for f in we):
                ctx.violation(f'filtered-walk|{type(st.a).__name__}', "with a node filter, on='both'/'leave' do not yield exactly the filtered nodes of on='enter' (bracketed)",
                              {'src': src, 'start': type(st.a).__name__, 'start_loc': list(st.loc) if st.loc else None, 'filter': repr(flt),
                               'enter': len(we), 'both': [(type(f.a).__name__, l) for f, l in wb2][:12], 'leave': len(wl2)})
                break
        # step_fwd / step_back reproduce the walk
        seq = [root]
        c = root.step_fwd(True)
        guard = 0
        while c is not None and guard < len(w) + 5:
            seq.append(c)
            c = c.step_fwd(True)
            guard += 1
        if [id(x) for x in seq] != [id(x) for x in w]:
            ctx.violation('step_fwd', 'repeated step_fwd() does not reproduce walk order', {'src': src, 'len_step': len(seq), 'len_walk': len(w)})
        wbk = list(root.walk(True, back=True))
        seq = [root]
        c = root.step_back(True)
        guard = 0
        while c is not None and guard < len(w) + 5:
            seq.append(c)
            c = c.step_back(True)
            guard += 1
        if [id(x) for x in seq] != [id(x) for x in wbk]:
            ctx.violation('step_back', 'repeated step_back() does not reproduce the backward walk order', {'src': src, 'len_step': len(seq), 'len_walk': len(wbk)})
        # paths
        paths = set()
        for f in w:
            p = root.child_path(f)
            q = root.child_from_path(p)
            if q is not f:
                ctx.violation('path-roundtrip', 'child_from_path(child_path(n)) is not n', {'src': src, 'node': type(f.a).__name__, 'path': repr(p)})
                break
            if root.child_path(q) != p:
                ctx.violation('path-roundtrip2', 'child_path(child_from_path(p)) != p', {'src': src, 'path': repr(p)})
                break
            key = repr(p)
            if key in paths:
                ctx.violation('path-injective', 'two nodes share one path', {'src': src, 'path': key})
                break
            paths.add(key)
            # the string form of the path, and paths from every ancestor
            ps = root.child_path(f, True)
            if root.child_from_path(ps) is not f:
                ctx.violation('path-roundtrip-str', 'child_from_path(child_path(n, as_str=True)) is not n', {'src': src, 'node': type(f.a).__name__, 'path': ps})
                break
            anc = f.parent
            while anc is not None and anc is not root:
                if anc.child_from_path(anc.child_path(f)) is not f or anc.child_from_path(anc.child_path(f, True)) is not f:
                    ctx.violation('path-roundtrip-ancestor', 'a path taken from an ancestor does not lead back to the node', {'src': src, 'node': type(f.a).__name__, 'ancestor': type(anc.a).__name__})
                    break
                anc = anc.parent


def nav_zoo():
    out = []
    decos = ['', '@d\n', '@d1\n@d2(x)\n']
    tps = ['', '[T]', '[T: int, *U, **V]']
    argss = ['', 'a', 'a, /', 'a, b, /', '*a', '*, k', '*, k=1, j', '**kw', 'a, /, b, *c, d=1, **e', 'a: int = 1, *b: str', 'a=1, /, b=2']
    for d, t in itertools.product(decos, tps):
        body = []
        for i, ar in enumerate(argss):
            body.append(f'{d}def f{i}{t}({ar}): pass')
            body.append(f'{d}async def g{i}{t}({ar}) -> r: pass')
        out.append('\n'.join(body) + '\n')
        body = []
        for i, b in enumerate(['', '()', '(B)', '(B, k=1)', '(*b, k=1, **c)', '(k=1, *b, j=2, m=3, n=4)']):
            body.append(f'{d}class C{i}{t}{b}: pass')
        out.append('\n'.join(body) + '\n')
    out.append('\n'.join(f'l{i} = lambda {ar}: 0' for i, ar in enumerate(argss) if ':' not in ar) + '\n')
    out.append('f(a)\nf(*a)\nf(k=1)\nf(**k)\nf(a, *b, k=1, **c)\nf(k=1, *a)\nf(k=1, *a, j=2, m=3, n=4)\nf(*a, k=1, *b, j=2, **c, m=3)\nf(a for a in b)\n')
    out.append('try: pass\nexcept: pass\ntry: pass\nexcept E: pass\ntry: pass\nexcept E as e: pass\nelse: pass\nfinally: pass\ntry: pass\nfinally: pass\n'
               'try: pass\nexcept* (A, B) as e: pass\nfor a in b: pass\nelse: pass\nwhile a: pass\nelse: pass\nasync def h():\n  async for a in b: pass\n  async with a as b, c: pass\n  await x\n'
               'with a: pass\nwith a as b, c as (d, e): pass\nwith (a, b): pass\nif a: pass\nelif b: pass\nelse: pass\n')
    out.append('x = [a for a in b]\nx = {a: b for a, b in c if d if e for f in g}\nx = {**a, b: c, **d}\nx = {a, *b}\nx = f"{a!r:>{w}} {b=}"\nx = a < b <= c\nx = a and b or c\n'
               'type A[T, *U] = B\ntype A = B\nimport a, b.c as d\nfrom . import (a, b as c)\nfrom .. m import *\n'.replace('.. m', '..m') +
               'def s():\n  global a, b\n  nonlocal_ = 1\n  x: int\n  y: int = 1\n  (z): int = 2\n  raise\n  raise E\n  raise E from c\n  assert a\n  assert a, m\n  return\n  return a\n  del a, b[c]\n'
               '  yield\n  yield a\n  yield from a\n')
    out.append('x[a]\nx[a:b]\nx[:b]\nx[a:]\nx[::c]\nx[a:b:c]\nx[a, b:c]\nx[:]\n*a, b = c\na = b if c else d\n(a := b)\na = -b\na = b ** c\nprint(*a)\nx = a.b.c\nx = ()\nx = []\nx = {}\n')
    out.append('match a:\n  case 1: pass\n  case b: pass\n  case _: pass\n  case b as c: pass\n  case [a, *b]: pass\n  case [*_]: pass\n  case {1: a}: pass\n  case {**r}: pass\n  case {1: a, **r}: pass\n'
               '  case C(): pass\n  case C(a): pass\n  case C(k=a): pass\n  case C(a, b, k=c, j=d): pass\n  case a | b: pass\n  case None if g: pass\n  case a.b: pass\n  case -1 | 2+3j: pass\n  case (a): pass\n')
    # layouts where the column order of siblings is the reverse of (or unrelated to) their source order
    out.append('call(\n        a,\n      *b,\n    k=1,\n  *c,\n j=2,\n)\ncall(\n a,\n  *b,\n   k=1,\n    *c,\n     j=2)\ncall(\n    a,\n    *b,\n    k=1,\n)\ncall(k=1,\n *b)\ncall(*b,\n k=1)\n'
               'class K(\n        A,\n      *b,\n    m=M,\n  **kw\n): pass\nclass K2(\n m=M,\n  *b,\n   n=N): pass\n')
    out.append('def f(\n        a,\n      /,\n     b=1,\n    *c,\n   d,\n  **e\n): pass\ndef g(\n a=1,\n  /,\n   b=2,\n    *,\n     d=3,\n      **e): pass\n'
               'h = lambda \\\n   a, \\\n  *b, \\\n c=1: 0\nx = {\n      **a,\n    b: c,\n  **d\n}\ny = {\n a: b,\n  **c,\n   d: e}\n')
    out.append('match v:\n  case C(\n       a,\n      k=b,\n     j=c): pass\n  case {\n      1: a,\n     2: b,\n    **r}: pass\n  case [\n      a,\n     *b,\n    c]: pass\n'
               'z = f"{a!r:>{w}}{b:{c}{d}}" f"{e=}"\nw = (a <\n b\n   <= c)\nwith (\n      a as b,\n    c,\n  d as e\n): pass\n')
    return out

def seqs(f, m):
    kids = list(f.walk(m, self_=False, recurse=False))
    bad = []
    seq = []; c = f.first_child(m)
    while c is not None and len(seq) < 500: seq.append(c); c = c.next(m)
    if [id(x) for x in seq] != [id(x) for x in kids]: bad.append('first_child/next')
    seq2 = []; c = f.last_child(m)
    while c is not None and len(seq2) < 500: seq2.append(c); c = c.prev(m)
    if [id(x) for x in seq2] != [id(x) for x in reversed(kids)]: bad.append('last_child/prev')
    for x, y in zip(kids, kids[1:]):
        if x.next(m) is not y: bad.append('next'); break
        if y.prev(m) is not x: bad.append('prev'); break
    seq3 = []; c = f.next_child(None, m)
    while c is not None and len(seq3) < 500: seq3.append(c); c = f.next_child(c, m)
    if [id(x) for x in seq3] != [id(x) for x in kids]: bad.append('next_child')
    seq4 = []; c = f.prev_child(None, m)
    while c is not None and len(seq4) < 500: seq4.append(c); c = f.prev_child(c, m)
    if [id(x) for x in seq4] != [id(x) for x in reversed(kids)]: bad.append('prev_child')
    kb = list(f.walk(m, self_=False, recurse=False, back=True))
    if [id(x) for x in kb] != [id(x) for x in reversed(kids)]: bad.append('back')
    return bad


def seqs_default(f):
    """the same with the `all` argument LEFT OUT: every API documents the same default (False: nodes with a location of their own or ...), so all must agree with walk() called without it"""
    kids = list(f.walk(self_=False, recurse=False))
    bad = []
    seq = []; c = f.first_child()
    while c is not None and len(seq) < 500: seq.append(c); c = c.next()
    if [id(x) for x in seq] != [id(x) for x in kids]: bad.append('first_child/next')
    seq2 = []; c = f.last_child()
    while c is not None and len(seq2) < 500: seq2.append(c); c = c.prev()
    if [id(x) for x in seq2] != [id(x) for x in reversed(kids)]: bad.append('last_child/prev')
    seq3 = []; c = f.next_child(None)
    while c is not None and len(seq3) < 500: seq3.append(c); c = f.next_child(c)
    if [id(x) for x in seq3] != [id(x) for x in kids]: bad.append('next_child')
    seq4 = []; c = f.prev_child(None)
    while c is not None and len(seq4) < 500: seq4.append(c); c = f.prev_child(c)
    if [id(x) for x in seq4] != [id(x) for x in reversed(kids)]: bad.append('prev_child')
    if [id(x) for x in f.walk(self_=False, recurse=False, back=True)] != [id(x) for x in reversed(kids)]: bad.append('back')
    if [id(x) for x in kids] != [id(x) for x in f.walk(False, self_=False, recurse=False)]: bad.append('walk-default-vs-False')
    return bad


def stage_modes(ctx: Ctx, progs):
    """the sibling / child navigation and stepping agree with walk() under EVERY `all` setting (True, False, 'loc', a class, a set of classes), for every
    node of programs that hold every combination of optional child groups (decorators x type parameters x argument kinds x bases ...)"""
    import fst
    for pi, src in enumerate(progs):
        root = fst.FST(src, 'exec')
        w = list(root.walk(True))
        ctx.tick(('modes', src, 'default'), 'modes:default-argument')
        for f in w:
            bad = seqs_default(f)
            if bad:
                ctx.violation(f'modes|{bad[0]}|all=default|{type(f.a).__name__}', 'with the `all` argument left out the sibling / child navigation disagrees with walk(recurse=False) called the same way',
                              {'src': src, 'parent': type(f.a).__name__, 'parent_src': f.src[:120] if f.loc else None, 'disagree': bad})
                break
        wd = list(root.walk())
        for name, seq0, step in (('step_fwd', wd, lambda c: c.step_fwd()), ('step_back', list(root.walk(back=True)), lambda c: c.step_back())):
            seq = [seq0[0]]
            c = step(seq0[0])
            while c is not None and len(seq) < len(w) + 5:
                seq.append(c)
                c = step(c)
            if [id(x) for x in seq] != [id(x) for x in seq0]:
                ctx.violation(f'modes|{name}|all=default', f'repeated {name}() without the `all` argument does not reproduce walk() without it', {'src': src})
        for m in (True, False, 'loc', ast.Name, {ast.arguments, ast.arg, ast.keyword}):
            mname = m.__name__ if isinstance(m, type) else 'set' if isinstance(m, set) else repr(m)
            ctx.tick(('modes', src, mname), 'modes:' + mname)
            for f in w:
                bad = seqs(f, m)
                if bad:
                    ctx.violation(f'modes|{bad[0]}|all={mname}|{type(f.a).__name__}', 'sibling/child navigation disagrees with walk(recurse=False) under the same `all` setting',
                                  {'src': src, 'all': mname, 'parent': type(f.a).__name__, 'parent_src': f.src[:120] if f.loc else None, 'disagree': bad,
                                   'walk': [type(k.a).__name__ for k in f.walk(m, self_=False, recurse=False)]})
                    break
            wm = list(root.walk(m))
            if wm:
                for name, seq0, step in (('step_fwd', wm, lambda c: c.step_fwd(m)), ('step_back', list(root.walk(m, back=True)), lambda c: c.step_back(m))):
                    seq = [seq0[0]]
                    c = step(seq0[0])
                    while c is not None and len(seq) < len(w) + 5:
                        seq.append(c)
                        c = step(c)
                    if [id(x) for x in seq] != [id(x) for x in seq0]:
                        k = next((i for i, (x, y) in enumerate(zip(seq, seq0)) if x is not y), min(len(seq), len(seq0)))
                        ctx.violation(f'modes|{name}|all={mname}', f'repeated {name}() does not reproduce the walk under the same `all` setting',
                                      {'src': src, 'all': mname, 'first_difference_at': k, 'step_gives': type(seq[k].a).__name__ if k < len(seq) else None,
                                       'walk_gives': type(seq0[k].a).__name__ if k < len(seq0) else None})


IHDR = ('From Coq Require Import List Bool Arith.\nFrom PF Require Import models.Interleave.\nImport ListNotations.\n'
        'Fixpoint nl_eqb (a b : list nat) : bool := match a, b with [], [] => true | x :: a\', y :: b\' => Nat.eqb x y && nl_eqb a\' b\' | _, _ => false end.\n')


def stage_interleave(ctx: Ctx, progs):
    """models/Interleave.v call_children / classdef_head_children == the part of astutil.syntax_ordered_children made of args / bases and keywords, for every Call and
    ClassDef of the programs (the zoo holds every interleaving, on one line and as staircases)"""
    import fst
    from fst.astutil import syntax_ordered_children
    terms, meta = [], []
    for src in progs:
        root = fst.FST(src, 'exec')
        for f in root.walk(True):
            a = f.a
            if not isinstance(a, (ast.Call, ast.ClassDef)):
                continue
            pos_l = a.args if isinstance(a, ast.Call) else a.bases
            ids = {id(n): i + 1 for i, n in enumerate(list(pos_l) + list(a.keywords))}
            enc = lambda l: '[' + '; '.join(f'(({n.lineno}, {n.col_offset}), {ids[id(n)]})' for n in l) + ']'
            real = [ids[id(c)] for c in syntax_ordered_children(a) if c is not None and id(c) in ids]
            exp = '[' + '; '.join(map(str, real)) + ']'
            if isinstance(a, ast.Call):
                t = f'nl_eqb (call_children 0 {enc(pos_l)} {enc(a.keywords)}) (0 :: {exp})'
            else:
                t = f'nl_eqb (classdef_head_children {enc(pos_l)} {enc(a.keywords)}) {exp}'
            ctx.tick(('interleave', src, f.src[:60]), 'interleave:' + type(a).__name__)
            terms.append(t)
            meta.append({'src': src, 'node': f.src[:100], 'real_order': real})
    failed = coq_eval_bools('C14_interleave', IHDR, terms, shard=300)
    ctx.correspondence('models/Interleave.v merge by (line, column) == astutil.syntax_ordered_children on args / bases + keywords of every Call and ClassDef', len(terms), [meta[i] for i in failed])


FILTER_PROGS = ['x = [a, [b, c], f(d, k=e), {g: h}]\n', 'def f(p, q=1):\n    if p:\n        return q + [r for r in s]\n    t = lambda u: u\n', 'class K(B):\n    y: int = f"{z!r}"\n    with m as n: del o\n',
                'match v:\n    case [1, w] if w: pass\n    case {"k": x}: x += 1\n']


def stage_filter_grid(ctx: Ctx):
    """deterministic: walk() with every kind of `all` filter (True / False / 'loc' / one node type / several; leaf classes, compared exactly as documented) x on in (enter, leave, both) x recurse x back x self_, on every node of
    a few programs as walk root: the three `on` modes agree (the entry events of 'both' are the 'enter' walk, its leave events the 'leave' walk, entered nodes are left innermost first),
    a TYPE filter yields exactly the nodes of that type among those the unfiltered walk with the same parameters reaches below an ACCEPTED path (recurse=False: direct children only;
    a rejected node is never entered and, without recursion, nothing below it is), and first_child() / next() give the recurse=False sequence"""
    import fst
    filters = [('True', True), ('False', False), ("'loc'", 'loc'), ('Name', ast.Name), ('(Name, Constant)', (ast.Name, ast.Constant)), ('Call', ast.Call), ('{If, Return, Name}', {ast.If, ast.Return, ast.Name})]
    for src in FILTER_PROGS:
        root = fst.FST(src, 'exec')
        for W in root.walk(True):
            wpath = root.child_path(W, True)
            for fname, flt in filters:
                for recurse in (True, False):
                    for back in (False, True):
                        for self_ in (True, False):
                            kw = dict(recurse=recurse, back=back, self_=self_)
                            rec = {'src': src, 'walk_root': wpath or 'root', 'all': fname, **{k: repr(v) for k, v in kw.items()}}
                            try:
                                ent = [id(n) for n in W.walk(flt, on='enter', **kw)]
                                lea = [id(n) for n in W.walk(flt, on='leave', **kw)]
                                both = [(id(n), l) for n, l in W.walk(flt, on='both', **kw)]
                            except Exception as e:
                                ctx.violation(f'filter-grid|raise|{type(e).__name__}', 'walk() raised', {**rec, 'error': repr(e)[:200]})
                                continue
                            ctx.tick(('filter-grid', src, wpath, fname, recurse, back, self_), f'filter-grid:{fname}')
                            label = lambda ids: [next(n.src[:20] for n in root.walk(True) if id(n) == i) for i in ids][:10]
                            if [i for i, l in both if not l] != ent or [i for i, l in both if l] != lea:
                                ctx.violation(f'filter-grid|on-modes|{fname}|recurse={recurse}', "walk(on='both') does not yield the entry events of on='enter' and the leave events of on='leave'",
                                              {**rec, 'enter': label(ent), 'both_entries': label([i for i, l in both if not l]), 'leave': label(lea), 'both_leaves': label([i for i, l in both if l])})
                                continue
                            st, bad = [], False
                            for i, l in both:
                                if not l:
                                    st.append(i)
                                elif not st or st.pop() != i:
                                    bad = True
                                    break
                            if bad or st:
                                ctx.violation(f'filter-grid|nesting|{fname}', "walk(on='both'): entered nodes are not left innermost first", rec)
                                continue
                            if isinstance(flt, (type, tuple, set)):
                                # reference: the unfiltered walk reaches everything (recurse=True) / the direct children (recurse=False); the type filter keeps those of the type
                                base = list(W.walk(True, on='enter', **kw))
                                want = [id(n) for n in base if (type(n.a) is flt if isinstance(flt, type) else type(n.a) in flt)]
                                if ent != want:
                                    ctx.violation(f'filter-grid|type-filter|{fname}|recurse={recurse}', 'walk(all=<type>) does not yield exactly the nodes of that type which the unfiltered walk with the same parameters reaches',
                                                  {**rec, 'got': label(ent), 'expected': label(want)})
                                    continue
                            if not recurse and not self_:
                                chain = []
                                c = W.last_child(flt) if back else W.first_child(flt)
                                while c is not None and len(chain) < 200:
                                    chain.append(id(c))
                                    c = c.prev(flt) if back else c.next(flt)
                                if chain != ent:
                                    ctx.violation(f'filter-grid|next-chain|{fname}', 'first_child() / next() (last_child() / prev()) with a filter do not give the recurse=False walk', {**rec, 'chain': label(chain), 'walk': label(ent)})


def run(ctx: Ctx):
    ctx.rule = ('(1) every distinct node shape (class x field occupancy) of the corpus: translated tables executed in Coq vs the real stepping functions; '
                '(2) random (start node, all-filter, on, back, recurse) walks: stack-machine model vs real generator; (3) per corpus program the full '
                'navigation oracle (walk set vs ast.walk, parent-first, sibling text order, back, leave, both, next/prev/first/last/next_child chains, '
                'step_fwd/step_back, path bijection). distinct = node shape / walk parameter tuple / program.')
    ctx.assumptions += ['children of a node appear in text order in parser output (checked per program by the oracle)',
                        'the six special classes are compared by the oracle only']
    ok = stage_translate(ctx)
    progs = corpus(ctx.rng, gen=ctx.scale(25, 250))
    # wide nodes: list indices of two and three digits in paths
    progs.append('\n'.join(f's{i} = {i}' for i in range(13)) + '\nw = [' + ', '.join(f'e{i}' for i in range(12)) + ']\nd = {' + ', '.join(f'{i}: v{i}' for i in range(11)) + '}\n'
                 'f(' + ', '.join(f'a{i}' for i in range(11)) + ', ' + ', '.join(f'k{i}=1' for i in range(11)) + ')\n' + 'big = (' + ', '.join(str(i) for i in range(105)) + ')\n')
    if ok:
        ctx.build_props()
    zoo = nav_zoo()
    progs += zoo
    run_guarded(ctx, stage_tables_corr, progs)
    run_guarded(ctx, stage_walk_corr, progs)
    run_guarded(ctx, stage_oracle, progs)
    run_guarded(ctx, stage_interleave, progs)
    run_guarded(ctx, stage_modes, zoo + progs[:ctx.scale(6, 40)])
    run_guarded(ctx, stage_filter_grid)


def replay(path):
    d = json.load(open(path))
    print(json.dumps(d, indent=1)[:6000])
    return 0
