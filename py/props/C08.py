"""C08 - Putting back what was taken restores the tree; accessors read back writes."""

from __future__ import annotations

import ast
import copy
import json

from lib.common import *
from lib.oracle import cmp_ast, reparse_diffs
from lib.progs import corpus
from props.C11 import stage_translate

LEVEL = 'proof'
HDR = ('From Coq Require Import List Bool Arith.\nFrom PF Require Import models.StrRepr.\nImport ListNotations.\n'
       'Fixpoint s_eqb (a b : pystr) : bool := match a, b with [], [] => true | x :: a\', y :: b\' => sym_eqb x y && s_eqb a\' b\' | _, _ => false end.\n'
       'Fixpoint ls_eqb (a b : list pystr) : bool := match a, b with [], [] => true | x :: a\', y :: b\' => s_eqb x y && ls_eqb a\' b\' | _, _ => false end.\n'
       'Definition os_eqb (a : option pystr) (b : pystr) : bool := match a with Some a => s_eqb a b | None => false end.\n')

# ---- alphabet mapping for the quoting model -------------------------------------------------------------------------
# printable "other" characters deliberately exclude the letters/digits that occur in escape bodies (x u U r 0-9 a-f n t)
PRINTABLE = [' ', 'é', 'Z', '#', 'q', 'ℵ', '😀', 'k', '%', '{', ')']
NONPRINT = ['\r', '\x07', '\x1f', '\x7f', '\x85', '\u2028', '\x0c', '\x1b', '\ud800']
SPECIAL = ['"', "'", '\\', '\n', '\t', '\x00', 'n', 't']


def sym_of_char(c):
    if c == '"': return 'DQ'
    if c == "'": return 'SQ'
    if c == '\\': return 'BS'
    if c == '\n': return 'NL'
    if c == '\t': return 'TAB'
    if c == '\x00': return 'NUL'
    if c == 'n': return 'Ln'
    if c == 't': return 'Lt'
    if c == ' ': return 'P 0'
    if c.isprintable():
        return f'P {ord(c)}'
    return f'NP {ord(c)}'


def body_of(c):
    return c.encode('unicode_escape').decode('ascii')[1:]


BODIES = {body_of(c): f'E {ord(c)}' for c in NONPRINT}
BODIES['x00'] = 'Ez'


def syms_of_output(text):
    """the real output -> symbols: escape bodies following an (aligned) backslash become E k / Ez"""
    out = []
    i = 0
    while i < len(text):
        c = text[i]
        if c == '\\' and i + 1 < len(text):
            out.append('BS')
            rest = text[i + 1:]
            for b, s in BODIES.items():
                if rest.startswith(b):
                    out.append(s)
                    i += 1 + len(b)
                    break
            else:
                out.append(sym_of_char(rest[0]))
                i += 2
            continue
        out.append(sym_of_char(c))
        i += 1
    return out


def cl(syms):
    return '[' + '; '.join(syms) + ']'


def rand_text(rng, n=None):
    n = rng.randrange(0, 9) if n is None else n
    out = []
    for _ in range(n):
        r = rng.random()
        if r < 0.45:
            out.append(rng.choice(['"', "'", '"', "'", '\\']))
        elif r < 0.6:
            out.append(rng.choice(SPECIAL))
        elif r < 0.75:
            out.append(rng.choice(NONPRINT))
        else:
            out.append(rng.choice(PRINTABLE))
    # encourage triple quotes
    s = ''.join(out)
    if rng.random() < 0.35:
        k = rng.randrange(0, len(s) + 1)
        s = s[:k] + rng.choice(['"""', "'''"]) + s[k:]
    if rng.random() < 0.2:
        k = rng.randrange(0, len(s) + 1)
        s = s[:k] + rng.choice(['"""', "'''"]) + s[k:]
    return s


def stage_repr(ctx: Ctx):
    from fst.astutil import repr_str_multiline
    rng = ctx.rng
    terms, meta = [], []
    seen = set()
    fixed = ['', '"', "'", '\\', '"""', "'''", '"""\'\'\'', '\'\'\'"""\\', 'a"', "a'", '\'\'\'a"', '"""a\'', '""', "''", '\\"', '\\\\n', '\n', '\x00', '"""\'\'\'\x00\\\n\\n',
             '\'\'\'"""\\\\', '"\'', '\'"', '"""\'\'\'\'', '\'\'\'"""""']
    for it in range(ctx.scale(700, 12000)):
        s = fixed[it] if it < len(fixed) else rand_text(rng)
        if s in seen:
            continue
        seen.add(s)
        try:
            out = repr_str_multiline(s)
        except Exception as e:
            ctx.violation('repr-raise', 'repr_str_multiline raised', {'string': s, 'error': repr(e)})
            continue
        kind = 'fallback' if ('"""' in s and "'''" in s) else 'triple' if ('"""' in s or "'''" in s) else 'endquote' if s[-1:] in ('"', "'") else 'plain'
        ctx.tick(('repr', s), 'repr:' + kind)
        # the property on the real function with the real reader
        try:
            back = ast.literal_eval(out) if '\x00' not in out else None
        except Exception as e:
            back = e
        if '\x00' in out:
            ctx.violation('repr-nul', 'repr_str_multiline output contains a raw NUL (not valid source)', {'string': s, 'literal': out})
        elif back != s:
            ctx.violation(f'repr-roundtrip|{kind}', 'the literal produced by repr_str_multiline does not evaluate to the string',
                          {'string': s, 'literal': out, 'evaluates_to': repr(back)})
        ins = [sym_of_char(c) for c in s]
        outs = syms_of_output(out)
        terms.append(f's_eqb (repr_str_multiline {cl(ins)}) {cl(outs)} && os_eqb (decode {cl(outs)}) {cl(ins)}')
        meta.append({'string': s, 'real_literal': out, 'in_syms': ins, 'out_syms': outs})
    ctx.sample({'repr_case': meta[len(fixed) + 3] if len(meta) > len(fixed) + 3 else meta[-1]})
    failed = coq_eval_bools('C08_repr', HDR, terms, shard=400)
    ctx.correspondence('models/StrRepr.v repr_str_multiline == astutil.repr_str_multiline, and the model reader decodes the real literal to the input '
                       '(random strings dense in quotes, backslashes, triple quotes, NUL, newlines, non-printables)', len(terms), [meta[i] for i in failed])


# ---- docstrings on the real tree -----------------------------------------------------------------------------------
HOSTS = [
    ('def f():\n    pass\n', lambda r: r.body[0], 4),
    ('class C:\n    def m(self):\n        x = 1\n', lambda r: r.body[0].body[0], 8),
    ('class C:\n  x = 1\n', lambda r: r.body[0], 2),
    ('x = 1\n', lambda r: r, 0),
    ('if a:\n\tclass K:\n\t\tasync def g(): return 1\n', lambda r: r.body[0].body[0].body[0], None),
    ('def f():\n    """old\n    doc"""\n    # c\n    return 2\n', lambda r: r.body[0], 4),
    ('def f(): pass', lambda r: r.body[0], None),
]


def rand_doc(rng):
    lines = []
    for i in range(rng.randrange(1, 5)):
        r = rng.random()
        if i and r < 0.2:
            lines.append('')
        elif i and r < 0.35:
            lines.append(' ' * rng.randrange(1, 12))
        else:
            ind = '' if not i else rng.choice(['', '', '  ', '    ', '\t', '        ', ' \t'])
            lines.append(ind + (rand_text(rng, rng.randrange(1, 6)).replace('\n', '') or 'w'))
    if lines[0][:1] in (' ', '\t', '\x0c'):
        lines[0] = 'D' + lines[0]
    return '\n'.join(lines)


def sline(l):
    return cl([sym_of_char(c) for c in l])


def stage_docstr(ctx: Ctx):
    import fst
    rng = ctx.rng
    terms, meta = [], []
    for it in range(ctx.scale(250, 4000)):
        src, pick, _ = rng.choice(HOSTS)
        text = rand_doc(rng)
        if not text.split('\n')[0].strip() and text.split('\n')[0]:
            continue
        root = fst.FST(src, 'exec')
        host = pick(root)
        rec = {'host_src': src, 'text': text}
        ctx.tick(('doc', src, text), 'docstr:' + ('multiline' if '\n' in text else 'single'))
        try:
            host.put_docstr(text)
        except Exception as e:
            ctx.violation('docstr-put-raise', 'put_docstr raised', {**rec, 'error': repr(e)})
            continue
        got = host.get_docstr()
        if got != text:
            ctx.violation('docstr-roundtrip', 'get_docstr() after put_docstr(text) differs from text', {**rec, 'got': got, 'src': root.src})
            continue
        d = reparse_diffs(root)
        if d:
            ctx.violation('docstr-c01', 'source after put_docstr does not parse to the live tree', {**rec, 'diffs': d, 'src': root.src})
            continue
        # correspondence of the indentation model: lines of the literal as placed in the source, lines read back
        b0 = host.a.body[0]
        val = b0.value.value
        ind = b0.f._get_block_indent()
        if any(c not in ' \t' for c in ind):
            continue
        from fst.astutil import repr_str_multiline
        lit_lines = repr_str_multiline(text).split('\n')
        loc = b0.value.f.loc
        real_lines = root.src.split('\n')[loc.ln:loc.end_ln + 1]
        real_lines[-1] = real_lines[-1][:loc.end_col]
        real_lines[0] = real_lines[0][loc.col:]
        inds = sline(ind)
        terms.append(f'ls_eqb (put_docstr_lines {inds} [{"; ".join(sline(l) for l in lit_lines)}]) [{"; ".join(sline(l) for l in real_lines)}] && '
                     f'ls_eqb (get_docstr_lines {inds} [{"; ".join(sline(l) for l in val.split(chr(10)))}]) [{"; ".join(sline(l) for l in got.split(chr(10)))}]')
        meta.append({**rec, 'indent': ind, 'literal_lines': lit_lines, 'source_lines': real_lines, 'value': val, 'got': got})
        # second write over the first, then delete
        text2 = rand_doc(rng)
        host.put_docstr(text2)
        if host.get_docstr() != text2 or reparse_diffs(root):
            ctx.violation('docstr-rewrite', 'second put_docstr not read back / tree invalid', {**rec, 'text2': text2, 'got': host.get_docstr(), 'src': root.src})
            continue
        host.put_docstr(None)
        if host.get_docstr() is not None or reparse_diffs(root):
            ctx.violation('docstr-delete', 'put_docstr(None) left a docstring / invalid tree', {**rec, 'src': root.src})
    failed = coq_eval_bools('C08_doc', HDR, terms, shard=300)
    ctx.correspondence('models/StrRepr.v put_docstr_lines / get_docstr_lines == the lines of the literal in the source after put_docstr / the lines returned by get_docstr',
                       len(terms), [meta[i] for i in failed])


HEADER_PROGS = [
    'class c(a=1, *b[1:2]):  # old\n  pass\n', 'class c(*b[1:2], a=1):  # old\n  pass\n', 'class c(a={1: 2}, *b, **{3: 4}):\n  pass\n', 'class C[T: (int, str)](B[1:2], k=lambda: 0):  # old\n  pass\n',
    'def f[T](a: int = {1: 2}, *b: x[1:2], c=lambda: 0) -> d[1:2]:  # old\n  pass\n', 'def g(a=lambda x: x):\n  pass\n', 'with a as b[1:2], c[3:4]:  # old\n  pass\n',
    'with (a as b[1:2],\n      c):  # old\n  pass\n', 'for i[1:2] in j[3:4]:  # old\n  pass\nelse:  # else\n  pass\n', 'while a[1:2]:\n  pass\nelse:\n  pass\n',
    'if a[1:2]:  # old\n  pass\nelif b[lambda: 0:2]:  # elif\n  pass\nelse:\n  pass\n', 'match a[1:2]:  # old\n  case {1: x, **r}:  # c1\n    pass\n  case [y] if z[1:2]:\n    pass\n',
    'try:  # t\n  pass\nexcept E[1:2] as e:  # h\n  pass\nelse:  # e\n  pass\nfinally:  # f\n  pass\n', 'async def h(a: {1: 2}):\n  async with b[1:2]:\n    async for c in d[::2]:  # old\n      pass\n',
    'if x: pass  # same line body\n', 'class K: pass\n', 'def k(): return {1: 2}  # c\n',
]


def stage_header_comments(ctx: Ctx):
    """deterministic: the line comment of every block header whose expressions contain colons (slices, lambdas, dicts, annotations, keywords before starred bases):
    put then get, for every clause field, structure unchanged, source re-parses to the tree, nothing but the comment changes"""
    import fst
    for src in HEADER_PROGS:
        probe = fst.FST(src, 'exec')
        for path in [probe.child_path(f) for f in probe.walk(True) if isinstance(f.a, (ast.stmt, ast.ExceptHandler, ast.match_case))]:
            a0 = probe.child_from_path(path).a
            fields = [None] + [fl for fl in ('orelse', 'finalbody') if getattr(a0, fl, None)]
            for field in fields:
                for text in ('new', None):
                    root = fst.FST(src, 'exec')
                    f = root.child_from_path(path)
                    rec = {'src': src, 'stmt': repr(f), 'field': field, 'text': text}
                    before = ast.dump(root.a)
                    try:
                        old = f.get_line_comment(field)
                        f.put_line_comment(text, field)
                        got = f.get_line_comment(field)
                    except Exception as e:
                        if root.src != src:
                            ctx.violation('comment-refusal-dirty', 'put_line_comment raised and changed the source', {**rec, 'error': repr(e)})
                        elif not isinstance(e, (ValueError, NotImplementedError, fst.NodeError)):
                            ctx.violation(f'comment-crash|{type(e).__name__}', 'line comment accessor crashed', {**rec, 'error': repr(e)[:200]})
                        continue
                    ctx.tick(('hdr-cmt', src, str(path), field, text), 'comment:header')
                    d = reparse_diffs(root)
                    if got != text or ast.dump(root.a) != before or d:
                        ctx.violation('comment-header', 'line comment put/get on a block header: wrong comment read back, structure changed or source no longer parses to the tree',
                                      {**rec, 'old': old, 'got': got, 'after': root.src, 'diffs': d})
                        continue
                    # only comment text may differ
                    import tokenize as _tk, io as _io
                    code = lambda t: [x.string for x in _tk.generate_tokens(_io.StringIO(t).readline) if x.type not in (_tk.COMMENT, _tk.NL, _tk.NEWLINE, _tk.INDENT, _tk.DEDENT, _tk.ENDMARKER)]
                    cm = lambda t: [x.string for x in _tk.generate_tokens(_io.StringIO(t).readline) if x.type == _tk.COMMENT]
                    cb, ca = cm(src), cm(root.src)
                    if code(src) != code(root.src) or abs(len(cb) - len(ca)) > 1 or sum(1 for x in cb if x not in ca) > 1:
                        ctx.violation('comment-header-collateral', 'line comment put changed more than the addressed comment', {**rec, 'after': root.src})


ANCESTOR_PROGS = ['def f():\n    if a:\n        x = 1  # old\n    y = 2\n', 'class K:\n    def m(self):\n        return 1  # old\n\nz = 0\n',
                  'for i in j:\n    k  # old\nelse:\n    l  # old2\nm = 1\n', 'try:\n    a  # c1\nexcept E:\n    b  # c2\nfinally:\n    c  # c3\nd\n',
                  'if p:\n    with q:\n        while r:\n            s  # deep\nt\n', 'match v:\n    case 1:\n        w  # in case\nu = 1\n']


def stage_comment_ancestors(ctx: Ctx):
    """deterministic: a statement's line comment is part of what its enclosing blocks own (bloc / own_src / copy) when it is their last child: after the blocks' extents
    were read, replace / add / delete the comment, then every enclosing block must read (own_src, copy, bloc) exactly like the same block of a fresh tree of the new source"""
    import fst
    for src in ANCESTOR_PROGS:
        probe = fst.FST(src, 'exec')
        for path in [probe.child_path(f) for f in probe.walk(True) if isinstance(f.a, ast.stmt)]:
            for text in ('a considerably longer replacement comment', 'c', None):
                root = fst.FST(src, 'exec')
                f = root.child_from_path(path)
                anc = [p for p in parents(f)]
                for a_ in [f] + anc:                     # read first: this is what fills the caches
                    a_.bloc
                    if a_.parent is not None:
                        a_.own_src()
                try:
                    f.put_line_comment(text)
                except Exception:
                    continue
                ctx.tick(('cmt-anc', src, str(path), text), 'comment:ancestors')
                try:
                    fresh = fst.FST(root.src, 'exec')
                except Exception as e:
                    ctx.violation('comment-c01', 'source after put_line_comment does not parse', {'src': src, 'stmt': repr(f), 'text': text, 'after': root.src, 'error': repr(e)[:200]})
                    continue
                for a_ in [f] + anc:
                    if a_.parent is None:
                        continue
                    b_ = fresh.child_from_path(root.child_path(a_))
                    got = (tuple(a_.bloc), a_.own_src(), a_.copy().src)
                    want = (tuple(b_.bloc), b_.own_src(), b_.copy().src)
                    if got != want:
                        ctx.violation(f'comment-ancestor-stale|{type(a_.a).__name__}', 'after a line comment put an enclosing block reads differently (bloc / own_src / copy) from the same block of a fresh tree',
                                      {'src': src, 'stmt': repr(f), 'text': text, 'after': root.src, 'block': repr(a_), 'got': repr(got)[:300], 'fresh': repr(want)[:300]})
                        break


def stage_comments(ctx: Ctx, progs):
    import fst
    rng = ctx.rng
    for it in range(ctx.scale(200, 3000)):
        src = rng.choice(progs)
        root = fst.FST(src, 'exec')
        stmts = [f for f in root.walk(True) if isinstance(f.a, ast.stmt)]
        if not stmts:
            continue
        f = rng.choice(stmts)
        body = rand_text(rng, rng.randrange(1, 7)).replace('\n', '').replace('\x0c', '').replace('\x00', '').replace('\ud800', '').replace('\u2028', '').replace('\x85', '').replace('\x1f', '')
        body = body.strip() or 'c'
        full = rng.random() < 0.4
        text = ('  # ' + body + rng.choice(['', ' ', '  '])) if full else body
        field = None
        if rng.random() < 0.3:
            field = rng.choice([fl for fl in ('body', 'orelse', 'finalbody') if getattr(f.a, fl, None)] or [None])
        rec = {'src': src, 'stmt': repr(f), 'text': text, 'full': full, 'field': field}
        f0_pos = (f.a.lineno, f.a.col_offset)
        before = ast.dump(root.a)
        try:
            f.put_line_comment(text, field, full)
        except Exception as e:
            ctx.tick(('cmt-refused', type(e).__name__), None)
            ctx.dist['comment:refused'] = ctx.dist.get('comment:refused', 0) + 1
            if root.src != src:
                ctx.violation('comment-refusal-dirty', 'put_line_comment raised and changed the source', {**rec, 'error': repr(e)})
            continue
        ctx.tick(('cmt', src, repr(f), text, full, field), 'comment:' + ('full' if full else 'text'))
        got = f.get_line_comment(field, full)
        want = text if full else text.strip()
        if got != want:
            ctx.violation('comment-roundtrip', 'get_line_comment() after put_line_comment(text) differs', {**rec, 'got': got, 'want': want, 'after': root.src})
            continue
        if ast.dump(root.a) != before:
            ctx.violation('comment-struct', 'put_line_comment changed the tree structure', {**rec, 'after': root.src})
            continue
        d = reparse_diffs(root)
        if d:
            from lib.edits import stmt_before_continuation_semicolon
            orig = next((x for x in ast.walk(ast.parse(src)) if isinstance(x, ast.stmt) and (x.lineno, x.col_offset) == (f0_pos)), None)
            sig = 'line-comment-put-before-continuation-semicolon' if orig is not None and field is None and stmt_before_continuation_semicolon(src, orig) else 'comment-c01'
            ctx.violation(sig, 'source after put_line_comment does not parse to the live tree', {**rec, 'diffs': d, 'after': root.src})


# ---- cut / put back, replace by self -------------------------------------------------------------------------------
VIRTUAL = {ast.Dict: '_all', ast.Compare: '_all', ast.MatchMapping: '_all', ast.arguments: '_all'}


def list_fields(a):
    out = []
    for fl in a._fields:
        v = getattr(a, fl, None)
        if isinstance(v, list) and v and all(isinstance(x, ast.AST) for x in v):
            out.append((fl, len(v)))
    return out


CLAUSE_PROGS = ['for i in j:\n    pass\nelse:\n    if c:\n        d\n', 'while a:\n    b\nelse:\n    if c: d\n    e\n', 'try:\n    a\nexcept E:\n    b\nelse:\n    if c:\n        d\n    elif e:\n        f\nfinally:\n    if g: h\n',
                'if a:\n    b\nelse:\n    if c:\n        d\n', 'if a:\n    b\nelif c:\n    d\nelse:\n    e\n', 'if a:\n    b\nelse:\n    if c:\n        d\n    x\n',
                'def f():\n    for i in j:\n        k\n    else:\n        if m:\n            n\n        else:\n            o\n', 'match v:\n    case 1:\n        if a: b\n    case _:\n        c\n',
                'try:\n    a\nexcept* E:\n    if b: c\nexcept* F:\n    d\n', 'async def g():\n    async for i in j:\n        k\n    else:\n        if l: m\n']


def stage_clause_roundtrip(ctx: Ctx):
    """deterministic: every (start, stop) of every block field (body / orelse / finalbody / handlers / cases) of statements whose clauses hold `if` statements (the elif spelling
    is only valid under an `if`): cut, put back at the same index: the source must parse to the original structure and to the live tree"""
    import fst
    for src in CLAUSE_PROGS:
        ref = ast.parse(src)
        probe = fst.FST(src, 'exec')
        for h in probe.walk(True):
            for fl in ('body', 'orelse', 'finalbody', 'handlers', 'cases'):
                v = getattr(h.a, fl, None)
                if not (isinstance(v, list) and v and isinstance(v[0], ast.AST)):
                    continue
                path = probe.child_path(h)
                for i in range(len(v)):
                    for j in range(i + 1, len(v) + 1):
                        for opts in ({}, {'norm_self': False}, {'elif_': False}):
                            root = fst.FST(src, 'exec')
                            g = root.child_from_path(path)
                            rec = {'src': src, 'holder': repr(g), 'field': fl, 'start': i, 'stop': j, 'options': repr(opts)}
                            try:
                                piece = g.get_slice(i, j, fl, cut=True, **opts)
                            except Exception:
                                continue
                            rec['after_cut'] = root.src
                            rec['piece'] = piece.src
                            try:
                                g.put_slice(piece, i, i, fl, **opts)
                            except Exception as e:
                                ctx.violation(f'putback-refused|{type(g.a).__name__}.{fl}|{type(e).__name__}', 'putting back what was just cut is refused', {**rec, 'error': repr(e)[:200]})
                                continue
                            ctx.tick(('clause-rt', src, str(path), fl, i, j, repr(opts)), 'roundtrip:clause')
                            d = reparse_diffs(root)
                            if not d:
                                d = cmp_ast(squash_multiline_strings(root.a), squash_multiline_strings(ref), positions=False)
                            if d:
                                ctx.violation(f'cut-putback|{type(g.a).__name__}.{fl}', 'cutting a slice of a clause and putting it back at the same place does not restore the tree',
                                              {**rec, 'after': root.src, 'diffs': d})


def stage_roundtrip(ctx: Ctx, progs):
    import fst
    from fst.astutil import copy_ast
    rng = ctx.rng
    refusals = {}
    for it in range(ctx.scale(420, 8000)):
        src = rng.choice(progs)
        root = fst.FST(src, 'exec')
        ref = ast.parse(src)
        rounds = rng.randrange(1, 4)
        for rd in range(rounds):
            nodes = [f for f in root.walk(True) if f.parent is not None and not any(isinstance(p.a, (ast.JoinedStr, ast.FormattedValue)) for p in parents(f))]
            if not nodes:
                break
            f = rng.choice(nodes)
            kind = rng.choice(['cut_slice', 'cut_slice', 'cut_one', 'self_copy', 'self_ast', 'self_src', 'own_src'])
            rec = {'start_src': src, 'round': rd, 'src_before': root.src, 'kind': kind, 'node': repr(f)}
            before_src = root.src
            try:
                if kind in ('cut_slice', 'cut_one'):
                    cands = [g for g in [f] + list(parents(f)) if list_fields(g.a)]
                    if not cands:
                        continue
                    g = cands[0]
                    fl, n = rng.choice(list_fields(g.a))
                    virt = VIRTUAL.get(type(g.a))
                    if virt and (rng.random() < 0.7 or isinstance(g.a, (ast.Dict, ast.MatchMapping))):
                        fl = virt
                        n = len(getattr(g, virt))
                    i = rng.randrange(0, n)
                    j = i + 1 if kind == 'cut_one' else rng.randrange(i, n + 1)
                    opts = {}
                    if rng.random() < 0.3:
                        opts['trivia'] = rng.choice([False, True, 'all', 'block', (False, False), ('all', 'line')])
                    rec.update(holder=repr(g), field=fl, start=i, stop=j, options=repr(opts))
                    popts = dict(opts)
                    if isinstance(g.a, ast.Compare) and fl == '_all' and not (i == 0 and j == n):
                        # documented: the operator on one side of the slice goes with it and has to be named when putting back
                        if i == 0:
                            popts.update(op=g.a.ops[j - 1].f.src, op_side='right')
                        else:
                            popts.update(op=g.a.ops[i - 1].f.src, op_side='left')
                        rec['put_options'] = repr(popts)
                    if kind == 'cut_one':
                        try:
                            piece = g.get(i, fl, cut=True, **opts)
                        except Exception as e:
                            refusals[f'cut_one:{type(g.a).__name__}.{fl}:{type(e).__name__}'] = refusals.get(f'cut_one:{type(g.a).__name__}.{fl}:{type(e).__name__}', 0) + 1
                            if root.src != before_src:
                                ctx.violation('cut-refusal-dirty', 'cut raised and changed the source', {**rec, 'error': repr(e), 'after': root.src})
                                break
                            continue
                        rec['piece'] = piece.src if piece is not None else None
                        rec['after_cut'] = root.src
                        if isinstance(g.a, ast.arguments) and fl in ('defaults', 'kw_defaults'):
                            g.put(piece, i, fl, **popts)          # defaults are not a sliceable list of their own (the '_all' field is): a single default is put back as one
                        else:
                            g.put_slice(piece, i, i, fl, one=True, **popts)
                    else:
                        try:
                            piece = g.get_slice(i, j, fl, cut=True, **opts)
                        except Exception as e:
                            k = f'cut_slice:{type(g.a).__name__}.{fl}:{type(e).__name__}'
                            refusals[k] = refusals.get(k, 0) + 1
                            if root.src != before_src:
                                ctx.violation('cut-refusal-dirty', 'cut raised and changed the source', {**rec, 'error': repr(e), 'after': root.src})
                                break
                            continue
                        rec['piece'] = piece.src if piece is not None else None
                        rec['after_cut'] = root.src
                        g.put_slice(piece, i, i, fl, **popts)
                elif kind == 'self_copy':
                    f.replace(f.copy())
                elif kind == 'self_ast':
                    f.replace(copy_ast(f.a))
                elif kind == 'self_src':
                    f.replace(f.own_src())
                elif kind == 'own_src':
                    osrc = f.own_src()
                    try:
                        back = fst.FST(osrc, type(f.a))
                    except Exception as e:
                        # kinds that have no parse mode of their own are not claimed
                        k = f'own_src-mode:{type(f.a).__name__}:{type(e).__name__}'
                        refusals[k] = refusals.get(k, 0) + 1
                        if isinstance(e, (SyntaxError,)) and isinstance(f.a, (ast.stmt, ast.expr, ast.pattern)) and not isinstance(f.a, (ast.Starred, ast.Slice)):
                            ctx.violation(f'own_src-parse|{type(f.a).__name__}', 'own_src() of a node does not parse in the mode of its own kind',
                                          {**rec, 'own_src': osrc, 'error': repr(e)})
                        continue
                    d = cmp_ast(squash_multiline_strings(back.a), squash_multiline_strings(f.a), positions=False, ctx=False)
                    ctx.tick((hash(src) & 0xffffff, rd, kind, repr(f)), 'rt:own_src')
                    if d:
                        ctx.violation(f'own_src-struct|{type(f.a).__name__}', 'own_src() parses to a different node', {**rec, 'own_src': osrc, 'diffs': d})
                    continue
            except Exception as e:
                k = f'{kind}:{type(f.a).__name__}:{type(e).__name__}'
                if kind in ('cut_slice', 'cut_one') and 'would follow keywords' in str(e):
                    # documented refusal: index i of the real field bases/args lies behind a keyword now; the position is
                    # only expressible through the virtual field
                    refusals['putback:behind-keyword'] = refusals.get('putback:behind-keyword', 0) + 1
                    break
                if kind in ('cut_slice', 'cut_one'):
                    # the cut succeeded and putting the piece back where it came from was refused
                    ctx.violation(f'putback-refused|{type(g.a).__name__}.{fl}|{type(e).__name__}', 'the cut succeeded but putting the piece back at the same place raised',
                                  {**rec, 'error': repr(e)[:300], 'after': root.src})
                    break
                refusals[k] = refusals.get(k, 0) + 1
                if root.src != before_src:
                    ctx.violation('self-replace-refusal-dirty', 'replace by self raised and changed the source', {**rec, 'error': repr(e), 'after': root.src})
                    break
                continue
            ctx.tick((hash(src) & 0xffffff, rd, kind, repr(f), rec.get('field'), rec.get('start'), rec.get('stop')), 'rt:' + kind)
            d = cmp_ast(root.a, ref, positions=False)
            if d and kind == 'self_src':
                d = cmp_ast(squash_multiline_strings(root.a), squash_multiline_strings(ref), positions=False)
                if not d:
                    ref = ast.parse(root.src)   # the re-indented string is the reference from here on
            if d:
                ctx.violation(f'roundtrip-struct|{kind}|{rec.get("holder", rec["node"]).split()[0].strip("<")}.{rec.get("field")}',
                              'the tree after the round trip is not structurally equal to the original', {**rec, 'diffs': d, 'after': root.src})
                break
            d = reparse_diffs(root)
            if d:
                from props.C01 import classify
                sig = 'stmt-put-at-eof-without-newline-with-trailing-space-trivia' if False else f'roundtrip-c01|{kind}'
                ctx.violation(sig, 'the source after the round trip does not parse to the live tree', {**rec, 'diffs': d, 'after': root.src})
                break
    ctx.extra['refusals'] = dict(sorted(refusals.items()))


def squash_multiline_strings(a):
    """own_src() dedents the continuation lines of multi-line strings (documented re-indentation of docstrings): compare
    such string values up to whitespace"""
    a = copy.deepcopy(a) if not hasattr(a, 'f') else __import__('fst').astutil.copy_ast(a)
    for n in ast.walk(a):
        if isinstance(n, ast.Constant) and isinstance(n.value, str) and '\n' in n.value:
            n.value = ' '.join(n.value.split())
    return a


def parents(f):
    p = f.parent
    while p is not None:
        yield p
        p = p.parent


PAREN_PROGS = ['with ((a, b)): pass\n', 'async def f():\n    async with ((a, b)): pass\n    async for i in ((j, k)): pass\n', 'with ((a, b)), c: pass\n', 'with (a, b) as c: pass\n', 'for x in ((a, b)): pass\n',
               'x = [i for i in (items or []) if i]\n', 'x = [i for i in (a if b else c) if i if j]\n', 'def g():\n    x = [i for i in (yield) if i]\n', 'x = {k: v for k, v in ((p, q)) if k if v}\n',
               'x = (lambda: (y))()\n', 'x = ((a, b))[0]\n', 'assert (a, b), (c)\n', 'del ((a)), (b)\n', 'x = y = ((a, b))\n', 'return_ = ((yield_))\n', 'class K(((A))): pass\n', 'f(((a)), *((b)), k=((c)))\n',
               'x = (a) if (b) else (c)\n', 'x = not (a)\n', 'x = (a)[(b):(c)]\n', 'raise ((E)) from ((c))\n', 'match (v):\n    case ((a)) if ((g)): pass\n']


def stage_paren_roundtrip(ctx: Ctx):
    """deterministic: programs whose children carry grouping parentheses that are NOT part of the node (and items that need them to stay one item): every single child replaced
    by its own copy / pure AST / own source, every sub-range of every list field cut and put back where it was: the structure is the original and the source parses to the tree"""
    import fst
    for src in PAREN_PROGS:
        ref = ast.parse(src)
        probe = fst.FST(src, 'exec')
        for f in probe.walk(True):
            if f.parent is None or isinstance(f.a, (ast.expr_context, ast.operator, ast.unaryop, ast.cmpop, ast.boolop)):
                continue
            path = probe.child_path(f)
            if isinstance(f.a, (ast.expr, ast.pattern, ast.withitem, ast.arg, ast.keyword, ast.alias)):
                for how in ('copy', 'copy_ast', 'own_src'):
                    m = fst.FST(src, 'exec')
                    g = m.child_from_path(path)
                    rec = {'src': src, 'node': repr(g), 'put_back': how}
                    try:
                        code = g.copy() if how == 'copy' else g.copy_ast() if how == 'copy_ast' else g.own_src()
                        g.replace(code)
                    except Exception as e:
                        ctx.dist['paren-roundtrip:refused'] = ctx.dist.get('paren-roundtrip:refused', 0) + 1
                        continue
                    ctx.tick(('paren-rt', src, str(path), how), 'roundtrip:paren-child')
                    d = reparse_diffs(m) or cmp_ast(m.a, ref, positions=False)
                    if d:
                        ctx.violation(f'roundtrip|paren-child|{type(g.parent.a).__name__ if g.parent else None}.{f.pfield.name}', 'replacing a child by what was read from it does not restore the tree',
                                      {**rec, 'after': m.src, 'diffs': d})
            for fld in f.a._fields:
                v = getattr(f.a, fld, None)
                if not (isinstance(v, list) and v and isinstance(v[0], ast.AST)) or fld in ('body', 'orelse', 'finalbody', 'handlers', 'cases', 'ops', 'comparators', 'keys', 'values', 'defaults', 'kw_defaults',
                                                                                             'posonlyargs', 'kwonlyargs', 'kwd_patterns') and not isinstance(f.a, ast.BoolOp):
                    continue
                for i in range(len(v)):
                    for j in range(i + 1, len(v) + 1):
                        m = fst.FST(src, 'exec')
                        g = m.child_from_path(path)
                        rec = {'src': src, 'node': repr(g), 'field': fld, 'start': i, 'stop': j}
                        try:
                            piece = g.get_slice(i, j, fld, cut=True)
                            mid = m.src
                            g.put_slice(piece, i, i, fld)
                        except Exception as e:
                            ctx.dist['paren-roundtrip:slice-refused'] = ctx.dist.get('paren-roundtrip:slice-refused', 0) + 1
                            continue
                        ctx.tick(('paren-rt-slice', src, str(path), fld, i, j), 'roundtrip:paren-slice')
                        d = reparse_diffs(m) or cmp_ast(m.a, ref, positions=False)
                        if d:
                            ctx.violation(f'roundtrip|paren-slice|{type(g.a).__name__}.{fld}', 'cutting a slice and putting it back where it was does not restore the tree',
                                          {**rec, 'after_cut': mid, 'after': m.src, 'diffs': d})


IDENT_OWN_PROG = ('import \ufb01.\ufb02 as \ufb03\nfrom \ufb01.\ufb02 import \ufb01 as \ufb02\nfrom .\ufb03 import a\ndef \ufb01(\ufb01, *\ufb02, \ufb03=1, **\ufb04): pass\nclass \ufb01: pass\nx.\ufb01 = \ufb02\nf(\ufb01=1)\n'
                  'def h():\n    global \ufb01, \ufb02\n    nonlocal_ = 1\nmatch v:\n  case {**\ufb01}: pass\n  case [*\ufb01]: pass\n  case C(\ufb01=1): pass\n  case t as \ufb01: pass\n'
                  'try: pass\nexcept E as \ufb01: pass\ntype T[\ufb01, *\ufb02, **\ufb03] = \ufb01\nimport \U0001d426\U0001d428\U0001d41d.sub, \uff4f\uff53\n')


def stage_identifier_roundtrip(ctx: Ctx):
    """deterministic: every identifier of a program whose identifiers are written with compatibility characters is put back as its own SOURCE text (the un-normalised spelling)
    and as its own value: the tree is the original one and equals the parse of the new source"""
    import fst
    import unicodedata
    src = IDENT_OWN_PROG
    probe = fst.FST(src, 'exec')
    orig = ast.parse(src)
    # the spellings used in the source, by normalised name
    spell = {}
    import io, tokenize
    for t in tokenize.generate_tokens(io.StringIO(src).readline):
        if t.type == tokenize.NAME:
            spell.setdefault(unicodedata.normalize('NFKC', t.string), t.string)
    sites = []
    for f in probe.walk(True):
        for fld in f.a._fields:
            v = getattr(f.a, fld, None)
            if isinstance(v, str) and not isinstance(f.a, ast.Constant):
                sites.append((probe.child_path(f), fld, None, v))
            elif isinstance(v, list) and v and isinstance(v[0], str):
                sites += [(probe.child_path(f), fld, i, x) for i, x in enumerate(v)]
    for path, fld, idx, v in sites:
        own = '.'.join(spell.get(p_, p_) for p_ in v.split('.'))
        for new, what in ((own, 'own-source-text'), (v, 'own-value')):
            root = fst.FST(src, 'exec')
            f = root.child_from_path(path)
            rec = {'src': src, 'node': repr(f), 'field': fld, 'idx': idx, 'put': new, 'what': what}
            try:
                f.put(new, idx, fld) if idx is not None else f.put(new, fld)
            except Exception as e:       # every one of these fields takes a plainly written identifier
                ctx.violation(f'identifier-roundtrip-raise|{type(f.a).__name__}.{fld}|{type(e).__name__}', "putting an identifier's own text back raised", {**rec, 'error': repr(e)[:200]})
                continue
            ctx.tick(('ident-roundtrip', str(path), fld, idx, what), 'identifier-roundtrip:' + what)
            d = cmp_ast(root.a, orig, positions=False) or reparse_diffs(root)
            if d:
                ctx.violation(f'identifier-roundtrip|{type(f.a).__name__}.{fld}|{what}', "after putting an identifier's own text back the tree is not the original one / not what the source denotes",
                              {**rec, 'result_src': root.src, 'diffs': d[:5]})


OWN_PROGS = ['class K:\n    @property\n    def p(self): return 1\n    @a.b(c)\n    # about I\n    class I: pass\nif x:\n    @d\n    async def g(): pass\n',
             'try:\n    a\nexcept *X:\n    b\nexcept * Y as e:\n    c\nfinally:\n    d\n', 'try:\n    a\nexcept \\\n *X:\n    b\nfinally:\n    d\n', 'try:\n    a\nexcept* X:\n    b\nfinally:\n    d\n',
             'try:\n    a\nexcept  X:\n    b\nexcept(Y, Z)as e:\n    c\nelse:\n    d\n', 'match v:\n    case [a, *b] if c: pass\n    case {1: x, **r} | None: y = 1\n', 'for i in j:\n    with a as b, c: pass\nelse:\n    z\n',
             'x = [i for i in j if k]\ny = {a: b for a, b in c}\nz = lambda p, *q, r=1: (p, q)\n', 'def f(a, /, b: int = 1, *c, d, **e) -> r:\n    """doc"""\n    return a\n']


def stage_own_src_and_self(ctx: Ctx):
    """deterministic: every node of a set of programs (decorated definitions inside blocks, `except *X` spellings of star handlers, clauses ...): own_src() parses back to the node;
    replacing the node by its own copy / pure AST / source text, and cutting all elements of every block-level list and putting them back, gives the original tree"""
    import fst
    from fst.astutil import copy_ast
    # a ROOT that is one statement / expression: own_src(whole=False) is the node alone (decorators are part of it) and parses back to it
    for src, mode in [('@deco\ndef f(self):\n    return 1  # c\n', None), ('# lead\n@d(1)\nclass K: pass\n# trail\n', None), ('@a\n@b\nasync def g(): pass', None), ('x = 1  # c', None), ('# c\n(a +\n b)', 'expr'),
                      ('\n\nif a:\n    b\nelse:\n    c  # d\n\n', None), ('# c\n[a, b]  # d\n', 'expr')]:
        try:
            r_ = fst.FST(src, mode) if mode else fst.FST(src)
            osrc = r_.own_src(whole=False)
            back = fst.FST(osrc, type(r_.a))
            d = cmp_ast(squash_multiline_strings(back.a), squash_multiline_strings(r_.a), positions=False, ctx=False)
        except Exception as e:
            d, osrc = [f'own_src(whole=False) / parse raised {e!r}'[:200]], None
        ctx.tick(('own-src-root', src), 'sweep:own_src:root')
        if d:
            ctx.violation(f'own_src-struct|root|{type(r_.a).__name__}', 'own_src(whole=False) of a root node parses to a different node', {'src': src, 'own_src': osrc, 'diffs': d[:5]})
    for src in OWN_PROGS:
        ref = ast.parse(src)
        probe = fst.FST(src, 'exec')
        paths = [probe.child_path(f, True) for f in probe.walk(True) if f.parent is not None and isinstance(f.a, (ast.stmt, ast.expr, ast.pattern, ast.ExceptHandler, ast.match_case, ast.withitem, ast.arguments,
                                                                                                                  ast.comprehension, ast.alias, ast.keyword, ast.arg))]
        for path in paths:
            f = probe.child_from_path(path)
            if isinstance(f.a, (ast.stmt, ast.ExceptHandler, ast.match_case)) or (isinstance(f.a, (ast.expr, ast.pattern)) and not isinstance(f.a, (ast.Starred, ast.Slice))):
                try:
                    osrc = f.own_src()
                    back = fst.FST(osrc, type(f.a))
                    d = cmp_ast(squash_multiline_strings(back.a), squash_multiline_strings(f.a), positions=False, ctx=False)
                except Exception as e:
                    d = [f'own_src / parse raised {e!r}'[:200]] if isinstance(f.a, (ast.stmt, ast.ExceptHandler, ast.match_case)) else None
                    osrc = None
                ctx.tick(('own-src', src, path), 'sweep:own_src')
                if d:
                    ctx.violation(f'own_src-struct|{type(f.a).__name__}', 'own_src() parses to a different node', {'src': src, 'node': path, 'own_src': osrc, 'diffs': d[:5]})
            for how in ('self_copy', 'self_ast', 'self_src'):
                root = fst.FST(src, 'exec')
                g = root.child_from_path(path)
                rec = {'src': src, 'node': path, 'kind': how}
                try:
                    if how == 'self_copy':
                        g.replace(g.copy())
                    elif how == 'self_ast':
                        g.replace(copy_ast(g.a))
                    else:
                        g.replace(g.own_src())
                except Exception as e:
                    ctx.tick(None, 'sweep:self-replace:refused')
                    if root.src != src:
                        ctx.violation('self-replace-refusal-dirty', 'replace by self raised and changed the source', {**rec, 'error': repr(e)[:200], 'after': root.src})
                    elif isinstance(g.a, (ast.ExceptHandler, ast.stmt)) and how != 'self_ast':
                        ctx.violation(f'self-replace-refused|{type(g.a).__name__}|{how}', 'replacing a statement-level node by its own copy / source was refused', {**rec, 'error': repr(e)[:200]})
                    continue
                ctx.tick(('self', src, path, how), 'sweep:' + how)
                d = cmp_ast(squash_multiline_strings(root.a), squash_multiline_strings(ref), positions=False) or reparse_diffs(root)
                if d and how == 'self_ast' and isinstance(g.a, ast.ExceptHandler):
                    continue        # a pure AST handler does not say whether it was `except*`
                if d:
                    ctx.violation(f'roundtrip-struct|{how}|{type(g.a).__name__}', 'the tree after replacing a node by itself is not structurally equal to the original', {**rec, 'after': root.src, 'diffs': d[:5]})
        # cut everything of every statement-level list and put it back
        for f in probe.walk(True):
            for fl in ('body', 'orelse', 'finalbody', 'handlers', 'cases'):
                v = getattr(f.a, fl, None)
                if not (isinstance(v, list) and v) or (fl == 'body' and not isinstance(f.a, ast.Module) and False):
                    continue
                root = fst.FST(src, 'exec')
                g = root.child_from_path(probe.child_path(f, True)) if f.parent is not None else root
                rec = {'src': src, 'holder': repr(g), 'field': fl}
                try:
                    piece = g.get_slice(0, 'end', fl, cut=True)
                    g.put_slice(piece, 0, 0, fl)
                except Exception as e:
                    ctx.tick(None, 'sweep:cut-all:refused')
                    continue
                ctx.tick(('cut-all', src, repr(f), fl), 'sweep:cut-all-put-back')
                d = cmp_ast(squash_multiline_strings(root.a), squash_multiline_strings(ref), positions=False) or reparse_diffs(root)
                if d:
                    ctx.violation(f'roundtrip-struct|cut-all|{type(g.a).__name__}.{fl}', 'cutting all elements of a block and putting them back does not give the original tree', {**rec, 'after': root.src, 'diffs': d[:5]})


DEBUG_FSTR_PROGS = ['x = f"""{a  +  \\\n b  *  c = }"""\n', "y = f'''{a  +  # c\n b  *  c = !r:>{w}}'''\n", 'z = f"{a  *  b = } {c [ 0 ] =!r}"\n', 'w = f"""{f( a ,\n   b  +  c ) = :>9}{d=}"""\n',
                    'v = f"""{ {k :  v}  [ a \\\n ] = }"""\n']


def stage_debug_fstring_self_replace(ctx: Ctx):
    """deterministic: self-documenting f-string fields (`{expr = }`) whose expression is spread over lines with backslash continuations / comments and written with unusual spacing: every node
    below the field replaced by its own copy / pure AST / source (the pure AST re-spells the text, so the Constant in front of the field must follow): the tree equals the parse of its source"""
    import fst
    from fst.astutil import copy_ast
    for src in DEBUG_FSTR_PROGS:
        try:
            probe = fst.FST(src, 'exec')
        except Exception as e:
            ctx.broken.append({'kind': 'harness', 'name': 'debug-fstring-prog', 'detail': f'{src!r}: {e!r}'[:200]})
            continue
        paths = [probe.child_path(f, True) for f in probe.walk(True) if isinstance(f.a, ast.expr) and any(isinstance(p.a, ast.FormattedValue) for p in f.parents())
                 and not isinstance(f.a, (ast.Starred, ast.Slice, ast.JoinedStr)) and not isinstance(f.parent.a, ast.JoinedStr)]
        for path in paths:
            for how in ('self_copy', 'self_ast', 'self_src'):
                root = fst.FST(src, 'exec')
                g = root.child_from_path(path)
                rec = {'src': src, 'node': path, 'node_src': g.src, 'kind': how}
                try:
                    if how == 'self_copy':
                        g.replace(g.copy())
                    elif how == 'self_ast':
                        g.replace(copy_ast(g.a))
                    else:
                        g.replace(g.own_src())
                except Exception as e:
                    if root.src != src:
                        ctx.violation('self-replace-refusal-dirty', 'replace by self raised and changed the source', {**rec, 'error': repr(e)[:200], 'after': root.src})
                    continue
                ctx.tick(('debug-fstr', src, path, how), 'sweep:debug-fstring:' + how)
                d = reparse_diffs(root)
                if d:
                    ctx.violation(f'value-vs-source|debug-fstring|{how}', 'after replacing a node inside a self-documenting f-string field by itself the tree differs from the parse of its source (the text in front of the field)',
                                  {**rec, 'after': root.src, 'diffs': d[:4]})


def run(ctx: Ctx):
    ctx.rule = ('(1) strings dense in quotes/backslashes/triple quotes/NUL/non-printables: real repr_str_multiline vs ast.literal_eval and vs the Coq model (output and reader); '
                '(2) put_docstr/get_docstr with such texts at 7 hosts (indent 0..8, tabs, one-line bodies), rewrite and delete, + indentation model correspondence; '
                '(3) put_line_comment/get_line_comment (full and stripped forms, block fields); (4) per corpus program up to 3 rounds of: cut slice / cut one and put back '
                'at the same index (real and virtual fields, random trivia option), replace by own copy / pure AST / own source, own_src() parsed in the mode of its kind; '
                'after each: structural equality with the original CPython parse + C01 re-parse. distinct = (input, operation).')
    ctx.assumptions += ['ast.literal_eval is the reference reader of literals', 'OH1 (CPython positions) for the C01 part', 'line comment texts contain no line breaks']
    ok = stage_translate(ctx)
    if ok:
        ctx.build_props()
    run_guarded(ctx, stage_repr)
    run_guarded(ctx, stage_docstr)
    progs = corpus(ctx.rng, gen=ctx.scale(20, 150))
    run_guarded(ctx, stage_comments, progs)
    run_guarded(ctx, stage_header_comments)
    run_guarded(ctx, stage_comment_ancestors)
    run_guarded(ctx, stage_roundtrip, progs)
    run_guarded(ctx, stage_clause_roundtrip)
    run_guarded(ctx, stage_paren_roundtrip)
    run_guarded(ctx, stage_identifier_roundtrip)
    run_guarded(ctx, stage_own_src_and_self)
    run_guarded(ctx, stage_debug_fstring_self_replace)


def replay(path):
    d = json.load(open(path))
    print(json.dumps(d, indent=1)[:6000])
    return 0
