"""C02 - An edited tree is observationally identical to a fresh parse of its own source."""

from __future__ import annotations

import ast
import json

from lib.common import *
from lib import edits
from lib.progs import corpus
from lib.oracle import reparse_diffs
from props.C11 import stage_translate

LEVEL = 'proof'
HDR = ('From Coq Require Import List Bool Arith ZArith.\nFrom PF Require Import kernel.OffsetBase models.Cache.\nImport ListNotations.\nLocal Open Scope Z_scope.\n'
       'Definition ans (p : npos) : Z := let \'(l, c, el, ec) := p in (el - l) * 1000 + (ec - c).\n'
       'Definition mv (dl dc : Z) (p : npos) : npos := let \'(l, c, el, ec) := p in (l + dl, c + dc, el + dl, ec + dc).\n'
       'Fixpoint lz_eqb (a b : list Z) : bool := match a, b with [], [] => true | x :: a\', y :: b\' => Z.eqb x y && lz_eqb a\' b\' | _, _ => false end.\n')

PREDICATES = ['is_root', 'is_mod', 'is_stmt', 'is_expr', 'is_pattern', 'is_block', 'is_scope', 'is_funcdef', 'is_def', 'is_for', 'is_with', 'is_try',
              'is_import', 'is_stmtlike', 'is_named_scope', 'is_anon_scope', 'is_elif', 'is_except_star', 'is_parenthesized_tuple',
              'is_empty_arguments', 'is_delimited_matchseq']


def q(node, name):
    """one query -> comparable value; exceptions are values too"""
    import fst
    try:
        if name == 'loc':
            v = node.loc
            return tuple(v) if v is not None else None
        if name == 'bloc':
            v = node.bloc
            return tuple(v) if v is not None else None
        if name == 'pars':
            v = node.pars()
            return (tuple(v), getattr(v, 'n', None)) if v is not None else None
        if name == 'pars_shared_false':
            v = node.pars(shared=False)
            return (tuple(v), getattr(v, 'n', None)) if v is not None else None
        if name == 'own_src':
            return node.own_src() if node.loc is not None else None
        if name == 'pfield':
            p = node.pfield
            return (p.name, p.idx) if p is not None else None
        if name == 'parent_type':
            return type(node.parent.a).__name__ if node.parent is not None else None
        if name in ('next', 'prev', 'first_child', 'last_child', 'step_fwd', 'step_back'):
            r = getattr(node, name)(True) if name not in ('step_fwd', 'step_back') else getattr(node, name)(True)
            return node.root.child_path(r, True) if r is not None else None
        if name == 'has_docstr':
            return node.has_docstr
        if name == 'docstr':
            return node.get_docstr() if isinstance(node.a, (ast.FunctionDef, ast.AsyncFunctionDef, ast.ClassDef, ast.Module)) else None
        if name == 'viewlens':
            out = []
            for f in node.a._fields:
                v = getattr(node.a, f, None)
                if isinstance(v, list):
                    try:
                        out.append((f, len(getattr(node, f))))
                    except Exception as e:
                        out.append((f, type(e).__name__))
            return tuple(out)
        if name == 'lineno4':
            return (node.lineno, node.col_offset, node.end_lineno, node.end_col_offset)
        if name in PREDICATES:
            v = getattr(node, name)
            return v() if callable(v) else v
    except Exception as e:
        return ('EXC', type(e).__name__)
    return None


QUERIES = ['loc', 'bloc', 'pars', 'pars_shared_false', 'own_src', 'pfield', 'parent_type', 'next', 'prev', 'first_child', 'last_child', 'step_fwd',
           'has_docstr', 'docstr', 'viewlens', 'lineno4'] + PREDICATES


def nodes_by_path(root):
    out = {}
    for f in root.walk(True):
        out[repr(root.child_path(f))] = f
    return out


def compare_with_fresh(root, rng, nq, focus_path=None):
    """returns a difference description or None"""
    import fst
    try:
        fresh = fst.FST(root.src, 'exec')
    except Exception as e:
        return {'why': 'source of the live tree does not build a fresh tree', 'error': repr(e)}
    live = nodes_by_path(root)
    new = nodes_by_path(fresh)
    if set(live) != set(new):
        return {'why': 'node paths differ between live tree and fresh tree', 'only_live': sorted(set(live) - set(new))[:3], 'only_fresh': sorted(set(new) - set(live))[:3]}
    paths = sorted(live)
    if nq and len(paths) > nq:
        paths = rng.sample(paths, nq)
    if focus_path is not None:
        # always include the chain of nodes from the root down to where the edit happened
        node = root
        chain = [node]
        try:
            a = root.a
            for f, i in focus_path:
                a = getattr(a, f)
                if i is not None:
                    a = a[i]
                if getattr(a, 'f', None) is not None:
                    chain.append(a.f)
        except Exception:
            pass
        extra = []
        for f in chain:
            try:
                extra.append(repr(root.child_path(f)))
            except Exception:
                pass
        paths = [p for p in extra if p in live] + [p for p in paths if p not in extra]
    for p in paths:
        a, b = live[p], new[p]
        if type(a.a) is not type(b.a):
            return {'why': 'node type differs', 'path': p}
        for name in QUERIES:
            va, vb = q(a, name), q(b, name)
            if va != vb:
                return {'why': 'query answer differs from a fresh tree', 'path': p, 'node': type(a.a).__name__, 'query': name, 'live': repr(va)[:200], 'fresh': repr(vb)[:200]}
    if root.root is not root:
        return {'why': 'root.root is not root'}
    return None


CACHED_QUERIES = ['loc', 'bloc', 'pars', 'pars_shared_false', 'own_src', 'viewlens']


def warm_targeted(root, op):
    """ask every cache-filling query on the edit target, all its ancestors and its siblings (the nodes whose caches the edit
    must flush)"""
    try:
        n = edits.node_at(root.a, op['path']).f
    except Exception:
        return
    seen = []
    cur = n
    while cur is not None:
        seen.append(cur)
        cur = cur.parent
    if n.parent is not None:
        seen += list(n.parent.walk(True, self_=False, recurse=False))
    seen += list(n.walk(True, self_=False, recurse=False))
    for f in seen:
        for name in CACHED_QUERIES:
            q(f, name)


def warm(root, rng, k):
    """populate caches: ask random queries on random nodes"""
    ns = list(root.walk(True))
    for _ in range(k):
        n = rng.choice(ns)
        q(n, rng.choice(QUERIES))


def stage_oracle(ctx: Ctx, progs):
    import fst
    import random
    rng = ctx.rng
    nseq = ctx.scale(70, 1500)
    nq = ctx.scale(25, 200)
    for si in range(nseq):
        src = rng.choice(progs)
        seed = rng.randrange(1 << 30)
        results = []
        for schedule in ('warm', 'cold'):
            r2 = random.Random(seed)        # same edit script under both schedules
            rq = random.Random(seed ^ 0x5a5a)
            root = fst.FST(src, 'exec')
            rid = id(root)
            hist = []
            bad = None
            for step in range(r2.randrange(1, ctx.scale(6, 15))):
                if schedule == 'warm':
                    warm(root, rq, 30)
                op = edits.gen_op(r2, root)
                if not op:
                    continue
                if schedule == 'warm':
                    warm_targeted(root, op)
                anc_paths = [repr(op['path'][:i]) for i in range(len(op['path']) + 1)]
                before_src = root.src
                r, e = edits.apply(root, op)
                hist.append({'op': edits.op_brief(op), 'result': r})
                if r != 'ok':
                    continue
                ctx.tick((seed, step, schedule), 'edit:' + schedule)
                if id(root) != rid:
                    bad = {'why': 'root identity changed'}
                else:
                    bad = compare_with_fresh(root, rq, nq, op['path'])
                if bad:
                    sig = f'query|{bad.get("query", bad["why"][:30])}|{bad.get("node", "")}|{schedule}'
                    if 'positional argument follows keyword argument' in str(bad.get('error', '')):
                        sig = 'unparsable|arglike-positional-after-keyword'
                    if edits.eof_trailing_space_case(before_src, op):
                        sig = 'stmt-put-at-eof-without-newline-with-trailing-space-trivia'
                    if edits.continuation_semicolon_case(before_src, op):
                        sig = 'stmt-put-before-continuation-semicolon-with-trailing-trivia'
                    if op['kind'] == 'put_line_comment':
                        try:
                            if edits.stmt_before_continuation_semicolon(before_src, edits.node_at(ast.parse(before_src), op['path'])):
                                sig = 'line-comment-put-before-continuation-semicolon'
                        except Exception:
                            pass
                    ctx.violation(sig,
                                  'a query on the edited tree answers differently from the same query on a tree freshly built from its source',
                                  {'start_src': src, 'schedule': schedule, 'history': hist, 'src_now': root.src, **bad})
                    break
            results.append((root.src, ast.dump(root.a, include_attributes=True)) if not bad else None)
            if bad:
                break
        if len(results) == 2 and results[0] is not None and results[1] is not None and results[0] != results[1]:
            ctx.violation('schedule-dependent', 'the result of an edit script depends on which read-only queries were made between the edits',
                          {'start_src': src, 'script_seed': seed, 'src_warm': results[0][0], 'src_cold': results[1][0]})


def stage_accessor_caches(ctx: Ctx, progs):
    """comment / docstring accessors after warming the caches of the statement, its ancestors and siblings"""
    import fst
    rng = ctx.rng
    cases = []
    for pi, src in enumerate(progs):
        for n in ast.walk(ast.parse(src)):
            if isinstance(n, ast.stmt):
                cases.append((pi, edits.path_of(ast.parse(src), n) if False else None, n.lineno, n.col_offset, type(n).__name__))
    rng.shuffle(cases)
    for pi, _, lineno, col, tname in cases[:ctx.scale(250, 4000)]:
        src = progs[pi]
        root = fst.FST(src, 'exec')
        tgt = next((x for x in ast.walk(root.a) if isinstance(x, ast.stmt) and x.lineno == lineno and x.col_offset == col and type(x).__name__ == tname), None)
        if tgt is None:
            continue
        path = edits.path_of(root.a, tgt)
        how = rng.choice(['line_comment', 'line_comment', 'docstr'])
        op = {'kind': 'put_line_comment' if how == 'line_comment' else 'put_docstr', 'path': path, 'form': 'src', 'options': {},
              'comment': rng.choice(['x', 'a much longer replacement comment', None, 'ü']), 'text': rng.choice(['d', 'long\ndoc string', None])}
        if how == 'docstr' and not isinstance(tgt, (ast.FunctionDef, ast.AsyncFunctionDef, ast.ClassDef)):
            continue
        warm_targeted(root, op)
        r, e = edits.apply(root, op)
        if r != 'ok':
            continue
        ctx.tick(('acc', pi, lineno, how, op['comment'], op['text']), 'accessor:' + how)
        bad = compare_with_fresh(root, rng, 10, path)
        if bad and how == 'line_comment' and edits.stmt_before_continuation_semicolon(src, tgt):
            ctx.violation('line-comment-put-before-continuation-semicolon', 'put_line_comment on a statement followed by a line continuation and a lone ";" leaves the ";" on a line of its own',
                          {'start_src': src, 'op': edits.op_brief(op), 'src_now': root.src, **bad})
        elif bad:
            ctx.violation(f'query|{bad.get("query", bad["why"][:30])}|{bad.get("node", "")}|accessor:{how}',
                          'after a comment/docstring accessor put, a query answers differently from a fresh tree (stale cache)',
                          {'start_src': src, 'op': edits.op_brief(op), 'src_now': root.src, **bad})


SWEEP_PROGS = [
    "match v:\n    case [\n         a | b | c,\n         d]:\n        pass\n    case C(\n         x | y | z):\n        pass\n    case {'k':\n         1 | 2 | 3}:\n        pass\n",
    'r = a if(b)else c\ns = not(a)\nfor i in(j):\n    pass\nt = [i for i in(j)if(k)]\nu = (a)if(b)else(c)\nv = (a)and(b)and(c)\nw = (\n  a\n) + (b)\n',
    'x = [\n     a, b,\n     c]\ny = {\n     k: v,\n     **r}\nz = f(\n      a,\n      *b, k=c)\ndel (\n     p), q\n',
    'def f(\n      a, b=1, *c, d, **e): pass\nclass C(\n        A, B, metaclass=M): pass\nwith (\n      a as b,\n      c): pass\nimport (a)if 0 else b\n'.replace('import (a)if 0 else b\n', 'from m import (\n       a,\n       b as c)\nglobal g, h, i\n'),
    # positional / starred arguments and keywords interleaved: the children are not in field order
    'r = f(k=1, *b, x=2, y=3, z=4)\nclass D(k=1, *b, x=2, y=3, z=4): pass\ng(*a, k=1, *b, j=2, **c, m=3)\nh(a, k=1, *b, j=2)\n',
]


def stage_slice_sweep(ctx: Ctx):
    """deterministic: every element of every list field of a set of layouts (children on a later line at the column of the parent, parentheses glued to
    keywords) deleted / inserted before / replaced, and every parenthesized node unparenthesized (and parenthesized again): all queries on all nodes vs a fresh tree,
    with the caches of the whole tree warmed before the edit"""
    import fst
    from lib.progs import CORPUS
    rng = ctx.rng
    # whitespace put in front of a trailing line comment ('offset' mode): the comment is part of the cached bloc of every statement that ends on that line
    for src in ['def f():\n  if a:\n    x = 1  # c\ny = 2\n', 'class K:\n  def m(self):\n    while q:\n      try:\n        z  # c\n      finally:\n        w  # d\nt = 0  # e\n',
                'if a:\n  pass\nelif b:\n  with c: d  # e\n', 'for i in j:\n  k; l  # m\nelse:\n  n  # o\n']:
        lines = src.split('\n')
        for ln, l in enumerate(lines):
            if '#' not in l:
                continue
            col = l.index('#')
            for new, c0 in (('   ', col), ('', col - 1), ('  ', col - 2)):
                root = fst.FST(src, 'exec')
                for g in root.walk(True):
                    for name in CACHED_QUERIES:
                        q(g, name)
                try:
                    root.put_src(new, ln, c0, ln, col, 'offset')
                except Exception:
                    continue
                ctx.tick(('sweep-cmt', src, ln, new), 'sweep:trailing-comment-offset')
                bad = compare_with_fresh(root, rng, 0)
                if bad:
                    ctx.violation(f'query|{bad.get("query", bad["why"][:30])}|{bad.get("node", "")}|sweep:comment-offset',
                                  'a query on the edited tree answers differently from the same query on a tree freshly built from its source',
                                  {'start_src': src, 'how': 'put_src offset before trailing comment', 'line': ln, 'new': new, 'src_now': root.src, **bad})
    # multi-line slices whose continuation lines are indented LESS than their elements, put into multi-line sequences at another indentation (the lines are re-indented one by one)
    ragged = ['[\n            aaa,\n            (bbb +\n  ccc),\n            ddd,\n]', '(\n                    first,\n                    {k:\n v},\n                    last,\n)',
              '[\n  p,\n        (q\n      + r),\n s]', '[\n        u, (v,\nw),\n        x]', '[\n\t\ta,\n\t(b +\n c),\n\t\td]']
    hosts = [('x = [\n    one,\n    two,\n]\n', lambda r: r.body[0].value, 'elts'), ('if 1:\n    call(\n        a,\n        b,\n    )\n', lambda r: r.body[0].body[0].value, 'args'),
             ('class K:\n    def m(self):\n        return {\n            a,\n            b,\n        }\n', lambda r: r.body[0].body[0].body[0].value, 'elts'), ('x = [one, two]\n', lambda r: r.body[0].value, 'elts'),
             ('x = (\n one,\n two)\n', lambda r: r.body[0].value, 'elts')]
    for hsrc, get, fld in hosts:
        for code in ragged:
            for i, j in ((0, 0), (1, 1), (2, 2), (0, 1), (1, 2), (0, 2)):
                for schedule in ('warm', 'cold'):
                    root = fst.FST(hsrc, 'exec')
                    node = get(root)
                    if schedule == 'warm':
                        for g in root.walk(True):
                            for name in CACHED_QUERIES:
                                q(g, name)
                    try:
                        node.put_slice(fst.FST(code, 'expr'), i, j, fld)
                    except Exception:
                        ctx.dist['sweep:ragged:refused'] = ctx.dist.get('sweep:ragged:refused', 0) + 1
                        continue
                    ctx.tick(('sweep-ragged', hsrc, code, i, j, schedule), 'sweep:ragged-indentation')
                    try:
                        ast.parse(root.src)
                    except SyntaxError:
                        continue
                    bad = compare_with_fresh(root, rng, 0)
                    if bad:
                        ctx.violation(f'query|{bad.get("query", bad["why"][:30])}|{bad.get("node", "")}|sweep:ragged-indentation',
                                      'a query on the edited tree answers differently from the same query on a tree freshly built from its source',
                                      {'start_src': hsrc, 'how': f'put_slice({code!r}, {i}, {j}, {fld!r})', 'schedule': schedule, 'src_now': root.src, **bad})
    for src in SWEEP_PROGS + [CORPUS[-1]]:
        try:
            probe = fst.FST(src, 'exec')
        except Exception as e:
            ctx.broken.append({'kind': 'harness', 'name': 'slice_sweep', 'detail': f'{src!r}: {e!r}'[:200]})
            continue
        jobs = []
        for f in probe.walk(True):
            path = probe.child_path(f)
            for field in f.a._fields:
                v = getattr(f.a, field, None)
                if isinstance(v, list) and v and isinstance(v[0], ast.AST) and field not in ('body', 'orelse', 'finalbody', 'handlers', 'cases', 'type_ignores'):
                    for i in range(len(v)):
                        jobs += [(path, 'del', field, i), (path, 'ins', field, i), (path, 'rep', field, i)]
            if isinstance(f.a, (ast.expr, ast.pattern)):
                jobs += [(path, 'unpar', None, None), (path, 'par', None, None)]
            if isinstance(f.a, (ast.Name, ast.Constant)) and isinstance(getattr(f.a, 'ctx', ast.Load()), ast.Load) and f.parent and not isinstance(f.parent.a, (ast.JoinedStr, ast.FormattedValue)):
                jobs += [(path, 'grow', None, None), (path, 'shrink', None, None)]
        for path, how, field, i in jobs:
            for schedule in ('warm', 'cold'):
                root = fst.FST(src, 'exec')
                f = root.child_from_path(path)
                if schedule == 'warm':
                    for g in root.walk(True):
                        for name in CACHED_QUERIES:
                            q(g, name)
                rec = {'start_src': src, 'node': repr(f), 'how': how, 'field': field, 'idx': i, 'schedule': schedule}
                try:
                    if how == 'del':
                        f.put_slice(None, i, i + 1, field, norm=True)    # without norm a MatchOr of one pattern / a comprehension without generators may be left
                    elif how == 'ins':
                        elt = getattr(f, field)[i].copy()
                        f.put_slice(elt, i, i, field, one=True)
                    elif how == 'rep':
                        elt = getattr(f, field)[(i + 1) % len(getattr(f.a, field))].copy()
                        f.put_slice(elt, i, i + 1, field, one=True)
                    elif how == 'grow':
                        f.replace('grown_' + f.src if isinstance(f.a, ast.Name) else '100000' + f.src if isinstance(f.a.value, int) and f.a.value is not True and f.a.value is not False else 'grown_name')
                    elif how == 'shrink':
                        f.replace('q')
                    elif how == 'unpar':
                        if not f.unpar():
                            continue
                    else:
                        f.par(True)
                except Exception as e:
                    ctx.dist[f'sweep:{how}:refused'] = ctx.dist.get(f'sweep:{how}:refused', 0) + 1
                    continue
                ctx.tick(('sweep', src, str(path), how, field, i, schedule), f'sweep:{how}')
                try:
                    ast.parse(root.src)
                except SyntaxError:
                    continue     # whether the result is valid source is C01 / C09
                bad = compare_with_fresh(root, rng, 0)
                if bad:
                    ctx.violation(f'query|{bad.get("query", bad["why"][:30])}|{bad.get("node", "")}|sweep:{how}',
                                  'a query on the edited tree answers differently from the same query on a tree freshly built from its source',
                                  {**rec, 'src_now': root.src, **bad})
                    break


DOC_DONORS = ['def d():\n    """one line"""\n    return 1\n', 'def d():\n    """first\n    second\n      third\n    """\n    return 1\n', 'def d():\n    """summary \\\n    continued"""\n    return 1\n',
              'def d():\n    "plain \\\n  odd \\\ncol0"\n', "class D:\n    '''cls \\\n    doc\n    '''\n    x = 1\n", 'def d():\n    r"""raw \\d\n    second"""\n', 'def d():\n    """a""" """b\n    c"""\n',
              'def d():\n    """é \\\n    ü\n    ö"""\n    def inner():\n        """inner \\\n        doc"""\n', 'async def d():\n    """\n    lead\n    \\\n    tail"""\n',
              'def d():\n    x = 1\n    """not a\n    docstring"""\n']
DOC_HOSTS = [('pass\n', '', 'body'), ('if a:\n    pass\n', 'body[0]', 'body'), ('class K:\n    def m(self):\n        pass\n', 'body[0].body[0]', 'body'), ('if a:\n  if b:\n   if c:\n        pass\n', 'body[0].body[0].body[0]', 'body'),
             ('try:\n\tpass\nfinally:\n\tpass\n', 'body[0]', 'finalbody')]
RAW_SEMI_PROGS = [('if a:\n    x = 1\n    y = 2\n', 'body[0].body[1].value'), ('def f():\n    for i in j:\n        y = 2\nz = 3\n', 'body[0].body[0].body[0].value'),
                  ('class K:\n    def m(self):\n        while q:\n            y = 2', 'body[0].body[0].body[0].body[0].value'), ('try:\n    y = 2\nexcept E:\n    w = 2\n', 'body[0].handlers[0].body[0].value'),
                  ('with a:\n    y = 2  # c\n', 'body[0].body[0].value'), ('match v:\n    case 1:\n        y = 2\n', 'body[0].cases[0].body[0].value')]


def stage_docstr_and_raw_tails(ctx: Ctx):
    """deterministic: (a) functions / classes whose docstring spans lines in every way (plain, continuation inside the quotes, raw, implicit concatenation, nested, non-ASCII) put into
    blocks at other indentation levels through append / insert / replace under every docstr option; (b) raw edits of the last statement of a block whose new text ends in blanks and a
    semicolon (the enclosing blocks end behind it). All queries on all nodes vs a fresh tree."""
    import fst
    rng = ctx.rng
    for donor in DOC_DONORS:
        for hsrc, hpath, field in DOC_HOSTS:
            for how in ('append', 'insert0', 'replace0', 'fst-append'):
                for opts in ({}, {'docstr': False}, {'docstr': 'strict'}, {'docstr': True}):
                    root = fst.FST(hsrc, 'exec')
                    host = eval('root.' + hpath) if hpath else root
                    for g in root.walk(True):
                        for name in CACHED_QUERIES:
                            q(g, name)
                    code = fst.FST(donor, 'exec') if how == 'fst-append' else donor
                    try:
                        if how in ('append', 'fst-append'):
                            host.put_slice(code, 'end', 'end', field, **opts)
                        elif how == 'insert0':
                            host.put_slice(code, 0, 0, field, **opts)
                        else:
                            host.put_slice(code, 0, 1, field, **opts)
                    except Exception as e:
                        ctx.tick(None, 'docstr-put:refused')
                        continue
                    ctx.tick(('docstr-put', donor, hsrc, how, repr(opts)), 'docstr-put:' + how)
                    bad = compare_with_fresh(root, rng, 0)
                    if bad:
                        ctx.violation(f'query|{bad.get("query", bad["why"][:30])}|{bad.get("node", "")}|docstring-donor',
                                      'a query on the edited tree answers differently from the same query on a tree freshly built from its source',
                                      {'start_src': hsrc, 'how': f'{how} into {hpath or "module"}.{field}', 'code': donor, 'options': repr(opts), 'src_now': root.src, **bad})
                        continue
                    d = reparse_diffs(root)
                    if d:
                        ctx.violation('c01-after-docstring-put', 'after putting a function with a multi-line docstring the tree is not the parse of its source (values included)',
                                      {'start_src': hsrc, 'how': f'{how} into {hpath or "module"}.{field}', 'code': donor, 'options': repr(opts), 'src_now': root.src, 'diffs': d[:5]})
    for src, path in RAW_SEMI_PROGS:
        for new in ('2 ;', '2;', '2  ;  ', '2 ; ', '(2) ;', '2 \\\n ;', '2 ; w = 3', '2 ;  # c'):
            for via in ('replace-raw', 'put_src'):
                root = fst.FST(src, 'exec')
                node = eval('root.' + path)
                for g in root.walk(True):
                    for name in CACHED_QUERIES:
                        q(g, name)
                try:
                    if via == 'replace-raw':
                        node.replace(new, raw=True)
                    else:
                        ln, col, eln, ecol = node.loc
                        root.put_src(new, ln, col, eln, ecol)
                except Exception:
                    ctx.tick(None, 'raw-tail:refused')
                    continue
                ctx.tick(('raw-tail', src, new, via), 'raw-tail:' + via)
                bad = compare_with_fresh(root, rng, 0)
                if bad:
                    ctx.violation(f'query|{bad.get("query", bad["why"][:30])}|{bad.get("node", "")}|raw-statement-tail',
                                  'a query on the edited tree answers differently from the same query on a tree freshly built from its source',
                                  {'start_src': src, 'how': f'{via} of {path} with {new!r}', 'src_now': root.src, **bad})


def stage_expr_roots_and_compare(ctx: Ctx):
    """deterministic: (a) raw edits of one character (blanked, deleted, replaced by a non-ASCII letter) at every position of small trees with an EXPRESSION root: every query on every
    node vs a fresh tree of the new source in the same mode; (b) insertions at every index of a Compare's merged operand list with parenthesized code that spans lines"""
    import fst

    def same_as_fresh(root, mode):
        try:
            fresh = fst.FST(root.src, mode)
        except Exception:
            return None
        a_, b_ = list(root.walk(True)), list(fresh.walk(True))
        if [type(x.a) for x in a_] != [type(x.a) for x in b_]:
            return {'why': 'node types differ from a fresh tree'}
        for x, y in zip(a_, b_):
            for name in ('loc', 'bloc', 'pars', 'own_src', 'lineno4'):
                if q(x, name) != q(y, name):
                    return {'why': 'query answer differs from a fresh tree', 'node': type(x.a).__name__, 'query': name, 'live': repr(q(x, name))[:120], 'fresh': repr(q(y, name))[:120]}
        return False
    for src in ['x[..., 1:2]', '[a + bc]', 'f(a, b.cd)', '(a, [b, cd])', 'a if b else cd', '{k: vw}', '[a, *bc]', 'x[1:2, ...]', '[a, b.c]', 'a < bc <= de', 'not ab', 'lambda a: bc', '[i for i in jk if lm]']:
        for p_ in range(len(src)):
            for new in (' ', '', 'é', '  '):
                root = fst.FST(src, 'expr')
                for g in root.walk(True):
                    for name in CACHED_QUERIES:
                        q(g, name)
                try:
                    root.put_src(new, 0, p_, 0, p_ + 1)
                except Exception:
                    ctx.tick(None, 'expr-root-raw:refused')
                    continue
                ctx.tick(('expr-root-raw', src, p_, new), 'expr-root-raw')
                mode = 'expr' if isinstance(root.a, ast.expr) else None
                bad = same_as_fresh(root, mode) if mode else None
                if bad:
                    ctx.violation(f'query|{bad.get("query", bad["why"][:30])}|{bad.get("node", "")}|expr-root-raw', 'a query on the edited tree answers differently from the same query on a tree freshly built from its source',
                                  {'start_src': src, 'mode': 'expr', 'how': f'put_src({new!r}, 0, {p_}, 0, {p_ + 1})', 'src_now': root.src, **bad})
    for src, path in [('bar = (y != z)\n', 'body[0].value'), ('bar = y != z < w\n', 'body[0].value'), ('if (a <\n    b): pass\n', 'body[0].test'), ('bar = [y == z]\n', 'body[0].value.elts[0]')]:
        n = len(eval('fst.FST(src, "exec").' + path + '._all'))
        for i in range(n + 1):
            for code in ('(q\n)', '(\n q)', '(q)', 'q', '(q +\n r)', '((q)\n)'):
                for side in ('left', 'right'):
                    root = fst.FST(src, 'exec')
                    node = eval('root.' + path)
                    for g in root.walk(True):
                        for name in CACHED_QUERIES:
                            q(g, name)
                    try:
                        node.put_slice(code, i, i, '_all', one=True, op='!=', op_side=side)
                    except Exception:
                        ctx.tick(None, 'compare-insert:refused')
                        continue
                    ctx.tick(('compare-insert', src, i, code, side), 'compare-insert')
                    bad = compare_with_fresh(root, ctx.rng, 0)
                    if bad:
                        ctx.violation(f'query|{bad.get("query", bad["why"][:30])}|{bad.get("node", "")}|compare-insert', 'a query on the edited tree answers differently from the same query on a tree freshly built from its source',
                                      {'start_src': src, 'how': f'put_slice({code!r}, {i}, {i}, "_all", one=True, op="!=", op_side={side!r})', 'src_now': root.src, **bad})


ARGLIKE_LAYOUTS = ['f(\n        a,\n  *b,\n  c=1)', 'f(a, *b, c=1)', 'f(\n            a,\n        k=0,\n    *b,\n  c=1,\n **d)', 'class K(\n        A,\n  *B,\n  m=M): pass', 'f(aa,\n  k=1, *b,\n j=2)',
                   'g(\n              é,\n   ü=1,\n        *ö)']


def stage_arglike_kind_change(ctx: Ctx):
    """deterministic: ONE element of Call._args / ClassDef._bases replaced through the virtual field, also by an element of the OTHER kind (positional <-> keyword: the node moves between
    the two real lists), in layouts whose columns do not grow with the source order (one per line, ragged): the tree equals the parse of its source (order of both lists), every child sits
    at the index its pfield names, and next() / prev() walk the arguments in source order"""
    import fst
    for src in ARGLIKE_LAYOUTS:
        probe = fst.FST(src, 'exec')
        holder = lambda r: r.body[0] if isinstance(r.body[0].a, ast.ClassDef) else r.body[0].value
        field = '_bases' if isinstance(probe.body[0].a, ast.ClassDef) else '_args'
        n = len(getattr(holder(probe), field))
        for i in range(n):
            for new in ('x=2', 'n', '*n', '**n', 'y=(3,\n 4)', 'ff(\n 1)'):
                for how in ('setitem', 'put'):
                    root = fst.FST(src, 'exec')
                    h = holder(root)
                    rec = {'src': src, 'field': field, 'index': i, 'new': new, 'how': how}
                    try:
                        if how == 'setitem':
                            getattr(h, field)[i] = new
                        else:
                            h.put(new, i, field)
                    except Exception as e:
                        d = reparse_diffs(root)
                        if d:
                            ctx.violation(f'raise-dirty|arglike-kind-change|{type(e).__name__}', 'a refused put left an inconsistent tree', {**rec, 'error': repr(e)[:200], 'diffs': d[:3]})
                        continue
                    ctx.tick(('arglike-kind', src, i, new, how), 'sweep:arglike-kind-change')
                    d = reparse_diffs(root)
                    if d:
                        ctx.violation('struct|arglike-kind-change', 'after replacing one call argument / class base through the virtual field the tree differs from the parse of its source', {**rec, 'result_src': root.src, 'diffs': d[:4]})
                        continue
                    bad = []
                    for f in root.walk(True):
                        if f.parent is not None:
                            pf = f.pfield
                            v = getattr(f.parent.a, pf.name, None)
                            if (v[pf.idx] if pf.idx is not None and isinstance(v, list) and pf.idx < len(v) else v) is not f.a:
                                bad.append(f'{type(f.a).__name__} {f.src[:20]!r}: pfield {pf.name}[{pf.idx}] does not hold it')
                    fresh = fst.FST(root.src, 'exec')
                    hf = holder(fresh)
                    seq = lambda hh: [c.src for c in hh.walk(True, self_=False, recurse=False)]
                    if seq(h) != seq(hf):
                        bad.append(f'children in walk order {seq(h)} != fresh tree {seq(hf)}')
                    nx = lambda hh: [c.src for c in _chain(hh)]
                    if nx(h) != nx(hf):
                        bad.append(f'next() chain {nx(h)} != fresh tree {nx(hf)}')
                    if bad:
                        ctx.violation('navigation|arglike-kind-change', 'after replacing one call argument / class base the navigation data (pfield / walk / next) disagrees with a fresh tree of the same source', {**rec, 'result_src': root.src, 'problems': bad[:4]})


def _chain(h):
    c = h.first_child()
    out = []
    while c is not None and len(out) < 50:
        out.append(c)
        c = c.next()
    return out


def stage_cache_corr(ctx: Ctx):
    """models/Cache.v vs the real loc cache on real nodes: ask / offset histories, answers must agree"""
    import fst
    rng = ctx.rng
    terms, meta = [], []
    for it in range(ctx.scale(150, 2500)):
        root = fst.FST('a = [b, c]' + ' ' * 60 + '\nd = e\n', 'exec')
        nodes = [n for n in root.walk(True) if getattr(n.a, 'end_col_offset', None) is not None]
        pos = lambda n: (n.a.lineno, n.a.col_offset, n.a.end_lineno, n.a.end_col_offset)
        init = '[' + '; '.join(f'{{| c_pos := ({cz(p[0])}, {cz(p[1])}, {cz(p[2])}, {cz(p[3])}); c_cache := None |}}' for p in map(pos, nodes)) + ']'
        ops, obs = [], []
        for _ in range(rng.randrange(1, 8)):
            if rng.random() < 0.6:
                i = rng.randrange(len(nodes))
                l = nodes[i].loc
                ops.append(f'Ask {i}')
            else:
                # a pass: offset the whole tree after a point; visited = nodes the real walk flushes
                dl, dc = rng.choice([(0, 2), (0, 1), (0, 0)]), None
                dlv, dcv = dl
                before = [dict(n._cache) for n in nodes]
                for n in nodes:
                    n._cache.setdefault('probe', 1)
                root._offset(0, 0, dlv, dcv)
                vis = ['probe' not in n._cache for n in nodes]
                for n in nodes:
                    n._cache.pop('probe', None)
                # rigid move from (1,0): every positioned node moves by (dl, dc on line 1)
                ops.append(f'Pass (fun p => let \'(l, c, el, ec) := p in (l + {dlv}, (if l =? 1 then c + {dcv} else c), el + {dlv}, (if el =? 1 then ec + {dcv} else ec))) [{"; ".join(cbool(v) for v in vis)}]')
        # final answers: loc-derived (line span, col span in BYTES via positions)
        exp = []
        for n in nodes:
            p = pos(n)
            exp.append((p[2] - p[0]) * 1000 + (p[3] - p[1]))
            # the real cached loc must be coherent with the position too
            l = n.loc
            if (l.ln + 1, l.end_ln + 1) != (p[0], p[2]):
                ctx.violation('stale-loc', 'cached loc disagrees with the node position after an offset pass', {'ops': ops})
        terms.append(f'lz_eqb (map (fun n => snd (ask ans n)) (fold_left (cstep ans) [{"; ".join(ops)}] {init})) [{"; ".join(cz(x) for x in exp)}]')
        meta.append({'ops': ops})
        ctx.tick(('cache', tuple(ops)), 'cache-history')
    failed = coq_eval_bools('C02_cache', HDR, terms, shard=300)
    ctx.correspondence('models/Cache.v == real per-node cache + _offset flush set on a real tree (ask/offset histories; final position-derived answers)', len(terms),
                       [meta[i] for i in failed])


def run(ctx: Ctx):
    ctx.rule = ('edit scripts run twice from the same seed - once with 30 random read-only queries before every edit (warm caches), once without - and after every '
                'successful edit up to 25 (quick) / 200 (thorough) nodes are compared with a fresh FST(root.src) on 37 queries (loc, bloc, pars x2, own_src, links, '
                'navigation, view lengths, docstring, 21 predicates); the two schedules must end in the identical source and tree. distinct = (script seed, step, schedule).')
    ctx.assumptions += ['a fresh FST(root.src) is the reference observer', 'node correspondence between live and fresh tree is by child path']
    ok = stage_translate(ctx)
    if ok:
        ctx.build_props()
    run_guarded(ctx, stage_cache_corr)
    progs = [p for p in corpus(ctx.rng, gen=ctx.scale(20, 150)) if len(p) < 1500]
    run_guarded(ctx, stage_oracle, progs)
    run_guarded(ctx, stage_accessor_caches, progs)
    run_guarded(ctx, stage_slice_sweep)
    run_guarded(ctx, stage_docstr_and_raw_tails)
    run_guarded(ctx, stage_expr_roots_and_compare)
    run_guarded(ctx, stage_arglike_kind_change)


def replay(path):
    d = json.load(open(path))
    print(json.dumps(d, indent=1)[:6000])
    return 0
