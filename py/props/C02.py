"""C02 - An edited tree is observationally identical to a fresh parse of its own source."""

from __future__ import annotations

import ast
import json

from lib.common import *
from lib import edits
from lib.progs import corpus
from props.C11 import stage_translate

LEVEL = 'proof'
HDR = ('From Coq Require Import List Bool Arith ZArith.\nFrom PF Require Import kernel.OffsetBase models.Cache.\nImport ListNotations.\nLocal Open Scope Z_scope.\n'
       'Definition ans (p : npos) : Z := let \'(l, c, el, ec) := p in (el - l) * 1000 + (ec - c).\n'
       'Definition mv (dl dc : Z) (p : npos) : npos := let \'(l, c, el, ec) := p in (l + dl, c + dc, el + dl, ec + dc).\n'
       'Fixpoint lz_eqb (a b : list Z) : bool := match a, b with [], [] => true | x :: a\', y :: b\' => Z.eqb x y && lz_eqb a\' b\' | _, _ => false end.\n')

PREDICATES = ['is_root', 'is_mod', 'is_stmt', 'is_expr', 'is_pattern', 'is_block', 'is_scope', 'is_funcdef', 'is_def', 'is_for', 'is_with', 'is_try',
              'is_import', 'is_stmtlike', 'is_named_scope', 'is_anon_scope', 'is_elif', 'is_except_star', 'is_parenthesized_tuple',
              'is_empty_arguments', 'is_delimited_matchseq']


def q(node, name):
    """one query -> comparable value; exceptions are values too"""
    import fst
    try:
        if name == 'loc':
            v = node.loc
            return tuple(v) if v is not None else None
        if name == 'bloc':
            v = node.bloc
            return tuple(v) if v is not None else None
        if name == 'pars':
            v = node.pars()
            return (tuple(v), getattr(v, 'n', None)) if v is not None else None
        if name == 'pars_shared_false':
            v = node.pars(shared=False)
            return (tuple(v), getattr(v, 'n', None)) if v is not None else None
        if name == 'own_src':
            return node.own_src() if node.loc is not None else None
        if name == 'pfield':
            p = node.pfield
            return (p.name, p.idx) if p is not None else None
        if name == 'parent_type':
            return type(node.parent.a).__name__ if node.parent is not None else None
        if name in ('next', 'prev', 'first_child', 'last_child', 'step_fwd', 'step_back'):
            r = getattr(node, name)(True) if name not in ('step_fwd', 'step_back') else getattr(node, name)(True)
            return node.root.child_path(r, True) if r is not None else None
        if name == 'has_docstr':
            return node.has_docstr
        if name == 'docstr':
            return node.get_docstr() if isinstance(node.a, (ast.FunctionDef, ast.AsyncFunctionDef, ast.ClassDef, ast.Module)) else None
        if name == 'viewlens':
            out = []
            for f in node.a._fields:
                v = getattr(node.a, f, None)
                if isinstance(v, list):
                    try:
                        out.append((f, len(getattr(node, f))))
                    except Exception as e:
                        out.append((f, type(e).__name__))
            return tuple(out)
        if name == 'lineno4':
            return (node.lineno, node.col_offset, node.end_lineno, node.end_col_offset)
        if name in PREDICATES:
            v = getattr(node, name)
            return v() if callable(v) else v
    except Exception as e:
        return ('EXC', type(e).__name__)
    return None


QUERIES = ['loc', 'bloc', 'pars', 'pars_shared_false', 'own_src', 'pfield', 'parent_type', 'next', 'prev', 'first_child', 'last_child', 'step_fwd',
           'has_docstr', 'docstr', 'viewlens', 'lineno4'] + PREDICATES


def nodes_by_path(root):
    out = {}
    for f in root.walk(True):
        out[repr(root.child_path(f))] = f
    return out


def compare_with_fresh(root, rng, nq):
    """returns a difference description or None"""
    import fst
    try:
        fresh = fst.FST(root.src, 'exec')
    except Exception as e:
        return {'why': 'source of the live tree does not build a fresh tree', 'error': repr(e)}
    live = nodes_by_path(root)
    new = nodes_by_path(fresh)
    if set(live) != set(new):
        return {'why': 'node paths differ between live tree and fresh tree', 'only_live': sorted(set(live) - set(new))[:3], 'only_fresh': sorted(set(new) - set(live))[:3]}
    paths = sorted(live)
    if nq and len(paths) > nq:
        paths = rng.sample(paths, nq)
    for p in paths:
        a, b = live[p], new[p]
        if type(a.a) is not type(b.a):
            return {'why': 'node type differs', 'path': p}
        for name in QUERIES:
            va, vb = q(a, name), q(b, name)
            if va != vb:
                return {'why': 'query answer differs from a fresh tree', 'path': p, 'node': type(a.a).__name__, 'query': name, 'live': repr(va)[:200], 'fresh': repr(vb)[:200]}
    if root.root is not root:
        return {'why': 'root.root is not root'}
    return None


def warm(root, rng, k):
    """populate caches: ask random queries on random nodes"""
    ns = list(root.walk(True))
    for _ in range(k):
        n = rng.choice(ns)
        q(n, rng.choice(QUERIES))


def stage_oracle(ctx: Ctx, progs):
    import fst
    import random
    rng = ctx.rng
    nseq = ctx.scale(70, 1500)
    nq = ctx.scale(25, 200)
    for si in range(nseq):
        src = rng.choice(progs)
        seed = rng.randrange(1 << 30)
        results = []
        for schedule in ('warm', 'cold'):
            r2 = random.Random(seed)        # same edit script under both schedules
            rq = random.Random(seed ^ 0x5a5a)
            root = fst.FST(src, 'exec')
            rid = id(root)
            hist = []
            bad = None
            for step in range(r2.randrange(1, ctx.scale(6, 15))):
                if schedule == 'warm':
                    warm(root, rq, 30)
                op = edits.gen_op(r2, root)
                if not op:
                    continue
                r, e = edits.apply(root, op)
                hist.append({'op': edits.op_brief(op), 'result': r})
                if r != 'ok':
                    continue
                ctx.tick((seed, step, schedule), 'edit:' + schedule)
                if id(root) != rid:
                    bad = {'why': 'root identity changed'}
                else:
                    bad = compare_with_fresh(root, rq, nq)
                if bad:
                    sig = f'query|{bad.get("query", bad["why"][:30])}|{bad.get("node", "")}|{schedule}'
                    if 'positional argument follows keyword argument' in str(bad.get('error', '')):
                        sig = 'unparsable|arglike-positional-after-keyword'
                    ctx.violation(sig,
                                  'a query on the edited tree answers differently from the same query on a tree freshly built from its source',
                                  {'start_src': src, 'schedule': schedule, 'history': hist, 'src_now': root.src, **bad})
                    break
            results.append((root.src, ast.dump(root.a, include_attributes=True)) if not bad else None)
            if bad:
                break
        if len(results) == 2 and results[0] is not None and results[1] is not None and results[0] != results[1]:
            ctx.violation('schedule-dependent', 'the result of an edit script depends on which read-only queries were made between the edits',
                          {'start_src': src, 'script_seed': seed, 'src_warm': results[0][0], 'src_cold': results[1][0]})


def stage_cache_corr(ctx: Ctx):
    """models/Cache.v vs the real loc cache on real nodes: ask / offset histories, answers must agree"""
    import fst
    rng = ctx.rng
    terms, meta = [], []
    for it in range(ctx.scale(150, 2500)):
        root = fst.FST('a = [b, c]' + ' ' * 60 + '\nd = e\n', 'exec')
        nodes = [n for n in root.walk(True) if getattr(n.a, 'end_col_offset', None) is not None]
        pos = lambda n: (n.a.lineno, n.a.col_offset, n.a.end_lineno, n.a.end_col_offset)
        init = '[' + '; '.join(f'{{| c_pos := ({cz(p[0])}, {cz(p[1])}, {cz(p[2])}, {cz(p[3])}); c_cache := None |}}' for p in map(pos, nodes)) + ']'
        ops, obs = [], []
        for _ in range(rng.randrange(1, 8)):
            if rng.random() < 0.6:
                i = rng.randrange(len(nodes))
                l = nodes[i].loc
                ops.append(f'Ask {i}')
            else:
                # a pass: offset the whole tree after a point; visited = nodes the real walk flushes
                dl, dc = rng.choice([(0, 2), (0, 1), (0, 0)]), None
                dlv, dcv = dl
                before = [dict(n._cache) for n in nodes]
                for n in nodes:
                    n._cache.setdefault('probe', 1)
                root._offset(0, 0, dlv, dcv)
                vis = ['probe' not in n._cache for n in nodes]
                for n in nodes:
                    n._cache.pop('probe', None)
                # rigid move from (1,0): every positioned node moves by (dl, dc on line 1)
                ops.append(f'Pass (fun p => let \'(l, c, el, ec) := p in (l + {dlv}, (if l =? 1 then c + {dcv} else c), el + {dlv}, (if el =? 1 then ec + {dcv} else ec))) [{"; ".join(cbool(v) for v in vis)}]')
        # final answers: loc-derived (line span, col span in BYTES via positions)
        exp = []
        for n in nodes:
            p = pos(n)
            exp.append((p[2] - p[0]) * 1000 + (p[3] - p[1]))
            # the real cached loc must be coherent with the position too
            l = n.loc
            if (l.ln + 1, l.end_ln + 1) != (p[0], p[2]):
                ctx.violation('stale-loc', 'cached loc disagrees with the node position after an offset pass', {'ops': ops})
        terms.append(f'lz_eqb (map (fun n => snd (ask ans n)) (fold_left (cstep ans) [{"; ".join(ops)}] {init})) [{"; ".join(cz(x) for x in exp)}]')
        meta.append({'ops': ops})
        ctx.tick(('cache', tuple(ops)), 'cache-history')
    failed = coq_eval_bools('C02_cache', HDR, terms, shard=300)
    ctx.correspondence('models/Cache.v == real per-node cache + _offset flush set on a real tree (ask/offset histories; final position-derived answers)', len(terms),
                       [meta[i] for i in failed])


def run(ctx: Ctx):
    ctx.rule = ('edit scripts run twice from the same seed - once with 30 random read-only queries before every edit (warm caches), once without - and after every '
                'successful edit up to 25 (quick) / 200 (thorough) nodes are compared with a fresh FST(root.src) on 37 queries (loc, bloc, pars x2, own_src, links, '
                'navigation, view lengths, docstring, 21 predicates); the two schedules must end in the identical source and tree. distinct = (script seed, step, schedule).')
    ctx.assumptions += ['a fresh FST(root.src) is the reference observer', 'node correspondence between live and fresh tree is by child path']
    ok = stage_translate(ctx)
    if ok:
        ctx.build_props()
    run_guarded(ctx, stage_cache_corr)
    progs = [p for p in corpus(ctx.rng, gen=ctx.scale(20, 150)) if len(p) < 1500]
    run_guarded(ctx, stage_oracle, progs)


def replay(path):
    d = json.load(open(path))
    print(json.dumps(d, indent=1)[:6000])
    return 0
