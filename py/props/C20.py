"""C20 - Options and edits are isolated per call, per block and per thread."""

from __future__ import annotations

import ast
import json
import queue
import re
import sys
import threading

from lib.common import *
from lib import edits
from lib.progs import corpus
from props.C11 import stage_translate

LEVEL = 'proof'
HDR = ('From Coq Require Import List String Bool Arith.\nFrom PF Require Import gen.OptionsTable models.Options models.Registry.\nImport ListNotations.\n'
       'Local Open Scope string_scope.\n'
       'Definition res_kind (r : result) : nat := match r with RNone => 0 | RErr => 1 | RVal _ => 2 | ROld _ => 3 end.\n'
       'Fixpoint wobs (w : world) (l : list (nat * op)) : list (nat * list string * option string) :=\n'
       '  match l with [] => [] | e :: r => let t := wget w (fst e) in let \'(t\', res) := step t (snd e) in\n'
       '    (res_kind res, st t\', match res with RVal v => v | _ => None end) :: wobs (wset w (fst e) t\') r end.\n'
       'Definition os_eqb (a b : option string) : bool := match a, b with None, None => true | Some x, Some y => String.eqb x y | _, _ => false end.\n'
       'Fixpoint wobs_eqb (a b : list (nat * list string * option string)) : bool :=\n'
       '  match a, b with [], [] => true | (k1, s1, v1) :: a\', (k2, s2, v2) :: b\' => Nat.eqb k1 k2 && ls_eqb s1 s2 && os_eqb v1 v2 && wobs_eqb a\' b\' | _, _ => false end.\n')

# ---- the documented option domains (written from the docstring of FST.options(), NOT from the check functions)
NORMV = ('star', 'call')
ARGS_AS = ('pos', 'arg', 'kw', 'arg_only', 'kw_only', 'pos_maybe', 'arg_maybe', 'kw_maybe', None)
RE_LEAD = re.compile(r'^(all|block|none|)([+-]\d*)?\Z')
RE_TRAIL = re.compile(r'^(all|block|none|line|)([+-]\d*)?\Z')


def isbool(v):
    return isinstance(v, bool)


def triv_elem(v, trail):
    if isinstance(v, int):
        return True
    return isinstance(v, str) and bool((RE_TRAIL if trail else RE_LEAD).match(v))


def doc_valid(name, v) -> bool:
    if name == 'raw' or name == 'pars':
        return isbool(v) or (isinstance(v, str) and v == 'auto')
    if name in ('coerce', 'elif_'):
        return isbool(v)
    if name == 'promote':
        return isbool(v) or v in ('identifier', 'all')
    if name == 'pep8space':
        return isbool(v) or (isinstance(v, int) and v == 1)
    if name == 'docstr':
        return isbool(v) or (isinstance(v, str) and v == 'strict')
    if name in ('pars_walrus', 'pars_arglike'):
        return isbool(v) or v is None
    if name == 'norm':
        return isbool(v) or (isinstance(v, str) and v in NORMV)
    if name in ('norm_self', 'norm_get'):
        return isbool(v) or v is None or (isinstance(v, str) and v in NORMV)
    if name == 'set_norm':
        return isinstance(v, str) and v in NORMV
    if name == 'op_side':
        return isinstance(v, str) and v in ('left', 'right')
    if name == 'args_as':
        return v is None or (isinstance(v, str) and v in ARGS_AS)
    if name == 'op':
        return v is None or isinstance(v, (str, list)) or v in (ast.Eq, ast.Lt) or isinstance(v, ast.cmpop)
    if name == 'trivia':
        if isinstance(v, int):
            return True
        if isinstance(v, str):
            return triv_elem(v, False)
        if isinstance(v, tuple):
            if len(v) == 0:
                return True
            if len(v) == 1:
                return triv_elem(v[0], True)
            if len(v) == 2:
                return triv_elem(v[0], False) and triv_elem(v[1], True)
        return False
    return False


VALUES = [True, False, None, 'auto', 'strict', 'star', 'call', 'left', 'right', 0, 1, 2, 'all', 'block', 'none', 'line', 'all+1', 'block-',
          'none+', '+2', 'bad', '', (), ('all',), ('line',), ('all', 'line'), ('line', 'all'), ('block+1', 'none-2'), (True, False), (1, 2, 3),
          'identifier', 'pos', 'kw_maybe', 'Auto', 'allx', ('all', 7), [1], '<', 'is not', 7, -3,
          1.0, 0.0, 2.5, ('all', 1.0), (1.0, 'line'), b'auto', ('all', None), frozenset(), 'block+1.0',
          'all\n', 'block+1\n', ('block+1\n', 'line\n'), ('all', 'line+2\n'), 'auto\n', 'strict\n', ' all', 'left\n', 'pos\n']


def rv(v) -> str:
    return repr(v)


def stage_options_corr(ctx: Ctx):
    import fst
    from fst import FST
    from fst import fst_options
    rng = ctx.rng
    names = list(fst_options._GLOBAL_OPTIONS_W_DEFAULTS)
    all_names = names + ['to', 'ins_ln', 'nope', 'Pars', '']
    ntraces = ctx.scale(120, 2500)
    terms, meta = [], []

    class Worker(threading.Thread):
        def __init__(self):
            super().__init__(daemon=True)
            self.q = queue.Queue()
            self.out = queue.Queue()
            self.cms = []

        def run(self):
            while True:
                job = self.q.get()
                if job is None:
                    return
                kind, arg = job
                try:
                    if kind == 'set':
                        FST.set_options(**arg)
                        res = (3, None)
                    elif kind == 'enter':
                        cm = FST.options(**arg)
                        cm.__enter__()
                        self.cms.append(cm)
                        res = (3, None)
                    elif kind == 'exit':
                        cm = self.cms.pop()
                        if arg:
                            try:
                                cm.__exit__(KeyError, KeyError('boom'), None)
                            except KeyError:
                                pass
                        else:
                            cm.__exit__(None, None, None)
                        res = (0, None)
                    elif kind == 'get':
                        n, co = arg
                        v = FST.get_option(n, co)
                        res = (2, v)
                except (ValueError, TypeError):   # a rejection; TypeError arises from unhashable values in membership tests
                    res = (1, None)
                except Exception as e:
                    res = ('crash', repr(e))
                self.out.put((res, dict(FST.get_options())))

    def kvs_coq(kvs):
        return '[' + '; '.join(f'{{| k_name := {cstr(n)}; k_val := {cstr_any(rv(v))}; k_valid := {cbool(doc_valid(n, v))} |}}' for n, v in kvs) + ']'

    for ti in range(ntraces):
        nthreads = rng.randrange(1, 4)
        workers = [Worker() for _ in range(nthreads)]
        for w in workers:
            w.start()
        depth = [0] * nthreads
        ops_c, obs_c, brief = [], [], []
        crash = None
        for step in range(rng.randrange(2, 22)):
            tid = rng.randrange(nthreads)
            k = rng.choice(['set', 'enter', 'enter', 'exit', 'exit', 'get', 'get'])
            if k == 'exit' and depth[tid] == 0:
                k = 'get'
            if k in ('set', 'enter'):
                nk = rng.randrange(1, 4)
                ks = rng.sample(all_names if rng.random() < 0.25 else names, nk)
                kvs = []
                for n in ks:
                    if rng.random() < 0.7 and n in names:
                        goods = [v for v in VALUES if doc_valid(n, v)]
                        v = rng.choice(goods)
                    else:
                        v = rng.choice(VALUES)
                    kvs.append((n, v))
                if any(n == '' for n, _ in kvs):
                    kvs = [(n, v) for n, v in kvs if n != ''] or [('raw', True)]
                workers[tid].q.put((k, dict(kvs)))
                ops_c.append(f'({tid}, {"OSet" if k == "set" else "OEnter"} {kvs_coq(kvs)})')
                brief.append((tid, k, [(n, rv(v)) for n, v in kvs]))
            elif k == 'exit':
                boom = rng.random() < 0.4
                workers[tid].q.put(('exit', boom))
                ops_c.append(f'({tid}, OExit)')
                brief.append((tid, 'exit', boom))
            else:
                n = rng.choice(all_names[:-1])
                co = {}
                if rng.random() < 0.4:
                    co[rng.choice(names)] = rng.choice(VALUES)
                if rng.random() < 0.3:
                    co[n] = rng.choice(VALUES)
                workers[tid].q.put(('get', (n, co)))
                ops_c.append(f'({tid}, OGet {cstr(n)} [{"; ".join("(" + cstr(a) + ", " + cstr_any(rv(b)) + ")" for a, b in co.items())}])')
                brief.append((tid, 'get', n, {a: rv(b) for a, b in co.items()}))
            (res, snap) = workers[tid].out.get(timeout=30)
            if res[0] == 'crash':
                crash = res[1]
                break
            if k == 'enter' and res[0] == 3:
                depth[tid] += 1
            if k == 'exit':
                depth[tid] -= 1
            store = '[' + '; '.join(cstr_any(rv(snap[n])) for n in names) + ']'
            val = 'None'
            if res[0] == 2:
                val = 'None' if (res[1] is None and brief[-1][2] not in names and brief[-1][2] not in brief[-1][3]) else f'(Some {cstr_any(rv(res[1]))})'
            obs_c.append(f'({res[0]}, {store}, {val})')
        # unwind open blocks so threads end clean (not part of the compared trace)
        for tid, w in enumerate(workers):
            while depth[tid] > 0:
                w.q.put(('exit', False))
                w.out.get(timeout=30)
                depth[tid] -= 1
            w.q.put(None)
        if crash:
            ctx.violation('options-crash', 'option API raised something other than ValueError', {'trace': brief, 'error': crash})
            continue
        terms.append(f'wobs_eqb (wobs [] [{"; ".join(ops_c)}]) [{"; ".join(obs_c)}]')
        meta.append({'threads': nthreads, 'trace': brief})
        ctx.tick(('opt', json.dumps(brief, default=repr)), 'options-trace')
        for b in brief:
            ctx.dist['optop:' + b[1]] = ctx.dist.get('optop:' + b[1], 0) + 1
    ctx.sample({'options_trace': meta[0]})
    failed = coq_eval_bools('C20_opt', HDR, terms, shard=60)
    mism = [meta[i] for i in failed]
    ctx.correspondence('models/Options.v == real FST.set_options/options()/get_option/get_options in 1-3 real threads stepped in lock-step '
                       '(validity bit = documented domain)', len(terms), mism)
    for m in mism[:3]:
        ctx.write_replay({'kind': 'options-correspondence', **m})


def cstr_any(s: str) -> str:
    out = []
    for ch in s:
        if ch == '"':
            out.append('""')
        elif 32 <= ord(ch) < 127:
            out.append(ch)
        else:
            out.append('?')
    return '"' + ''.join(out) + '"'


# ---- documented-domain oracle: accept/reject of every (name, value) ------------------------------------------------

def stage_domain_oracle(ctx: Ctx):
    from fst import FST
    from fst import fst_options
    names = list(fst_options._GLOBAL_OPTIONS_W_DEFAULTS)
    before = dict(FST.get_options())
    for n in names:
        for v in VALUES:
            want = doc_valid(n, v)
            try:
                old = FST.set_options(**{n: v})
                FST.set_options(**old)
                got = True
            except (ValueError, TypeError):
                got = False
            ctx.tick(('dom', n, rv(v)), 'domain')
            if dict(FST.get_options()) != before:
                ctx.violation(f'domain-leak|{n}|{rv(v)}', 'set_options / restore changed the defaults', {'name': n, 'value': rv(v)})
                FST.set_options(**before)
            if got != want:
                ctx.violation(f'domain|{n}|{rv(v)}|{"accepted" if got else "rejected"}', 'option value accepted/rejected against the documented domain',
                              {'name': n, 'value': rv(v), 'documented_valid': want, 'accepted': got})
    # rejection must be atomic: one bad entry among good ones changes nothing
    for n in names:
        good = [v for v in VALUES if doc_valid(n, v)]
        if not good:
            continue
        try:
            FST.set_options(**{n: good[-1], 'pars': 'maybe'} if n != 'pars' else {n: good[-1], 'raw': 3})
        except (ValueError, TypeError):
            pass
        if dict(FST.get_options()) != before:
            ctx.violation(f'partial-update|{n}', 'a rejected set_options call changed some option', {'name': n})
            FST.set_options(**before)


# ---- direct oracle: block restore / thread isolation on the implementation ------------------------------------------

def stage_block_oracle(ctx: Ctx):
    """Property predicate evaluated on the real API, no model: after leaving an options() block (normally or by
    exception) every option NAMED by the block has its pre-block value (compared by repr, so 1 vs True is seen) and
    every other option has the value it had just before the exit; work done in a worker thread never changes the
    defaults the main thread sees, and a new thread starts from the library defaults."""
    from fst import FST
    from fst import fst_options
    rng = ctx.rng
    names = list(fst_options._GLOBAL_OPTIONS_W_DEFAULTS)
    defaults = {k: rv(v) for k, v in fst_options._GLOBAL_OPTIONS_W_DEFAULTS.items()}

    def snap():
        return {k: rv(v) for k, v in FST.get_options().items()}

    def rand_kvs():
        ks = rng.sample(names, rng.randrange(1, 4))
        return {n: rng.choice([v for v in VALUES if doc_valid(n, v)]) for n in ks}

    def nest(depth, log):
        """returns None or a violation description"""
        kvs = rand_kvs()
        before = snap()
        boom = rng.random() < 0.35
        inner_set = None
        try:
            with FST.options(**kvs):
                log.append(('enter', {k: rv(v) for k, v in kvs.items()}))
                if rng.random() < 0.3:
                    inner_set = rand_kvs()
                    FST.set_options(**inner_set)
                    log.append(('set', {k: rv(v) for k, v in inner_set.items()}))
                if depth < 3 and rng.random() < 0.6:
                    r = nest(depth + 1, log)
                    if r:
                        return r
                if rng.random() < 0.2:
                    try:
                        FST.set_options(pars='maybe')
                    except ValueError:
                        pass
                at_exit = snap()
                if boom:
                    log.append(('raise',))
                    raise KeyError('boom')
                log.append(('exit',))
        except KeyError:
            pass
        after = snap()
        for n in names:
            want = before[n] if n in kvs else at_exit[n]
            if after[n] != want:
                return {'option': n, 'named_by_block': n in kvs, 'before_block': before[n], 'just_before_exit': at_exit[n], 'after_block': after[n],
                        'exceptional_exit': boom}
        return None

    main_before = snap()
    for it in range(ctx.scale(150, 3000)):
        in_thread = rng.random() < 0.6
        log = []
        res = {}
        if in_thread:
            def work():
                res['start'] = snap()
                res['v'] = nest(0, log)
            t = threading.Thread(target=work)
            t.start()
            t.join()
            if res['start'] != defaults:
                ctx.violation('fresh-thread-defaults', 'a new thread did not start from the library defaults', {'seen': res['start']})
        else:
            keep = FST.get_options()
            res['v'] = nest(0, log)
            FST.set_options(**keep)
        ctx.tick(('block', json.dumps(log, default=repr)), 'block-nest' + (':thread' if in_thread else ':main'))
        if res.get('v'):
            ctx.violation(f'block-restore|{res["v"]["option"]}|named={res["v"]["named_by_block"]}|exn={res["v"]["exceptional_exit"]}',
                          'options() block did not restore exactly', {'log': log, 'in_worker_thread': in_thread, **res['v']})
        if in_thread and snap() != main_before:
            now = snap()
            ctx.violation('thread-leak', "work in a worker thread changed the main thread's option defaults",
                          {'log': log, 'changed': {k: (main_before[k], now[k]) for k in names if now[k] != main_before[k]}})
            FST.set_options(**{k: v for k, v in fst_options._GLOBAL_OPTIONS_W_DEFAULTS.items()})
            main_before = snap()


# ---- threads editing different trees ---------------------------------------------------------------------------------

def script_for(seed, progs, nops):
    import random
    rng = random.Random(seed)
    return rng.choice(progs), seed


def run_script(src, seed, nops, use_block_opts):
    """deterministic edit script on its own tree with its own option settings; returns the list of (src, dump) after each op"""
    import random
    import fst
    rng = random.Random(seed)
    root = fst.FST(src, 'exec')
    out = []
    opt = {'pars': rng.choice(['auto', True]), 'trivia': rng.choice([True, False, 'all']), 'pep8space': rng.choice([True, False, 1]),
           'elif_': rng.choice([True, False]), 'norm': True}
    ctxm = fst.FST.options(**opt) if use_block_opts else None
    if ctxm:
        ctxm.__enter__()
    else:
        old = fst.FST.set_options(**opt)
    try:
        for _ in range(nops):
            op = edits.gen_op(rng, root)
            if not op:
                continue
            op['options'] = {}
            r, e = edits.apply(root, op)
            out.append((r, type(e).__name__ if e else None, root.src, ast.dump(root.a, include_attributes=True)))
    finally:
        if ctxm:
            ctxm.__exit__(None, None, None)
        else:
            fst.FST.set_options(**old)
    return out


def stage_concurrent(ctx: Ctx, progs):
    from fst import FST
    from fst.fst_core import _MODIFYING
    rng = ctx.rng
    nthreads = 8
    rounds = ctx.scale(6, 60)
    nops = ctx.scale(12, 25)
    base = dict(FST.get_options())
    for rd in range(rounds):
        scripts = [(rng.choice(progs), rng.randrange(1 << 30), rng.random() < 0.5) for _ in range(nthreads)]
        alone = [run_script(s, sd, nops, blk) for s, sd, blk in scripts]
        results = [None] * nthreads
        errs = [None] * nthreads
        old_si = sys.getswitchinterval()
        sys.setswitchinterval(1e-6)
        start = threading.Barrier(nthreads)

        def work(i):
            try:
                start.wait()
                results[i] = run_script(*scripts[i][:2], nops, scripts[i][2])
            except Exception as e:
                errs[i] = repr(e)
        ths = [threading.Thread(target=work, args=(i,)) for i in range(nthreads)]
        for t in ths:
            t.start()
        for t in ths:
            t.join()
        sys.setswitchinterval(old_si)
        for i in range(nthreads):
            ctx.tick(('conc', scripts[i][1]), 'concurrent-script')
            if errs[i] or results[i] != alone[i]:
                k = next((j for j, (x, y) in enumerate(zip(results[i] or [], alone[i])) if x != y), None)
                ctx.violation('concurrent-differs', 'a thread editing its own tree got a different result than when running alone',
                              {'script_seed': scripts[i][1], 'src': scripts[i][0], 'block_options': scripts[i][2], 'error': errs[i], 'first_differing_op': k,
                               'alone': [x[:2] for x in alone[i]], 'concurrent': [x[:2] for x in (results[i] or [])]})
        if _MODIFYING:
            ctx.violation('concurrent-lock', '_MODIFYING not empty after all threads finished', {'size': len(_MODIFYING)})
            _MODIFYING.clear()
        if dict(FST.get_options()) != base:
            ctx.violation('concurrent-leak', "main thread's option defaults changed by worker threads", {'now': {k: rv(v) for k, v in FST.get_options().items()}})
            FST.set_options(**base)


def stage_registry_commute_corr(ctx: Ctx):
    """the registry model is tied to the real class in C12; here: two real threads holding modifications of DIFFERENT trees"""
    import fst
    from fst.fst_core import _Modifying, _MODIFYING
    a = fst.FST('[a]', 'exec')
    b = fst.FST('[b]', 'exec')
    res = {}

    def hold(root, key, ev_in, ev_out):
        node = root.body[0].value.elts[0]
        with node._modifying():
            ev_in.set()
            ev_out.wait(10)
        try:
            node.replace('zz')
            res[key] = root.src
        except Exception as e:
            res[key] = repr(e)
    e1, e2, go = threading.Event(), threading.Event(), threading.Event()
    t1 = threading.Thread(target=hold, args=(a, 'a', e1, go))
    t2 = threading.Thread(target=hold, args=(b, 'b', e2, go))
    t1.start(); t2.start()
    e1.wait(10); e2.wait(10)
    n_held = len(_MODIFYING)
    go.set()
    t1.join(); t2.join()
    ctx.tick(('commute', n_held), 'registry-two-threads')
    if n_held != 2 or res.get('a') != '[zz]' or res.get('b') != '[zz]' or _MODIFYING:
        ctx.violation('registry-two-threads', 'two threads holding modifications of different trees interfered',
                      {'held': n_held, 'results': res, 'left': len(_MODIFYING)})
        _MODIFYING.clear()


ISO_PROGS = [
    'def f():\n    x = 1\n    if c:\n        \'\'\'bare\n        string\'\'\'\n        y = (a)\n    return [\n        p,  # cp\n        q,\n    ]\n',
    'class K:\n    """doc\n    more"""\n    def m(self):\n        """mdoc\n          indented"""\n        s = """assigned\n   text"""\n        # lead\n        t = (1, 2)  # trail\n\n\n    v = 3\n',
]


def stage_call_isolation(ctx: Ctx):
    """an option passed to a call affects only that call, a block's options only the block: ONE tree asked a sequence of read-only, option-sensitive queries
    (own_src / copy / get_slice / get_docstr, each with or without a per-call option, inside or outside an options() block, between set_options calls)
    answers every query as a fresh tree does under the same effective options - answers are cached per node, the cache must not carry options across calls"""
    import fst
    FST = fst.FST
    rng = ctx.rng
    opt_pool = {'docstr': [True, False, 'strict'], 'pars': [True, False, 'auto'], 'trivia': [False, True, 'all', 'block', (False, 'line'), ('all', 'block+1')],
                'pep8space': [True, False, 1], 'norm': [True, False]}

    def queries(root):
        out = []
        for f in root.walk(True):
            if isinstance(f.a, (ast.stmt, ast.expr)) and f.parent is not None:
                out.append((root.child_path(f, True), 'own_src'))
                out.append((root.child_path(f, True), 'copy'))
            for fld in ('body', 'elts'):
                v = getattr(f.a, fld, None)
                if isinstance(v, list) and len(v) > 1 and f.parent is not None:
                    out.append((root.child_path(f, True), 'slice:' + fld))
        return out

    def ask(root, path, what, kw):
        f = root.child_from_path(path)
        try:
            if what == 'own_src':
                return f.own_src(**{k: v for k, v in kw.items() if k == 'docstr'})
            if what == 'copy':
                return f.copy(**kw).src
            fld = what.split(':')[1]
            return f.get_slice(0, 2, fld, **kw).src
        except Exception as e:
            return f'!{type(e).__name__}'
    saved = FST.get_options() if hasattr(FST, 'get_options') else None
    for src in ISO_PROGS:
        qs = queries(FST(src, 'exec'))
        for rnd in range(ctx.scale(25, 300)):
            shared = FST(src, 'exec')
            hist = []
            glob = {}
            focus = rng.sample(qs, min(len(qs), rng.choice((1, 1, 2))))     # the same node is asked again and again: its cached answers meet changing options
            try:
                for step in range(rng.randrange(2, 7)):
                    path, what = rng.choice(focus)
                    call_kw = {k: rng.choice(v) for k, v in opt_pool.items() if rng.random() < 0.3}
                    block_kw = {k: rng.choice(v) for k, v in opt_pool.items() if rng.random() < 0.25}
                    if rng.random() < 0.2:
                        k = rng.choice(list(opt_pool))
                        glob[k] = rng.choice(opt_pool[k])
                        old = FST.set_options(**{k: glob[k]})
                        hist.append(['set_options', k, repr(glob[k])])
                    with FST.options(**block_kw):
                        got = ask(shared, path, what, call_kw)
                        want = ask(FST(src, 'exec'), path, what, call_kw)
                    hist.append([what, path, repr(call_kw), repr(block_kw)])
                    ctx.tick(('iso', src, tuple(map(tuple, hist))), 'isolation:' + what.split(':')[0])
                    if got != want:
                        ctx.violation(f'call-isolation|{what.split(":")[0]}', 'a query answers differently from the same query on a fresh tree under the same options: an option leaked from an earlier call or block',
                                      {'src': src, 'history': hist, 'got': got, 'fresh_tree_gives': want})
                        break
            finally:
                # restore the documented defaults changed through set_options
                FST.set_options(docstr=True, pars='auto', trivia=True, pep8space=True, norm=False)


def stage_option_values_untouched(ctx: Ctx):
    """an option VALUE passed to a call (or set for a block / globally) is the caller's object: a call that uses it gives the result a call with a
    fresh equal value gives, however many calls used the object before, and leaves the object as it was (the `op` option takes lists / AST / FST)"""
    import fst
    FST = fst.FST
    mk = {'list': lambda: ['>'], 'list2': lambda: ['>', ''], 'list-notin': lambda: ['not in'], 'list-sp': lambda: [' >= '], 'str': lambda: '>',
          'ast': lambda: ast.Gt(), 'type': lambda: ast.Gt, 'fst': lambda: FST('>', 'cmpop')}

    def show(v):
        return v.src if isinstance(v, FST) else ast.dump(v) if isinstance(v, ast.AST) else repr(v)
    edits = [('a < b', lambda f, kw: f.put_slice('x', 1, 1, **kw)), ('a < b < c', lambda f, kw: f.put_slice('x < y', 1, 1, **kw)),
             ('f(a < b, c)', lambda f, kw: f.args[0].put_slice('x', 2, 2, **kw)), ('a < b', lambda f, kw: f.put_slice('x', 0, 0, **kw)),
             ('a is b', lambda f, kw: f.put_slice('(x,\n y)', 1, 1, **kw))]
    for kind, make in mk.items():
        for side in ('left', 'right'):
            for way in ('call', 'block', 'global'):
                for src, edit in edits:
                    def once(v):
                        f = FST(src, 'expr')
                        try:
                            if way == 'call':
                                edit(f, dict(op=v, op_side=side))
                            elif way == 'block':
                                with FST.options(op=v, op_side=side):
                                    edit(f, {})
                            else:
                                old = FST.set_options(op=v, op_side=side)
                                try:
                                    edit(f, {})
                                finally:
                                    FST.set_options(**old)
                            return f.src
                        except Exception as e:
                            return f'!{type(e).__name__}'
                    want = once(make())
                    shared = make()
                    before = show(shared)
                    for n in range(3):
                        got = once(shared)
                        ctx.tick(('optval', kind, side, way, src, edits.index((src, edit)), n), 'isolation:option-value')
                        if got != want or show(shared) != before:
                            ctx.violation(f'option-value|op|{"value changed" if show(shared) != before else "result differs"}',
                                          'an edit given an option value used before does not give the result of the same edit with a fresh equal value, or changed the value: the call leaked into the caller\'s option',
                                          {'src': src, 'op': before, 'op_after': show(shared), 'op_kind': kind, 'op_side': side, 'passed_by': way, 'use': n + 1, 'got': got, 'fresh_value_gives': want})
                            break


def stage_calls_leave_defaults(ctx: Ctx):
    """no API call - successful or failing, whatever it does with options inside - leaves the thread's option defaults changed, at top level and inside
    options() blocks; and the objects passed to a call as arguments (option dicts for sub(), lists) are left as they were"""
    import fst, copy as _copy
    from fst.match import MName, MCall, M
    FST = fst.FST

    def reconcile_fail():
        f = FST('x = {a: b, c: d}\ny = call(e)\n', 'exec')
        f.mark()
        f.a.body[1].value.args[0] = ast.Name(id='z', ctx=ast.Load())
        f.a.body[0].value.keys.append(ast.Name(id='k', ctx=ast.Load()))
        f.reconcile()

    def reconcile_ok():
        f = FST('x = {a: b, c: d}\ny = call(e)\n', 'exec')
        f.mark()
        f.a.body[1].value.args[0] = ast.Name(id='z', ctx=ast.Load())
        f.a.body[0].value.keys[0] = ast.Constant(value=1)
        f.reconcile()

    def reconcile_fail_nested():
        f = FST('def f():\n    x = [a, (b := c)]\n    return {p: q}\n', 'exec')
        f.mark()
        f.a.body[0].body[0].value.elts[0] = ast.Name(id='z', ctx=ast.Load())
        f.a.body[0].body[1].value.values.append(ast.Name(id='k', ctx=ast.Load()))
        f.reconcile()
    shared_copy, shared_repl = {'pars': False}, {'pars': 'auto', 'trivia': False}
    calls = [('reconcile-fails', reconcile_fail), ('reconcile-ok', reconcile_ok), ('reconcile-fails-deeper', reconcile_fail_nested),
             ('put-unparsable', lambda: FST('x = a + b', 'exec').body[0].value.put('1 2 ?', 'left')), ('replace-wrong-kind', lambda: FST('x = a', 'exec').body[0].targets[0].replace('1 + ')),
             ('sub-bad-template', lambda: FST('x = f(a)', 'exec').sub(MCall(), 'g(__FST_')), ('sub-ok', lambda: FST('x = f(a)', 'exec').sub(MCall(func=M(fn=...)), 'g(__FST_fn)')),
             ('sub-option-dicts', lambda: FST('x = f(a)', 'exec').sub(MCall(func=M(fn=...)), 'g(__FST_fn)', copy_options=shared_copy, repl_options=shared_repl)),
             ('cut-last', lambda: FST('x = [a]', 'exec').body[0].value.elts[0].cut()), ('bad-option-per-call', lambda: FST('x = a', 'exec').body[0].copy(trivia='everything')),
             ('unknown-option-per-call', lambda: FST('x = a', 'exec').body[0].copy(no_such_option=1)), ('parse-error', lambda: FST('x = (', 'exec')),
             ('par-unpar', lambda: FST('x = (a)', 'exec').body[0].value.unpar()), ('get-slice', lambda: FST('x = [a, b, c]', 'exec').body[0].value.get_slice(1, 3)),
             ('verify-fails', lambda: (lambda f: (f.put_src('-', 0, 2, 0, 3, action=None), f.verify()))(FST('a + b', 'expr')))]
    settings = [{}, {'pars': False, 'trivia': 'all+', 'norm_get': True}, {'coerce': True, 'pars_walrus': None, 'docstr': 'strict', 'trivia': (False, 'line'), 'pep8space': 1, 'norm': True}]
    start = FST.get_options()
    try:
        for name, fn in calls:
            for si, st in enumerate(settings):
                for where in ('set_options', 'block', 'nested-blocks'):
                    FST.set_options(**start)
                    saved_args = _copy.deepcopy((shared_copy, shared_repl))
                    outcome = 'ok'
                    try:
                        if where == 'set_options':
                            FST.set_options(**st)
                            before = FST.get_options()
                            try:
                                fn()
                            except Exception as e:
                                outcome = type(e).__name__
                            after = FST.get_options()
                        else:
                            half = dict(list(st.items())[:len(st) // 2])
                            rest = {k: v for k, v in st.items() if k not in half}
                            with FST.options(**(st if where == 'block' else half)):
                                with FST.options(**({} if where == 'block' else rest)):
                                    before = FST.get_options()
                                    try:
                                        fn()
                                    except Exception as e:
                                        outcome = type(e).__name__
                                    after = FST.get_options()
                                    FST.set_options(**before)
                            if FST.get_options() != start and after == before:
                                after = ('after the blocks', FST.get_options())
                                before = ('after the blocks', start)
                    finally:
                        FST.set_options(**start)
                    ctx.tick(('calls-defaults', name, si, where), f'isolation:call-leaves-defaults:{"raises" if outcome != "ok" else "ok"}')
                    if after != before:
                        diff = {k: [repr(before[k]), repr(after[k])] for k in before if before[k] != after[k]} if isinstance(before, dict) else repr((before, after))[:300]
                        ctx.violation(f'call-leaves-defaults|{name}|{outcome}', "an API call changed the thread's option defaults", {'call': name, 'outcome': outcome, 'defaults_set_by': where, 'settings': repr(st), 'changed': diff})
                        break
                    if (shared_copy, shared_repl) != saved_args:
                        ctx.violation(f'call-argument-changed|{name}', 'an API call changed an object the caller passed as an argument', {'call': name, 'before': repr(saved_args), 'after': repr((shared_copy, shared_repl))})
                        shared_copy.clear(); shared_copy.update(saved_args[0]); shared_repl.clear(); shared_repl.update(saved_args[1])
                        break
                else:
                    continue
                break
    finally:
        FST.set_options(**start)


HIST_VALUES = [(False, True), (0, True), (True, True), (1, True), (False, False), (0, False), (True, 'line'), (1, 'line'), ('all', True), ('block', 1), (2, True), (True, 2), ('all', 0), ('all', False),
               (3, 3), (True, False), (1, 0), 0, False, 1, True, 'all', 'block', (False, 1), (False, True)]
HIST_SRC = 'x = 0\n\n# c0\n\n# c1\n# c2\na = 1  # own\n# after\n\n# later\nb = 2\n'
HIST_CHILD = r'''
import sys, json
import fst
src, values = json.loads(sys.stdin.read())
def conv(v):
    return tuple(v) if isinstance(v, list) else v
out = []
for v in values:
    v = conv(v)
    res = []
    for act in ('cut', 'copy', 'replace', 'put_slice'):
        root = fst.FST(src, 'exec')
        try:
            if act == 'cut':
                r = root.body[1].cut(trivia=v).src
            elif act == 'copy':
                r = root.body[1].copy(trivia=v).src
            elif act == 'replace':
                root.body[1].replace('z = 9', trivia=v); r = None
            else:
                root.put_slice('z = 9', 1, 2, 'body', trivia=v); r = None
            res.append([r, root.src])
        except Exception as e:
            res.append(['!' + type(e).__name__, root.src])
    out.append(res)
print(json.dumps(out))
'''


def stage_value_history(ctx: Ctx):
    """an option value passed to one call never leaks into a LATER call that passes a value which compares equal but is of another type (False == 0, True == 1: a comment mode
    vs a line number): every value of a list is used for cut / copy / replace / put_slice in one process, in several orders; each result must be what a fresh process gives
    for that value alone"""
    import subprocess

    def run_child(values):
        enc = [list(v) if isinstance(v, tuple) else v for v in values]
        p = subprocess.run([sys.executable, '-c', HIST_CHILD], input=json.dumps([HIST_SRC, enc]), capture_output=True, text=True,
                           env={**os.environ, 'PYTHONPATH': os.path.join(REPO, 'src'), 'PYTHONHASHSEED': '0'}, timeout=300)
        if p.returncode != 0:
            raise RuntimeError(p.stderr[-400:])
        return json.loads(p.stdout)

    def keyv(v):
        return repr(v)     # repr tells False from 0
    ref = {}
    try:
        for v in dict.fromkeys(keyv(v_) for v_ in HIST_VALUES):
            val = next(x for x in HIST_VALUES if keyv(x) == v)
            ref[v] = run_child([val])[0]
    except Exception as e:
        ctx.broken.append({'kind': 'harness', 'name': 'value_history', 'detail': repr(e)[:300]})
        return
    orders = [list(HIST_VALUES), list(reversed(HIST_VALUES))]
    for k in range(3):
        o = list(HIST_VALUES)
        ctx.rng.shuffle(o)
        orders.append(o)
    for order in orders:
        try:
            got = run_child(order)
        except Exception as e:
            ctx.broken.append({'kind': 'harness', 'name': 'value_history', 'detail': repr(e)[:300]})
            return
        for i, (v, res) in enumerate(zip(order, got)):
            ctx.tick(('value-history', keyv(v), i, tuple(keyv(x) for x in order[:i][-3:])), 'history:trivia-value')
            if res != ref[keyv(v)]:
                act = next(a for a, (x, y) in zip(('cut', 'copy', 'replace', 'put_slice'), zip(res, ref[keyv(v)])) if x != y)
                ctx.violation(f'value-history|trivia|{act}', 'a call with one option value gives another result after earlier calls with other (equal-comparing) values than it gives alone',
                              {'src': HIST_SRC, 'value': keyv(v), 'earlier_values': [keyv(x) for x in order[:i]][-8:], 'action': act,
                               'result_after_history': res[('cut', 'copy', 'replace', 'put_slice').index(act)], 'result_alone': ref[keyv(v)][('cut', 'copy', 'replace', 'put_slice').index(act)]})
                break


OPTIONLESS_CHILD = r'''
import sys, json
from fst import FST
OPS = [
 ("binop.left = 'x + y'", lambda: (lambda f: (setattr(f.body[0].value, 'left', 'x + y'), f.src)[1])(FST('r = a * b', 'exec'))),
 ("import names[0] = 'c as d'", lambda: (lambda f: (f.body[0].names.__setitem__(0, 'c as d'), f.src)[1])(FST('import a, b', 'exec'))),
 ("from-import names[1] = 'c'", lambda: (lambda f: (f.body[0].names.__setitem__(1, 'c'), f.src)[1])(FST('from m import a, b', 'exec'))),
 ("list elts[0] = 'p, q'", lambda: (lambda f: (f.body[0].value.elts.__setitem__(0, 'p, q'), f.src)[1])(FST('r = [a, b]', 'exec'))),
 ("call args[0] = genexp", lambda: (lambda f: (f.body[0].value.args.__setitem__(0, 'x for x in y'), f.src)[1])(FST('g(a, b)', 'exec'))),
 ("with items[0] = 'b as c'", lambda: (lambda f: (f.body[0].items.__setitem__(0, 'b as c'), f.src)[1])(FST('with a: pass', 'exec'))),
 ("assign value = lambda", lambda: (lambda f: (setattr(f.body[0], 'value', 'lambda: 0'), f.src)[1])(FST('r = a', 'exec'))),
 ("assign targets[0] = 'y.z'", lambda: (lambda f: (f.body[0].targets.__setitem__(0, 'y.z'), f.src)[1])(FST('r = a', 'exec'))),
 ("unary operand = 'b + c'", lambda: (lambda f: (setattr(f.body[0].value, 'operand', 'b + c'), f.src)[1])(FST('r = -a', 'exec'))),
 ("pow right = 'c ** d'", lambda: (lambda f: (setattr(f.body[0].value, 'right', 'c ** d'), f.src)[1])(FST('r = a ** b', 'exec'))),
 ("ifexp test = ifexp", lambda: (lambda f: (setattr(f.body[0].value, 'test', 'p if q else r'), f.src)[1])(FST('r = a if b else c', 'exec'))),
 ("pattern = 'x | y'", lambda: (lambda f: (setattr(f.body[0].cases[0], 'pattern', 'x | y'), f.src)[1])(FST('match a:\n case 1: pass', 'exec'))),
 ("body[0] = 'return (yield)'", lambda: (lambda f: (f.body[0].body.__setitem__(0, 'return (yield)'), f.src)[1])(FST('def g(): pass', 'exec'))),
 ("body append", lambda: (lambda f: (f.body[0].body.append('z = 1  # c'), f.src)[1])(FST('if a:\n    pass\n', 'exec'))),
 ("del body[0]", lambda: (lambda f: (f.body.__delitem__(0), f.src)[1])(FST('# c\na = 1  # d\n\nb = 2\n', 'exec'))),
 ("attribute value = 'a + b'", lambda: (lambda f: (setattr(f.body[0].value, 'value', 'a + b'), f.src)[1])(FST('r = x.y', 'exec'))),
 ("subscript slice = 'a, b'", lambda: (lambda f: (setattr(f.body[0].value, 'slice', 'a, *b'), f.src)[1])(FST('r = x[i]', 'exec'))),
 ("starred value = 'a or b'", lambda: (lambda f: (setattr(f.body[0].value.args[0], 'value', 'a or b'), f.src)[1])(FST('g(*s)', 'exec'))),
 ("keyword value = 'a := b'", lambda: (lambda f: (setattr(f.body[0].value.keywords[0], 'value', '(a := b)'), f.src)[1])(FST('g(k=v)', 'exec'))),
 ("dict _all[0:1] = '**d'", lambda: (lambda f: (f.body[0].value._all.__setitem__(slice(0, 1), '**d'), f.src)[1])(FST('r = {a: b, c: d}', 'exec'))),
 ("orelse = elif", lambda: (lambda f: (setattr(f.body[0], 'orelse', 'if b: pass'), f.src)[1])(FST('if a: pass\nelse: pass\n', 'exec'))),
 ("docstr", lambda: (lambda f: (f.body[0].put_docstr('doc\nmore'), f.src)[1])(FST('def g():\n    pass\n', 'exec'))),
 ("compare left = 'a if b else c'", lambda: (lambda f: (setattr(f.body[0].value, 'left', 'a if b else c'), f.src)[1])(FST('r = x < y', 'exec'))),
 ("decorator_list[0] = 'a.b(c)'", lambda: (lambda f: (f.body[0].decorator_list.__setitem__(0, 'a.b(c)'), f.src)[1])(FST('@d\ndef g(): pass\n', 'exec'))),
 ("global names[0] = 'zz'", lambda: (lambda f: (f.body[0].body[0].names.__setitem__(0, 'zz'), f.src)[1])(FST('def g():\n    global a, b\n', 'exec'))),
]
def run(order):
    out = {}
    for i in order:
        name, op = OPS[i]
        try:
            out[name] = op()
        except Exception as e:
            out[name] = '!' + type(e).__name__ + ': ' + str(e)[:80]
    return out
n = len(OPS)
passes = [run(range(n)), run(range(n)), run(reversed(range(n))), run(range(n))]
print(json.dumps(passes))
'''


def stage_optionless_history(ctx: Ctx):
    """edits made WITHOUT options (attribute / index assignment, deletion, append ...) give the same result whatever other option-less edits ran before them in the process, on any
    tree: a list of such edits over many node kinds is run four times in one fresh process (forwards, again, backwards, again); every edit must give the same source each time"""
    import subprocess
    try:
        p = subprocess.run([sys.executable, '-c', OPTIONLESS_CHILD], capture_output=True, text=True, env={**os.environ, 'PYTHONPATH': os.path.join(REPO, 'src'), 'PYTHONHASHSEED': '0'}, timeout=300)
        if p.returncode != 0:
            raise RuntimeError(p.stderr[-400:])
        passes = json.loads(p.stdout)
    except Exception as e:
        ctx.broken.append({'kind': 'harness', 'name': 'optionless_history', 'detail': repr(e)[:300]})
        return
    for name in passes[0]:
        vals = [ps[name] for ps in passes]
        ctx.tick(('optionless', name), 'history:optionless-edit')
        if len(set(vals)) != 1:
            ctx.violation('optionless-history|' + name[:40], 'an edit made without options gives another result after other option-less edits ran in the same process',
                          {'edit': name, 'first_pass': vals[0], 'second_pass': vals[1], 'reversed_pass': vals[2], 'fourth_pass': vals[3]})


def run(ctx: Ctx):
    ctx.rule = ('(1) random option traces over 1-3 real threads in generated lock-step interleavings (set_options / options() enter / exit normal or with '
                'exception / get_option with per-call dict), every option name incl. unknown and call-only names, values from a 43-value universe; model vs '
                'real after every step; (2) exhaustive (name x value) accept/reject against the documented domain + atomic rejection; (3) 8 threads with '
                'switch interval 1e-6 running deterministic edit scripts on their own trees with their own options vs the same scripts alone. '
                'distinct = trace / (name,value) / script seed.')
    ctx.assumptions += ['threading.local and dict operations are atomic under the GIL (runtime, not modelled)',
                        'validity of a value is an oracle bit of the model; the harness supplies the documented domain']
    ok = stage_translate(ctx)
    if ok:
        ctx.build_props()
    run_guarded(ctx, stage_options_corr)
    run_guarded(ctx, stage_block_oracle)
    run_guarded(ctx, stage_domain_oracle)
    run_guarded(ctx, stage_call_isolation)
    run_guarded(ctx, stage_option_values_untouched)
    run_guarded(ctx, stage_calls_leave_defaults)
    run_guarded(ctx, stage_value_history)
    run_guarded(ctx, stage_optionless_history)
    progs = [p for p in corpus(ctx.rng, gen=ctx.scale(10, 40)) if len(p) < 1500]
    run_guarded(ctx, stage_registry_commute_corr)
    run_guarded(ctx, stage_concurrent, progs)


def replay(path):
    d = json.load(open(path))
    print(json.dumps(d, indent=1)[:6000])
    return 0
