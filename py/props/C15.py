"""C15 - Walking stays sound while the tree is being modified."""

from __future__ import annotations

import ast
import json
import warnings

from lib.common import *
from lib.oracle import reparse_diffs
from lib.progs import corpus
from props.C11 import stage_translate

warnings.simplefilter('ignore', SyntaxWarning)

LEVEL = 'proof'
HDR = ('From Coq Require Import List Bool Arith.\nFrom PF Require Import models.WalkMut.\nImport ListNotations.\n'
       'Fixpoint ln_eqb (a b : list nat) : bool := match a, b with [], [] => true | x :: a\', y :: b\' => Nat.eqb x y && ln_eqb a\' b\' | _, _ => false end.\n')

EXPRS = ['nn', '7', 'ff(1)', 'p + q', '[u, v]', '(w)', 'aa.bb', 'g(h(i), [j])', 'not k', '{1: 2}']
STMTS = ['new = 1', 'call(new)', 'if new:\n    inner = 1\n    inner2 = 2', 'for i in new:\n    break', 'pass', 'x: int = new', 'del new']


def in_tree(root, f):
    if f.a is None:
        return False
    cur = f
    while cur.parent is not None:
        p = cur.parent
        try:
            if cur.pfield.get(p.a) is not cur.a:
                return False
        except Exception:
            return False
        cur = p
    return cur is root


def replacement_for(rng, f):
    a = f.a
    if isinstance(a, ast.Name) and f.parent is not None and isinstance(f.parent.a, ast.NamedExpr) and f.pfield.name == 'target':
        return rng.choice(['renamed', 'w2'])
    if isinstance(a, ast.stmt):
        return rng.choice(STMTS)
    if isinstance(a, ast.expr) and not isinstance(a, (ast.Starred, ast.Slice)) and isinstance(getattr(a, 'ctx', ast.Load()), ast.Load):
        p = f.parent
        if p is not None and isinstance(p.a, (ast.JoinedStr, ast.FormattedValue, ast.MatchValue, ast.MatchClass, ast.MatchMapping)):
            return None
        return rng.choice(EXPRS)
    return None


def relatives(rng, root, f):
    """the node itself, an ancestor, a sibling before / after"""
    out = [('self', f)]
    p = f.parent
    k = 0
    while p is not None and p is not root and k < 3:
        out.append(('ancestor', p))
        p = p.parent
        k += 1
    try:
        if (n := f.next()) is not None:
            out.append(('sibling_after', n))
        if (n := f.prev()) is not None:
            out.append(('sibling_before', n))
    except Exception:
        pass
    return out


def mutate_during(rng, root, f):
    """perform one mutation on a relative of f; returns description or None (refused / not applicable)"""
    who, tgt = rng.choice(relatives(rng, root, f))
    act = rng.choice(['replace', 'replace', 'remove'])
    try:
        if act == 'replace':
            code = replacement_for(rng, tgt)
            if code is None:
                return None
            tgt.replace(code)
            return f'{who}:replace:{code!r}'
        else:
            if not isinstance(tgt.a, (ast.stmt, ast.expr)) or tgt.pfield.idx is None:
                return None
            sibs = getattr(tgt.parent.a, tgt.pfield.name, None)
            if not isinstance(sibs, list) or len(sibs) < (3 if isinstance(tgt.parent.a, (ast.BoolOp, ast.Compare)) else 2):
                return None     # emptying a field leaves a (documented) incomplete node: not this property's concern
            tgt.remove()
            return f'{who}:remove'
    except Exception as e:
        return None


def walk_script(ctx, rng, src, kw, allow_mut=True, max_steps=400, snapshot=None):
    """drive one walk with random mutations; returns (record, violation or None)"""
    import fst
    root = fst.FST(src, 'exec')
    flt = kw.get('all', True)
    gen = root.walk(**kw)
    yielded = []
    entered = set()
    events = []
    steps = 0
    pending = None          # expectation for the next yield after a replace/remove of the current node
    try:
        g = next(gen)
        while True:
            steps += 1
            if steps > max_steps:
                return events, ('walk-does-not-end', 'the walk did not end within the step bound (finitely many mutations)', {'steps': steps})
            node, leaving = (g if isinstance(g, tuple) else (g, kw.get('on') == 'leave'))
            if node.a is None or not in_tree(root, node):
                return events, ('yield-detached', 'the walk yielded a node that is not part of the tree', {'node': repr(node), 'events': events})
            if not leaving:
                if id(node) in entered:
                    return events, ('yield-twice', 'the walk yielded the same node twice on entry', {'node': repr(node), 'events': events})
                entered.add(id(node))
            yielded.append(node)      # keep alive so ids stay unique
            if pending is not None and not leaving and kw.get('on', 'enter') == 'enter' and not kw.get('back') and not kw.get('scope') and 'all' not in kw and kw.get('recurse', True):
                kind, info = pending
                pending = None
                if kind == 'first_child_of' and info.a is not None:
                    kids = [c for c in info.walk(self_=False, recurse=False)]
                    if kids and node is not kids[0]:
                        return events, ('replaced-children-not-next', 'after replacing the current node the next node walked is not its first new child',
                                        {'replaced': repr(info), 'next': repr(node), 'expected': repr(kids[0]), 'events': events})
            pending = None
            ev = {'yield': repr(node), 'leaving': bool(leaving)}
            sent = None
            if allow_mut and not leaving and rng.random() < 0.3:
                m = mutate_during(rng, root, node)
                ev['mutation'] = m
                if m and reparse_diffs(root):
                    return events, None      # the mutation itself left an invalid tree (C01's concern): the script ends here
                if m and m.startswith('self:replace') and node.a is not None:
                    pending = ('first_child_of', node)
            if rng.random() < 0.12:
                sent = rng.choice([False, True]) if kw.get('on', 'enter') == 'enter' else False
                ev['send'] = sent
                if sent is False:
                    pending = None
            events.append(ev)
            if snapshot is not None:
                snapshot(root, node, sent)
            if sent is not None:
                _ = gen.send(sent)      # the generator acknowledges a send by yielding the same item again
            g = next(gen)
    except StopIteration:
        pass
    except Exception as e:
        return events, (f'walk-raise|{type(e).__name__}', 'the iteration raised', {'error': repr(e)[:300], 'events': events})
    d = reparse_diffs(root)
    if d:
        return events, ('final-c01', 'the tree after walking with mutations does not re-parse to itself', {'diffs': d, 'src_after': root.src, 'events': events})
    return events, None


def stage_oracle(ctx: Ctx, progs):
    rng = ctx.rng
    from props.C16 import SCOPE_PROGS
    small = [p for p in progs if len(p) < 900] + SCOPE_PROGS + ['r = [(w := i) for i in it if (z := i) > lim]\nq = {(k := v): k for v in vs}\n'] * 3
    for it in range(ctx.scale(500, 9000)):
        src = rng.choice(small)
        kw = {}
        r = rng.random()
        kw['on'] = 'enter' if r < 0.6 else 'leave' if r < 0.8 else 'both'
        if rng.random() < 0.3:
            kw['back'] = True
        if rng.random() < 0.3:
            kw['all'] = rng.choice([ast.Name, ast.expr, ast.stmt, (ast.Call, ast.Name), 'loc'])
        if rng.random() < 0.15:
            kw['self_'] = False
        if rng.random() < 0.15:
            kw['recurse'] = False
        if kw['on'] == 'enter' and rng.random() < 0.15:
            kw['scope'] = True
        events, viol = walk_script(ctx, rng, src, kw)
        nm = sum(1 for e in events if e.get('mutation'))
        ctx.tick((hash(src) & 0xffffff, json.dumps({k: repr(v) for k, v in kw.items()}, sort_keys=True), json.dumps(events)[:400]), f'walk:{kw["on"]}:' + ('mut' if nm else 'plain'))
        if viol:
            sig, what, det = viol
            first_mut = next((e['mutation'].split(':')[0] + ':' + e['mutation'].split(':')[1] for e in det.get('events', events) if e.get('mutation')), 'none')
            ctx.violation(f'{sig}|{kw["on"]}|{first_mut}', what, {'src': src, 'walk_kwargs': {k: repr(v) for k, v in kw.items()}, **det})
    # consumers built on walk: search with mutation of the found node
    import fst
    from fst.match import MName, MCall
    for it in range(ctx.scale(80, 1000)):
        src = rng.choice(small)
        root = fst.FST(src, 'exec')
        pat = rng.choice([MName(), ast.Constant, MCall()])
        seen = set()
        keep = []
        try:
            n = 0
            for m in root.search(pat):
                n += 1
                node = m.matched if hasattr(m, 'matched') else m
                f = node if isinstance(node, fst.FST) else getattr(m, 'fst', None) or node
                if n > 400:
                    ctx.violation('search-does-not-end', 'search() with mutations did not end', {'src': src})
                    break
                if id(f) in seen:
                    ctx.violation('search-twice', 'search() yielded the same node twice', {'src': src, 'node': repr(f)})
                    break
                seen.add(id(f))
                keep.append(f)      # keep the object so that its id is not reused
                if isinstance(f, fst.FST) and rng.random() < 0.4:
                    mutate_during(rng, root, f)
            ctx.tick(('search', hash(src) & 0xffffff, type(pat).__name__, it), 'search:mut')
        except Exception as e:
            ctx.violation(f'search-raise|{type(e).__name__}', 'search() raised while matched nodes were being modified', {'src': src, 'pattern': repr(pat), 'error': repr(e)[:300]})
            continue
        d = reparse_diffs(root)
        if d:
            ctx.violation('search-final-c01', 'tree after search() with mutations does not re-parse to itself', {'src': src, 'diffs': d, 'src_after': root.src})


def stage_scope_targets(ctx: Ctx):
    """scope=True walks: at the nodes the scope walk handles specially (first iterator of a comprehension, walrus targets) every
    kind of mutation, deterministically"""
    import fst
    from props.C16 import SCOPE_PROGS
    srcs = SCOPE_PROGS + ['r = [(w := i) for i in it(a) if (z := i) > lim]\nq = {(k := v): k for v in vs}\n', 'def f():\n    return [[(t := x) for x in row(r)] for row in (s := grid)]\n',
                          'g = ((u := e) for e in src() if u)\n']
    acts = ['replace_self', 'replace_parent', 'replace_stmt', 'remove_stmt', 'send_false', 'send_true']
    for src in srcs:
        probe = fst.FST(src, 'exec')
        specials = []
        for n in ast.walk(probe.a):
            if isinstance(n, (ast.ListComp, ast.SetComp, ast.DictComp, ast.GeneratorExp)):
                specials.append(('iter', probe.child_path(n.generators[0].iter.f)))
            if isinstance(n, ast.NamedExpr):
                specials.append(('walrus', probe.child_path(n.target.f)))
        for kind, path in specials:
            for act in acts:
                for kw in ({'scope': True}, {'scope': True, 'all': ast.Name}, {'scope': True, 'all': True}, {'scope': True, 'back': True}):
                    root = fst.FST(src, 'exec')
                    tgt = root.child_from_path(path)
                    seen = []
                    rec = {'src': src, 'special': kind, 'target': repr(tgt), 'action': act, 'walk_kwargs': {k: repr(v) for k, v in kw.items()}}
                    ctx.tick(('scope-target', src, kind, str(path), act, repr(kw)), 'walk:scope-special:' + kind)
                    try:
                        gen = root.walk(**kw)
                        steps = 0
                        for g in gen:
                            steps += 1
                            if steps > 500:
                                ctx.violation(f'walk-does-not-end|scope|{kind}|{act}', 'the walk did not end', rec)
                                break
                            if g is None or g.a is None or not in_tree(root, g):
                                ctx.violation(f'yield-detached|scope|{kind}|{act}', 'the scope walk yielded something that is not a node of the tree', {**rec, 'yielded': repr(g)})
                                break
                            if any(g is x for x in seen):
                                ctx.violation(f'yield-twice|scope|{kind}|{act}', 'the scope walk yielded the same node twice', {**rec, 'yielded': repr(g)})
                                break
                            seen.append(g)
                            if g is tgt:
                                try:
                                    if act == 'replace_self':
                                        g.replace('renamed' if kind == 'walrus' else 'other(src2)')
                                    elif act == 'replace_parent':
                                        g.parent.replace('pp' if isinstance(g.parent.a, ast.expr) and not isinstance(g.parent.a, ast.Starred) else g.parent.src)
                                    elif act == 'replace_stmt':
                                        g.parent_stmt().replace('new = 1')
                                    elif act == 'remove_stmt':
                                        st = g.parent_stmt()
                                        if len(getattr(st.parent.a, st.pfield.name)) > 1:
                                            st.remove()
                                    elif act == 'send_false':
                                        gen.send(False)
                                    elif act == 'send_true':
                                        gen.send(True)
                                except (ValueError, fst.NodeError, SyntaxError):
                                    pass
                    except Exception as e:
                        ctx.violation(f'walk-raise|{type(e).__name__}|scope|{kind}|{act}', 'the scope walk raised while a specially handled node was modified', {**rec, 'error': repr(e)[:300]})
                        continue
                    d = reparse_diffs(root)
                    if d:
                        ctx.violation(f'final-c01|scope|{kind}|{act}', 'tree after the scope walk with mutations does not re-parse to itself', {**rec, 'diffs': d, 'after': root.src})


# ---- correspondence: the on='enter' loop vs models/WalkMut.v on the observed heaps ------------------------------------
class HeapLog:
    def __init__(self):
        self.ids = {}        # id(ast obj) -> nat
        self.keep = []
        self.parent = {}
        self.handle = {}
        self.hids = {}       # id(fst obj) -> nat
        self.hobjs = {}      # handle nat -> FST object

    def hid(self, f):
        k = self.hids.get(id(f))
        if k is None:
            k = self.hids[id(f)] = len(self.hids)
            self.keep.append(f)
            self.hobjs[k] = f
        return k

    def visit(self, a, parent_id):
        k = self.ids.get(id(a))
        if k is None:
            k = self.ids[id(a)] = len(self.ids)
            self.keep.append(a)
            self.parent[k] = parent_id
            self.handle[k] = self.hid(a.f) if getattr(a, 'f', None) is not None else len(self.hids) + 10000 + k
        return k

    def snapshot(self, root):
        from fst.astutil import syntax_ordered_children
        kids = {}
        stack = [(root.a, None)]
        objs = {}
        while stack:
            a, pid = stack.pop()
            k = self.visit(a, pid)
            objs[k] = a
            ch = [c for c in syntax_ordered_children(a) if c is not None]
            kids[k] = [self.visit(c, k) for c in ch]
            for c in ch:
                stack.append((c, k))
        # detached objects seen earlier keep their last known children (irrelevant: they are not alive)
        alive = [k for k, a in ((k, o) for k, o in ((self.ids[id(o)], o) for o in self.keep if isinstance(o, ast.AST))) if getattr(a, 'f', None) is not None]
        cur = {}
        for hk, f in self.hobjs.items():
            cur[hk] = self.ids.get(id(f.a)) if f.a is not None else None
        n = len(self.ids)
        k_tbl = '; '.join(f'({k}, [{"; ".join(map(str, v))}])' for k, v in sorted(kids.items()) if v)
        p_tbl = '; '.join(f'({k}, {"Some " + str(v) if v is not None else "None"})' for k, v in sorted(self.parent.items()))
        h_tbl = '; '.join(f'({k}, {v})' for k, v in sorted(self.handle.items()))
        c_tbl = '; '.join(f'({k}, {"Some " + str(v) if v is not None else "None"})' for k, v in sorted(cur.items()))
        from fst.fst_traverse import _all_param_func
        chk = _all_param_func(False)
        flt = [k for k in sorted(alive) if not chk(objs_all[k].f)] if (objs_all := {self.ids[id(o)]: o for o in self.keep if isinstance(o, ast.AST)}) else []
        return f'(mkheap {n} [{k_tbl}] [{p_tbl}] [{h_tbl}] [{"; ".join(map(str, sorted(alive)))}] [{c_tbl}] [{"; ".join(map(str, flt))}])'


def stage_corr(ctx: Ctx, progs):
    import fst
    rng = ctx.rng
    tiny = [p for p in progs if len(p) < 260] + ['x = [a, [b, c], d]\ny = f(g(1), h)\n', 'if a:\n    b = 1\n    c = 2\nelse:\n    d = 3\n', 'r = (p + q) * [s, t][0]\n']
    terms, meta = [], []
    tries = 0
    while len(terms) < ctx.scale(60, 600) and tries < ctx.scale(400, 5000):
        tries += 1
        src = rng.choice(tiny)
        log = HeapLog()
        heaps = []
        real_out = []

        def snap(root, node, sent):
            real_out.append(log.hid(node))
            heaps.append((log.snapshot(root), sent is not False))

        root0 = None
        import fst as _f
        # first snapshot must be taken before the walk starts: build the tree here and walk it
        rootbox = {}

        def run_one():
            root = _f.FST(src, 'exec')
            rootbox['root'] = root
            rootbox['h0'] = log.snapshot(root)
            gen = root.walk(self_=False)
            evs = []
            steps = 0
            try:
                g = next(gen)
                while True:
                    steps += 1
                    if steps > 150:
                        return None
                    sent = None
                    m = None
                    if rng.random() < 0.35:
                        m = mutate_during(rng, root, g)
                    if rng.random() < 0.1:
                        sent = False
                    real_out.append(log.hid(g))
                    heaps.append((log.snapshot(root), sent is not False))
                    evs.append({'yield': repr(g), 'mutation': m, 'send': sent})
                    if sent is not None:
                        _ = gen.send(sent)
                    g = next(gen)
            except StopIteration:
                return evs
            except Exception:
                return None

        evs = run_one()
        if evs is None or len(log.ids) > 70 or len(heaps) > 45:
            continue
        advs = '[' + '; '.join(f'({h}, {cbool(d)})' for h, d in heaps) + ']'
        h0 = rootbox['h0']
        ctx.tick(('corr', src, json.dumps(evs)[:300]), 'corr:' + ('mut' if any(e['mutation'] for e in evs) else 'plain'))
        terms.append(f'let h0 := {h0} in let advs := {advs} in wf_check h0 && chain_check h0 advs && '
                     f'ln_eqb (rev (out (snd (run {len(log.ids) * 3 + 20} h0 advs (start h0 0))))) [{"; ".join(map(str, real_out))}]')
        meta.append({'src': src, 'events': evs, 'real_yield_handles': real_out, 'h0': h0, 'advs': advs, 'fuel': len(log.ids) * 3 + 20})
    failed = coq_eval_bools('C15_walk', HDR, terms, shard=12)
    ctx.correspondence('models/WalkMut.v run (on=enter) on the observed heaps == handles yielded by the real walk(); WF and legal hold of every observed heap', len(terms),
                       [meta[i] for i in failed])


LHDR = ('From Coq Require Import List Bool Arith.\nFrom PF Require Import models.WalkLeave.\nImport ListNotations.\n'
        'Fixpoint nl_eqb (a b : list nat) : bool := match a, b with [], [] => true | x :: a\', y :: b\' => Nat.eqb x y && nl_eqb a\' b\' | _, _ => false end.\n'
        'Fixpoint pl_eqb (a b : list (nat * bool)) : bool := match a, b with [], [] => true | (x, p) :: a\', (y, q) :: b\' => Nat.eqb x y && Bool.eqb p q && pl_eqb a\' b\' | _, _ => false end.\n')


def stage_leave_corr(ctx: Ctx, progs):
    """models/WalkLeave.v lrun / brun == the real walk(True, on='leave' / 'both') of unmodified trees under random send() decisions"""
    import fst
    rng = ctx.rng
    small = [p for p in progs if len(p) < 400] + RESEND_PROGS
    terms, meta = [], []
    for it in range(ctx.scale(120, 1200)):
        src = rng.choice(small)
        root = fst.FST(src, 'exec')
        nodes = list(root.walk(True))
        if len(nodes) > 120:
            continue
        W = rng.choice([root] + [f for f in nodes if list(f.walk(True, self_=False, recurse=False))][:40])
        sub = list(W.walk(True))
        ids = {id(f): i for i, f in enumerate(sub)}

        def enc(f):
            return f'(Node {ids[id(f)]} [' + '; '.join(enc(c) for c in f.walk(True, self_=False, recurse=False)) + '])'
        on = rng.choice(['leave', 'both'])
        back = False
        budget = 3          # re-walks requested
        gen = W.walk(True, on)
        out, ds = [], []
        try:
            for g in gen:
                n, leaving = g if isinstance(g, tuple) else (g, True)
                out.append((ids[id(n)], leaving))
                r = rng.random()
                d = None
                if r < 0.08 and budget and leaving:
                    d = True
                    budget -= 1
                elif r < 0.2 and not (on == 'both' and n is W and not leaving):
                    d = False       # (send(False) at the ENTRY of the walk root ends an on='both' walk without the leaving yield an inner node still gets: modelled for inner nodes only)
                elif r < 0.25 and not leaving:
                    d = True
                ds.append(d)
                if d is not None:
                    gen.send(d)
                if len(out) > 1500:
                    raise RuntimeError('does not end')
        except Exception as e:
            ctx.violation(f'leave-corr-raise|{on}|{type(e).__name__}', 'the iteration raised', {'src': src, 'on': on, 'decisions': ds, 'error': repr(e)[:200]})
            continue
        dsl = '[' + '; '.join('None' if d is None else f'Some {cbool(d)}' for d in ds) + ']'
        if on == 'leave':
            exp = '[' + '; '.join(str(i) for i, _ in out) + ']'
            t = f'match lrun 4000 [E {enc(W)}] {dsl} [] with Some (o, _) => nl_eqb o {exp} | None => false end'
        else:
            exp = '[' + '; '.join(f'({i}, {cbool(l)})' for i, l in out) + ']'
            t = f'match brun 4000 [E {enc(W)}] {dsl} [] with Some (o, _) => pl_eqb o {exp} | None => false end'
        ctx.tick(('leave-corr', src, ids and W.src[:40], on, tuple(ds)), f'leave-corr:{on}:' + ('send-true' if True in ds else 'quiet'))
        terms.append(t)
        meta.append({'src': src, 'walk_root': type(W.a).__name__, 'on': on, 'decisions': ds, 'real_yields': out})
    # recurse=False, on='both': models/WalkShallow.v. send(True) at entry yields of the root's children and (rarely) at leaving yields; send(False) only at entry yields of
    # nodes below the children (at the entry of a node that is the root of a delegated full walk it ends that walk without the leaving yield, as for any walk root)
    sterms, smeta = [], []
    for it in range(ctx.scale(80, 800)):
        src = rng.choice(small)
        root = fst.FST(src, 'exec')
        nodes = list(root.walk(True))
        if len(nodes) > 120:
            continue
        W = rng.choice([root] + [f for f in nodes if list(f.walk(True, self_=False, recurse=False))][:40])
        sub = list(W.walk(True))
        ids = {id(f): i for i, f in enumerate(sub)}
        kids_ = {id(c) for c in W.walk(True, self_=False, recurse=False)}

        def enc(f):
            return f'(Node {ids[id(f)]} [' + '; '.join(enc(c) for c in f.walk(True, self_=False, recurse=False)) + '])'
        gen = W.walk(True, 'both', recurse=False)
        out, ds = [], []
        budget = 2
        rewalked = set()
        try:
            for g in gen:
                n, leaving = g
                out.append((ids[id(n)], leaving))
                if n is W and not leaving and len(out) == 1:
                    continue            # the root's own entry yield: nothing sent, not a decision of the model
                r = rng.random()
                d = None
                if not leaving and id(n) in kids_ and id(n) not in rewalked and r < 0.45:
                    d = True
                elif leaving and budget and r < 0.06 and n is not W:
                    d = True
                    budget -= 1
                    rewalked.add(id(n))
                elif not leaving and id(n) not in kids_ and id(n) not in rewalked and n is not W and r < 0.15:
                    d = False
                ds.append(d)
                if d is not None:
                    gen.send(d)
                if len(out) > 1500:
                    raise RuntimeError('does not end')
        except Exception as e:
            ctx.violation(f'shallow-corr-raise|{type(e).__name__}', 'the iteration raised', {'src': src, 'decisions': ds, 'error': repr(e)[:200]})
            continue
        dsl = '[' + '; '.join('None' if d is None else f'Some {cbool(d)}' for d in ds) + ']'
        exp = '[' + '; '.join(f'({i}, {cbool(l)})' for i, l in out) + ']'
        sterms.append(f'match shallow 4000 {enc(W)} {dsl} with Some (o, _) => pl_eqb o {exp} | None => false end')
        smeta.append({'src': src, 'walk_root': type(W.a).__name__, 'recurse': False, 'decisions': ds, 'real_yields': out})
        ctx.tick(('shallow-corr', src, W.src[:40], tuple(ds)), 'leave-corr:both:recurse=False:' + ('send-true' if True in ds else 'quiet'))
    sfailed = coq_eval_bools('C15_shallow', LHDR.replace('models.WalkLeave.', 'models.WalkLeave models.WalkShallow.'), sterms, shard=40)
    ctx.correspondence("models/WalkShallow.v shallow == nodes yielded by the real walk(True, on='both', recurse=False) under the same send() decisions (send(True) at entry yields of the root's children and at leaving yields, send(False) below)",
                       len(sterms), [smeta[i] for i in sfailed])
    failed = coq_eval_bools('C15_leave', LHDR, terms, shard=40)
    ctx.correspondence("models/WalkLeave.v lrun / brun == nodes yielded by the real walk(True, on='leave' / on='both') under the same send() decisions (unmodified trees, any walk root with children)",
                       len(terms), [meta[i] for i in failed])


def stage_search_send(ctx: Ctx):
    """search() (the consumer sub() is built on) honours send(): at the entry yield of a match the caller's send(True / False) decides whether the search goes on inside the
    match, otherwise `nested` does; every combination of decisions at the first four yields, on='enter' and on='both', nested on and off, vs a reference recursion"""
    import fst, itertools
    from fst.match import MCall, MList
    progs = ['x = f(g(h(a)), [f(b), c])\ny = [[1, [2]], f([3])]\n', 'r = f(f(f(x)))\n', 'r = [f([g([h])])]\n']
    for src in progs:
        for pname, mk in (('Call', lambda: MCall()), ('List', lambda: MList()), ('expr', lambda: ast.expr)):
            for on in ('enter', 'both'):
                for nested in (True, False):
                    for decisions in itertools.product((None, True, False), repeat=4):
                        root = fst.FST(src, 'exec')
                        pat = mk()
                        # reference
                        want, k = [], [0]

                        def visit(n):
                            m = n.match(pat) is not None and n is not root
                            rec = True
                            if m:
                                d = decisions[k[0]] if k[0] < len(decisions) else None
                                k[0] += 1
                                want.append((id(n), False) if on == 'both' else id(n))
                                rec = nested if d is None else d
                            if rec:
                                for c in n.walk(self_=False, recurse=False):
                                    visit(c)
                            if m and on == 'both':
                                k[0] += 1
                                want.append((id(n), True))
                        visit(root)
                        got, j = [], 0
                        try:
                            gen = root.search(mk(), nested, on=on)
                            for g in gen:
                                mm, leaving = g if isinstance(g, tuple) else (g, None)
                                got.append((id(mm.matched), leaving) if on == 'both' else id(mm.matched))
                                d = decisions[j] if j < len(decisions) else None
                                j += 1
                                if d is not None and not leaving:
                                    gen.send(d)
                                if len(got) > 200:
                                    raise RuntimeError('does not end')
                        except Exception as e:
                            ctx.violation(f'search-send-raise|{type(e).__name__}', 'search() raised', {'src': src, 'pattern': pname, 'on': on, 'nested': nested, 'decisions': list(decisions), 'error': repr(e)[:200]})
                            continue
                        ctx.tick(('search-send', src, pname, on, nested, decisions), f'search-send:{on}:' + ('nested' if nested else 'flat'))
                        # decisions at leaving yields are not sent (k and j count them alike)
                        if got != want:
                            names = {id(f): f.src for f in root.walk(True) if f.loc}
                            show = lambda seq: [(names.get(x[0]), x[1]) if isinstance(x, tuple) else names.get(x) for x in seq]
                            ctx.violation(f'search-send|{on}|{"nested" if nested else "flat"}', "search() does not honour the caller's send() at the entry yield of a match (or its `nested` default)",
                                          {'src': src, 'pattern': pname, 'on': on, 'nested': nested, 'decisions_at_yields': list(decisions), 'search_yields': show(got), 'expected': show(want)})
                            break


def stage_slice_removals(ctx: Ctx):
    """deterministic: while a walk is at the first element of a sequence (the last for back=True), every other element is removed with a SLICE operation on the parent
    (`del view[i]`, `put_slice(None, i, i + 1, field)`), also through the virtual fields that merge several AST lists / single nodes (arguments._all, Call._args,
    ClassDef._bases, Dict._all, MatchMapping._all): the walk never yields a removed node (nor anything below it), does not raise, and the tree re-parses to itself"""
    import fst
    hosts = [('def f(a, b=1, *args: T, c=2, **kw: U) -> R: pass\n', 'm.body[0].args', '_all', 5), ('def f(a, /, b: X = 1, *, c: Y, d=(2, 3)): pass\n', 'm.body[0].args', '_all', 4),
             ('r = g(a, *b, k=(1, 2), **c)\n', 'm.body[0].value', '_args', 4), ('class K(A, *b, m=M[0], **c): pass\n', 'm.body[0]', '_bases', 4),
             ('r = {a: (1, 2), **b, c: [d]}\n', 'm.body[0].value', '_all', 3), ('match v:\n    case {1: [p], 2: q, **rest}: pass\n', 'm.body[0].cases[0].pattern', '_all', 3),
             ('r = [a, (b, c), d.e]\n', 'm.body[0].value', 'elts', 3), ('with a as b, c(d), e: pass\n', 'm.body[0]', 'items', 3), ('import a, b.c as d, e\n', 'm.body[0]', 'names', 3),
             ('r = f(a)(b, c=(d))\n', 'm.body[0].value', 'keywords', 1), ('lambda a, *b, c=(1, 2), **d: 0\n', 'm.body[0].value.args', '_all', 4)]
    for src, path, field, n in hosts:
        for on in ('enter', 'leave', 'both'):
            for back in (False, True):
                for victim in range(n):
                    for how in ('del-view', 'put_slice-none'):      # (not cut: walk() documents that cut nodes may still be walked)
                        m = fst.FST(src, 'exec')
                        host = eval(path, {'m': m})
                        # the walk position at which to act: the first node yielded that lies inside the host (for 'leave' this is a leaf of the first element)
                        acted = False
                        removed_ids = None
                        rec = {'src': src, 'host': path, 'field': field, 'remove_index': victim, 'how': how, 'walk': {'on': on, 'back': back}}
                        bad = None
                        try:
                            steps = 0
                            for g in m.walk(True, on, back=back):
                                steps += 1
                                if steps > 300:
                                    raise RuntimeError('walk does not end')
                                node, leaving = g if isinstance(g, tuple) else (g, on == 'leave')
                                if acted and (node.a is None or not in_tree(m, node)):
                                    bad = ('yield-detached', repr(node))
                                    break
                                if not acted and node is not host and any(p is host for p in node.parents()):
                                    view = getattr(host, field)
                                    if victim >= len(view):
                                        break
                                    # do not remove what we are standing in (that is the other half of the property): skip if the current node lies inside the victim
                                    before_nodes = {id(f) for f in m.walk(True)}
                                    try:
                                        if how == 'del-view':
                                            del view[victim]
                                        elif how == 'put_slice-none':
                                            host.put_slice(None, victim, victim + 1, field)
                                        else:
                                            host.get_slice(victim, victim + 1, field, cut=True)
                                    except Exception:
                                        ctx.dist['slice-removal:refused'] = ctx.dist.get('slice-removal:refused', 0) + 1
                                        break
                                    acted = True
                                    if reparse_diffs(m):
                                        break       # the removal itself left an invalid tree (C01 / C03)
                        except Exception as e:
                            bad = (f'walk-raise|{type(e).__name__}', repr(e)[:200])
                        if not acted:
                            continue
                        ctx.tick(('slice-removal', src, field, victim, how, on, back), 'slice-removal:' + on)
                        if bad:
                            ctx.violation(f'{bad[0]}|slice-removal|{field}', 'after a slice removal of a sibling during the walk the iteration raised or yielded a node that is no longer part of the tree',
                                          {**rec, 'detail': bad[1], 'src_now': m.src})


def stage_optional_removals(ctx: Ctx):
    """deterministic: while a walk stands at a node, an OPTIONAL single-node child of one of its ancestors (slice bounds, `as` target, raise cause, assert message, annotated
    value, return annotation, case guard, return / yield value ...) that has not been walked yet - or that the walk is inside of - is removed: the walk never yields the
    removed node or anything below it, does not raise, and the tree re-parses to itself; every on / back setting"""
    import fst
    hosts = [('x = a[b:c:d]\n', 'm.body[0].value.slice', ('lower', 'upper', 'step')), ('with a as (b, c), d as e: pass\n', 'm.body[0].items[0]', ('optional_vars',)),
             ('raise a(b) from c(d)\n', 'm.body[0]', ('cause',)), ('assert a(b), c(d)\n', 'm.body[0]', ('msg',)), ('x: int(a) = v(w)\n', 'm.body[0]', ('value',)),
             ('def f(a) -> r(s): pass\n', 'm.body[0]', ('returns',)), ('match v:\n    case 1 if g(h): pass\n', 'm.body[0].cases[0]', ('guard',)),
             ('def f():\n    return u(v) + w\n', 'm.body[0].body[0]', ('value',)), ('def f():\n    x = yield y(z)\n', 'm.body[0].body[0].value', ('value',)),
             ('def f(a: A(B) = d(e), *b: C(D), **c: E(F)): pass\n', 'm.body[0].args.args[0]', ('annotation',)), ('def f(a, *b: C(D), **c: E(F)): pass\n', 'm.body[0].args.vararg', ('annotation',)),
             ('x = {a(b): c, **d(e)}\n' if False else 'try: pass\nexcept E(F) as g: pass\n', 'm.body[0].handlers[0]', ('type',)), ('type T[U: B(C)] = V\n', 'm.body[0].type_params[0]', ('bound',)),
             ('x = f"{a!r:>{w(v)}}"\n', 'm.body[0].value.values[0]', ('format_spec',)), ('x = lambda: (yield)\ny = [i async for i in j(k)]\n' if False else 'x = a if b(c) else d\nfor i in j(k): pass\nelse: pass\n', 'm.body[0]', ('value',))]
    for src, path, fields in hosts:
        for field in fields:
            for on in ('enter', 'leave', 'both'):
                for back in (False, True):
                    for where in ('before', 'inside'):
                        for how in ('remove', 'put-none'):
                            m = fst.FST(src, 'exec')
                            host = eval(path, {'m': m})
                            T = getattr(host, field, None)
                            if not isinstance(T, fst.FST):
                                continue
                            t_ids = {id(f) for f in T.walk(True)}
                            seen_t = False
                            acted = False
                            bad = None
                            rec = {'src': src, 'host': path, 'field': field, 'act_when': where, 'how': how, 'walk': {'on': on, 'back': back}}
                            try:
                                steps = 0
                                for g in m.walk(True, on, back=back):
                                    steps += 1
                                    if steps > 300:
                                        raise RuntimeError('walk does not end')
                                    node, leaving = g if isinstance(g, tuple) else (g, on == 'leave')
                                    if acted and (node.a is None or not in_tree(m, node) or id(node) in t_ids):
                                        bad = ('yield-detached', repr(node))
                                        break
                                    in_t = id(node) in t_ids
                                    seen_t = seen_t or in_t
                                    in_host = node is host or any(p is host for p in node.parents())
                                    if not acted and ((where == 'before' and not seen_t and in_host and not in_t) or (where == 'inside' and in_t and node is not T)):
                                        try:
                                            if how == 'remove':
                                                T.remove()
                                            else:
                                                host.put(None, field)
                                        except Exception:
                                            ctx.dist['optional-removal:refused'] = ctx.dist.get('optional-removal:refused', 0) + 1
                                            break
                                        acted = True
                                        if reparse_diffs(m):
                                            break       # the removal itself left an invalid tree (C01 / C03)
                            except Exception as e:
                                bad = (f'walk-raise|{type(e).__name__}', repr(e)[:200])
                            if not acted:
                                continue
                            ctx.tick(('optional-removal', src, field, where, how, on, back), 'optional-removal:' + on + ':' + where)
                            if bad:
                                ctx.violation(f'{bad[0]}|optional-removal|{type(host.a).__name__ if host.a is not None else "?"}.{field}',
                                              'after an optional child was removed during the walk the iteration raised or yielded a node that is no longer part of the tree',
                                              {**rec, 'detail': bad[1], 'src_now': m.src})


def stage_walk_root_removed(ctx: Ctx):
    """deterministic: a walk started on an INNER node; while it stands at a descendant, the walk root itself or one of its ancestors is removed or replaced: nothing that is no
    longer part of the tree is yielded afterwards (the walk root on leaving included), nothing raises; every on / back setting"""
    import fst
    progs = ['if c:\n    x = [a, f(b), d]\n    y = 1\nz = 2\n', 'def f():\n    return g(h(i), j)\nk = 0\n', 'r = [p, (q, s(t)), u]\nv = 1\n', 'with a:\n    for i in j:\n        b(i)\n    c\nd\n']
    for src in progs:
        probe = fst.FST(src, 'exec')
        wpaths = [probe.child_path(f, True) for f in probe.walk(True) if f.parent is not None and f.parent.parent is not None and list(f.walk(True, self_=False))
                  and isinstance(f.a, (ast.stmt, ast.expr)) and not isinstance(f.a, ast.expr_context)]
        for wp in wpaths:
            for on in ('enter', 'leave', 'both'):
                for back in (False, True):
                    for victim in ('root', 'parent', 'grandparent'):
                        for how in ('remove', 'replace'):
                            m = fst.FST(src, 'exec')
                            W = m.child_from_path(wp)
                            V = W if victim == 'root' else W.parent if victim == 'parent' else W.parent.parent
                            if V is None or V.parent is None:
                                continue
                            acted, bad = False, None
                            rec = {'src': src, 'walk_root': wp, 'walk': {'on': on, 'back': back}, 'victim': victim, 'how': how}
                            try:
                                steps = 0
                                for g in W.walk(True, on, back=back):
                                    steps += 1
                                    if steps > 300:
                                        raise RuntimeError('walk does not end')
                                    node, leaving = g if isinstance(g, tuple) else (g, on == 'leave')
                                    if acted and (node.a is None or not in_tree(m, node)):
                                        bad = ('yield-detached', repr(node) + (' (the walk root)' if node is W else ''))
                                        break
                                    if not acted and node is not W:
                                        try:
                                            if how == 'remove':
                                                V.remove()
                                            else:
                                                V.replace('zz' if isinstance(V.a, ast.expr) else 'zz = 0')
                                        except Exception:
                                            ctx.dist['root-removed:refused'] = ctx.dist.get('root-removed:refused', 0) + 1
                                            break
                                        acted = True
                            except Exception as e:
                                bad = (f'walk-raise|{type(e).__name__}', repr(e)[:200])
                            if not acted:
                                continue
                            ctx.tick(('root-removed', src, wp, on, back, victim, how), f'root-removed:{on}:{victim}:{how}')
                            if bad:
                                ctx.violation(f'{bad[0]}|walk-root-{how}d|{on}', 'after the walk root (or an ancestor of it) was removed / replaced the iteration raised or yielded a node that is no longer part of the tree',
                                              {**rec, 'detail': bad[1], 'src_now': m.src})


RESEND_PROGS = ['r = [a, [b, c], d]\n', 'x = f(a, g(b, k=c), d)\ny = 1\n', 'if a:\n    b = (c, {d: e})\nelse:\n    z = -w\n', 'v = [i for i in (j, k) if l]\n']


def stage_resend(ctx: Ctx):
    """send(True) when a node is LEFT (on='leave' / on='both'): its children - the NEW children if it was replaced at that yield - are walked again and the
    node is yielded again after them, then the walk goes on as it would have; for every expression of a set of programs, the walk root included
    (tree root and inner node), forwards and backwards, with and without recurse"""
    import fst

    def key(g):
        n, l = g if isinstance(g, tuple) else (g, None)
        return (id(n), l)

    def label(g):
        n, l = g if isinstance(g, tuple) else (g, None)
        return [type(n.a).__name__ if n.a is not None else None, n.src if n.a is not None and n.loc else None, l]
    for src in RESEND_PROGS:
        probe = fst.FST(src, 'exec')
        tpaths = [probe.child_path(f, True) for f in probe.walk() if isinstance(f.a, ast.expr) and isinstance(getattr(f.a, 'ctx', ast.Load()), ast.Load)
                  and not isinstance(f.parent.a, (ast.JoinedStr, ast.FormattedValue)) and not isinstance(f.a, (ast.Starred, ast.Slice))]
        for tp in tpaths:
            for wroot in ('tree', 'parent', 'self'):
                for on in ('leave', 'both'):
                    for back in (False, True):
                        for recurse in (True, False):
                            for action in ('none', 'replace'):
                                root = fst.FST(src, 'exec')
                                T = root.child_from_path(tp)
                                W = root if wroot == 'tree' else T if wroot == 'self' else T.parent
                                if recurse is False and not (W is T or T.parent is W):
                                    continue
                                if W is T and not list(T.walk(self_=False)):
                                    continue        # a walk root without children is not yielded again (an inner leaf is): not claimed either way
                                kw = dict(on=on, back=back, recurse=recurse)
                                # the undisturbed walk of the same tree with the same replacement made beforehand: what must follow the re-walk
                                ref_root = fst.FST(src, 'exec')
                                RT = ref_root.child_from_path(tp)
                                RW = ref_root if wroot == 'tree' else RT if wroot == 'self' else RT.parent
                                if action == 'replace':
                                    RT.replace('[x, y.z]')
                                ref_items = list(RW.walk(**kw))
                                ks = [i for i, g in enumerate(ref_items) if ((g[0] is RT and g[1]) if isinstance(g, tuple) else g is RT)]
                                ref_after = [label(g) for g in ref_items[ks[-1] + 1:]] if ks else []
                                gen = W.walk(**kw)
                                got_after, rewalk, expected, phase = [], [], None, 0
                                rec = {'src': src, 'target': tp, 'walk_root': wroot, 'walk_kwargs': {k_: repr(v) for k_, v in kw.items()}, 'at_leaving_yield': action + ' + send(True)'}
                                try:
                                    steps = 0
                                    for g in gen:
                                        steps += 1
                                        if steps > 500:
                                            raise RuntimeError('walk does not end')
                                        n, l = g if isinstance(g, tuple) else (g, True)
                                        if phase == 0:
                                            if n is T and l:
                                                if action == 'replace':
                                                    T.replace('[x, y.z]')
                                                gen.send(True)
                                                expected = [key(x) for x in T.walk(on=on, back=back)]
                                                exp_labels = [label(x) for x in T.walk(on=on, back=back)]
                                                phase = 1
                                        elif phase == 1:
                                            rewalk.append(g)
                                            if len(rewalk) == len(expected):
                                                phase = 2
                                        else:
                                            got_after.append(label(g))
                                except Exception as e:
                                    ctx.violation(f'resend-raise|{on}|{type(e).__name__}', 'the iteration raised', {**rec, 'error': repr(e)[:300]})
                                    continue
                                ctx.tick(('resend', src, tp, wroot, on, back, recurse, action), f'resend:{on}:{action}')
                                if phase == 0:
                                    continue        # the target is not yielded by this walk
                                if [key(x) for x in rewalk] != expected:
                                    ctx.violation(f'resend|{on}|{action}|root={wroot}', "send(True) on leaving a node is not honoured: its (new) children are not walked again followed by the node",
                                                  {**rec, 'after_send': [label(x) for x in rewalk] + got_after[:3], 'expected': exp_labels})
                                elif got_after != ref_after:
                                    ctx.violation(f'resend-continuation|{on}|{action}|root={wroot}', 'after the re-walk the iteration does not go on with what follows the node',
                                                  {**rec, 'got': got_after[:12], 'expected': ref_after[:12]})


def stage_both_pairing(ctx: Ctx):
    """deterministic: on='both' with send(False) at the ENTRY of one node - every node of the program in turn, the walk root itself included (tree root, or the node as walk root):
    nothing below that node is yielded, and the events form a balanced sequence: every node that was entered is left exactly once, innermost first"""
    import fst
    for src in RESEND_PROGS:
        probe = fst.FST(src, 'exec')
        paths = [probe.child_path(f, True) for f in probe.walk(True)]
        for tp in paths:
            for wroot in ('tree', 'self'):
                for back in (False, True):
                    for sendv in (False, None):
                        root = fst.FST(src, 'exec')
                        T = root.child_from_path(tp) if tp else root
                        W = root if wroot == 'tree' else T
                        rec = {'src': src, 'target': tp or 'root', 'walk_root': wroot, 'back': back, 'sent_at_entry': repr(sendv)}
                        events = []
                        try:
                            gen = W.walk(True, on='both', back=back)
                            for n, leaving in gen:
                                events.append((n, leaving))
                                if len(events) > 2000:
                                    raise RuntimeError('walk does not end')
                                if n is T and not leaving and sendv is not None:
                                    again = gen.send(sendv)
                                    if again is None or again[0] is not T or again[1] is not False:
                                        ctx.violation('both-pairing|send-return', 'send() at an entry yield does not return the same entry event again', {**rec, 'returned': None if again is None else [again[0].src[:30], again[1]]})
                        except Exception as e:
                            ctx.violation(f'walk-raise|both-pairing|{type(e).__name__}', 'the walk raised', {**rec, 'error': repr(e)[:200]})
                            continue
                        ctx.tick(('both-pairing', src, tp, wroot, back, sendv), 'both-pairing:' + ('send-false' if sendv is False else 'plain'))
                        stack, bad = [], None
                        for n, leaving in events:
                            if not leaving:
                                stack.append(n)
                            elif not stack or stack[-1] is not n:
                                bad = f'left {type(n.a).__name__} {n.src[:30]!r} while {"nothing" if not stack else repr(stack[-1].src[:30])} was the innermost entered node'
                                break
                            else:
                                stack.pop()
                        if bad is None and stack:
                            bad = f'{type(stack[-1].a).__name__} {stack[-1].src[:30]!r} was entered and never left'
                        if bad:
                            ctx.violation(f'both-pairing|{"root" if T is W else "inner"}|{"send-false" if sendv is False else "plain"}', 'on="both": an entered node is not left exactly once (innermost first)',
                                          {**rec, 'problem': bad, 'events': [[type(n.a).__name__, l] for n, l in events][:12]})
                            continue
                        if sendv is False:
                            below = [n for n, l in events if n is not T and any(p is T for p in n.parents())]
                            if below:
                                ctx.violation('both-pairing|send-false-ignored', 'send(False) at the entry of a node did not keep the walk out of it', {**rec, 'yielded_below': [b.src[:30] for b in below][:5]})


def stage_entry_send(ctx: Ctx):
    """send(True) at the ENTRY yield of a node (on='enter' / on='both'), with and without a replacement of the node at that yield: its (new) children are
    walked next, all of them whatever `recurse` says, the node is not entered a second time, is left exactly once after them when on='both', and the walk
    then goes on with what follows the node; forwards and backwards, recurse True and False, walk root the tree or the parent"""
    import fst

    def label(g):
        n, l = g if isinstance(g, tuple) else (g, None)
        return [type(n.a).__name__ if n.a is not None else None, n.src if n.a is not None and n.loc else None, l]

    def inside(n, top):
        while n is not None:
            if n is top:
                return True
            n = n.parent
        return False
    for src in RESEND_PROGS:
        probe = fst.FST(src, 'exec')
        tpaths = [probe.child_path(f, True) for f in probe.walk() if isinstance(f.a, ast.expr) and isinstance(getattr(f.a, 'ctx', ast.Load()), ast.Load)
                  and not isinstance(f.parent.a, (ast.JoinedStr, ast.FormattedValue)) and not isinstance(f.a, (ast.Starred, ast.Slice))]
        for tp in tpaths:
            for wroot in ('tree', 'parent'):
                for on in ('enter', 'both'):
                    for back in (False, True):
                        for recurse in (True, False):
                            for action in ('none', 'replace'):
                                root = fst.FST(src, 'exec')
                                T = root.child_from_path(tp)
                                W = root if wroot == 'tree' else T.parent
                                if recurse is False and T.parent is not W:
                                    continue
                                kw = dict(on=on, back=back, recurse=recurse)
                                ref_root = fst.FST(src, 'exec')
                                RT = ref_root.child_from_path(tp)
                                RW = ref_root if wroot == 'tree' else RT.parent
                                if action == 'replace':
                                    RT.replace('[x, y.z]')
                                ref_items = list(RW.walk(**kw))
                                ref_after = None
                                for i, g in enumerate(ref_items):
                                    n = g[0] if isinstance(g, tuple) else g
                                    if n is RT:
                                        j = i + 1
                                        while j < len(ref_items) and inside(ref_items[j][0] if isinstance(ref_items[j], tuple) else ref_items[j], RT):
                                            j += 1
                                        ref_after = [label(x) for x in ref_items[j:]]
                                        break
                                if ref_after is None:
                                    continue
                                rec = {'src': src, 'target': tp, 'walk_root': wroot, 'walk_kwargs': {k_: repr(v) for k_, v in kw.items()}, 'at_entry_yield': action + ' + send(True)'}
                                gen = W.walk(**kw)
                                got, expected, sent = [], None, False
                                try:
                                    steps = 0
                                    for g in gen:
                                        steps += 1
                                        if steps > 500:
                                            raise RuntimeError('walk does not end')
                                        n, l = g if isinstance(g, tuple) else (g, False)
                                        if sent:
                                            got.append(label(g))
                                        elif n is T and not l:
                                            if action == 'replace':
                                                T.replace('[x, y.z]')
                                            gen.send(True)
                                            sent = True
                                            expected = [label(x) for x in T.walk(on=on, back=back, self_=False)] + ([label((T, True))] if on == 'both' else [])
                                except Exception as e:
                                    ctx.violation(f'entry-send-raise|{on}|{type(e).__name__}', 'the iteration raised', {**rec, 'error': repr(e)[:300]})
                                    continue
                                ctx.tick(('entry-send', src, tp, wroot, on, back, recurse, action), f'entry-send:{on}:{action}:recurse={recurse}')
                                if not sent:
                                    continue
                                if got != expected + ref_after:
                                    ctx.violation(f'entry-send|{on}|{action}|recurse={recurse}', "send(True) at the entry yield of a node: what follows is not its (new) children, then the node on leaving "
                                                  "(on='both'), then what follows the node", {**rec, 'got': got[:16], 'expected': (expected + ref_after)[:16]})


def run(ctx: Ctx):
    ctx.rule = ('random walks (on enter/leave/both, back, all filters, self_, recurse, scope) over corpus programs; at ~30% of the entered nodes one mutation: replace or remove the node '
                'itself, one of up to 3 ancestors, the previous or the next sibling; ~12% send(False/True). Checked: no exception, bounded number of steps, every yielded node attached and '
                'reachable from the root at that moment, no node object entered twice, first new child next after replacing the current node (plain forward enter walks), final tree re-parses '
                'to itself; search() with mutation of matched nodes. Correspondence: heaps (children, creation parent, handle, attached, handle->current AST) observed after every yield fed '
                'to the Coq walk; yields must coincide and WF/legal must hold. distinct = (source, walk options, script).')
    ctx.assumptions += ['astutil.syntax_ordered_children for the child order of observed heaps (checked in C14)', 'CPython parser for the final C01 check']
    ok = stage_translate(ctx)
    if ok:
        ctx.build_props()
    progs = corpus(ctx.rng, gen=ctx.scale(20, 120))
    run_guarded(ctx, stage_oracle, progs)
    run_guarded(ctx, stage_scope_targets)
    run_guarded(ctx, stage_resend)
    run_guarded(ctx, stage_entry_send)
    run_guarded(ctx, stage_both_pairing)
    run_guarded(ctx, stage_slice_removals)
    run_guarded(ctx, stage_optional_removals)
    run_guarded(ctx, stage_walk_root_removed)
    run_guarded(ctx, stage_search_send)
    run_guarded(ctx, stage_leave_corr, progs)
    run_guarded(ctx, stage_corr, progs)


def replay(path):
    d = json.load(open(path))
    print(json.dumps(d, indent=1)[:6000])
    return 0
