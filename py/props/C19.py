"""C19 - Coercion yields a valid node of the requested kind with the same content."""

from __future__ import annotations

import ast
import json
import warnings

from lib.common import *
from lib.oracle import cmp_ast, reparse_diffs
from lib.progs import corpus
from props.C11 import stage_translate
from props.C08 import squash_multiline_strings

warnings.simplefilter('ignore', SyntaxWarning)

LEVEL = 'proof'
HDR = ('From Coq Require Import List Bool Arith.\nFrom PF Require Import models.Coerce.\nImport ListNotations.\n')

NAMES = ['_', 'a', 'b', 'c', 'x', 'y', 'Cls', 'mod', 'k1', 'k2', 'r']     # index = model name number (0 is the wildcard)
ATTRS = ['p', 'q']


# ---- random expression terms of the model grammar, their Python source and their Coq term --------------------------
class G:
    def __init__(self, rng):
        self.rng = rng

    def name(self, allow_wild=True):
        i = self.rng.randrange(0 if allow_wild else 1, len(NAMES))
        return ('EName', i)

    def const(self):
        r = self.rng.random()
        if r < 0.35:
            return ('EConst', ('CNum', self.rng.randrange(0, 4)))
        if r < 0.55:
            return ('EConst', ('CStr', self.rng.randrange(0, 3)))
        if r < 0.85:
            return ('EConst', (self.rng.choice(['CNone', 'CTrue', 'CFalse']),))
        if r < 0.93:
            return ('EConst', ('CEllipsis',))
        return ('EConst', ('CImag', self.rng.randrange(0, 3)))

    def expr(self, d=0):
        r = self.rng.random()
        if d > 2 or r < 0.25:
            return self.rng.choice([self.name, self.const])()
        if r < 0.33:
            e = self.name(self.rng.random() < 0.2)
            for _ in range(self.rng.randrange(1, 3)):
                e = ('EAttr', e, 1 + self.rng.randrange(len(ATTRS)))
            return e if self.rng.random() < 0.85 else ('EAttr', self.expr(d + 1), 1)
        if r < 0.48:
            return ('ESeq', self.rng.choice(['list', 'tuple', 'set']), [self.maybe_star(d) for _ in range(self.rng.randrange(1, 4))])
        if r < 0.6:
            kvs = []
            for _ in range(self.rng.randrange(0, 3)):
                kvs.append((self.key(d), self.expr(d + 1)))
            if self.rng.random() < 0.4:
                kvs.insert(self.rng.randrange(len(kvs) + 1) if self.rng.random() < 0.25 else len(kvs), (None, self.name() if self.rng.random() < 0.8 else self.expr(d + 1)))
            return ('EDict', kvs)
        if r < 0.72:
            f = self.name(self.rng.random() < 0.1) if self.rng.random() < 0.7 else ('EAttr', self.name(False), 1)
            if self.rng.random() < 0.08:
                f = self.expr(d + 1)
            args = [self.maybe_star(d, 0.1) for _ in range(self.rng.randrange(0, 3))]
            kws = [((7 + self.rng.randrange(2)) if self.rng.random() < 0.9 else None, self.expr(d + 1)) for _ in range(self.rng.randrange(0, 3))]
            return ('ECall', f, args, kws)
        if r < 0.84:
            op = self.rng.choice(['OBitOr', 'OBitOr', 'OBitOr', 'OAdd', 'OSub', 'OOther'])
            if op in ('OAdd', 'OSub') and self.rng.random() < 0.7:
                left = ('EConst', ('CNum', 1)) if self.rng.random() < 0.5 else ('ENeg', ('EConst', ('CNum', 2)))
                return ('EBin', op, left, ('EConst', ('CImag', 1)))
            return ('EBin', op, self.expr(d + 1), self.expr(d + 1))
        if r < 0.9:
            return ('ENeg', self.rng.choice([('EConst', ('CNum', 3)), ('EConst', ('CImag', 2)), self.expr(d + 1)]))
        return ('EOther', self.rng.randrange(3), [self.expr(d + 1) for _ in range(2)])

    def maybe_star(self, d, p=0.2):
        if self.rng.random() < p:
            return ('EStar', self.name() if self.rng.random() < 0.85 else self.expr(d + 1))
        return self.expr(d + 1)

    def key(self, d):
        r = self.rng.random()
        if r < 0.6:
            return self.const()
        if r < 0.75:
            return ('EAttr', self.name(False), 1)
        if r < 0.85:
            return ('ENeg', ('EConst', ('CNum', 1)))
        return self.expr(d + 1)


def cst_src(c):
    return {'CNum': lambda: str(c[1]), 'CStr': lambda: repr('s%d' % c[1]), 'CNone': lambda: 'None', 'CTrue': lambda: 'True', 'CFalse': lambda: 'False', 'CEllipsis': lambda: '...',
            'CImag': lambda: f'{c[1]}j'}[c[0]]()


def src_of(e):
    t = e[0]
    if t == 'EName':
        return NAMES[e[1]]
    if t == 'EConst':
        return cst_src(e[1])
    if t == 'EAttr':
        return f'{par(e[1])}.{ATTRS[e[2] - 1]}'
    if t == 'ESeq':
        inner = ', '.join(src_of(x) for x in e[2])
        if e[1] == 'list':
            return f'[{inner}]'
        if e[1] == 'set':
            return '{' + inner + '}'
        return f'({inner},)' if len(e[2]) == 1 else f'({inner})'
    if t == 'EDict':
        return '{' + ', '.join((f'{src_of(k)}: {src_of(v)}' if k is not None else f'**{par(v)}') for k, v in e[1]) + '}'
    if t == 'ECall':
        return f'{par(e[1])}(' + ', '.join([src_of(a) for a in e[2]] + [(f'{NAMES[n]}={src_of(v)}' if n is not None else f'**{par(v)}') for n, v in e[3]]) + ')'
    if t == 'EBin':
        op = {'OAdd': '+', 'OSub': '-', 'OBitOr': '|', 'OOther': '*'}[e[1]]
        return f'{par(e[2], left=True, op=e[1])} {op} {par(e[3], op=e[1], right=True)}'
    if t == 'EStar':
        return f'*{par(e[1])}'
    if t == 'ENeg':
        return f'-{par(e[1])}'
    if t == 'EOther':
        return [lambda: f'({src_of(e[2][0])} if {src_of(e[2][1])} else 0)', lambda: f'({src_of(e[2][0])} < {src_of(e[2][1])})', lambda: f'{par(e[2][0])}[{src_of(e[2][1])}]'][e[1]]()
    raise AssertionError(t)


def par(e, left=False, right=False, op=None):
    s = src_of(e)
    if e[0] in ('EBin', 'EStar', 'ENeg') or (e[0] == 'EOther' and e[1] == 2 and False):
        if e[0] == 'EBin' and left and e[1] == op == 'OBitOr':
            return s      # a | b | c ladder
        return f'({s})'
    if e[0] == 'EConst' and e[1][0] == 'CNum' and not (left or right):
        return f'({s})'   # 1 .p
    return s


def coq_cst(c):
    return f'({c[0]} {c[1]})' if len(c) > 1 else c[0]


def coq_ex(e):
    t = e[0]
    L = lambda xs: '[' + '; '.join(xs) + ']'
    if t == 'EName':
        return f'(EName {e[1]})'
    if t == 'EConst':
        return f'(EConst {coq_cst(e[1])})'
    if t == 'EAttr':
        return f'(EAttr {coq_ex(e[1])} {e[2]})'
    if t == 'ESeq':
        return f'(ESeq {L(coq_ex(x) for x in e[2])})'
    if t == 'EDict':
        return f'(EDict {L("(" + ("Some " + coq_ex(k) if k is not None else "None") + ", " + coq_ex(v) + ")" for k, v in e[1])})'
    if t == 'ECall':
        return f'(ECall {coq_ex(e[1])} {L(coq_ex(a) for a in e[2])} {L("(" + ("Some " + str(n) if n is not None else "None") + ", " + coq_ex(v) + ")" for n, v in e[3])})'
    if t == 'EBin':
        return f'(EBin {e[1]} {coq_ex(e[2])} {coq_ex(e[3])})'
    if t in ('EStar', 'ENeg'):
        return f'({t} {coq_ex(e[1])})'
    if t == 'EOther':
        return f'(EOther {e[1]} {L(coq_ex(x) for x in e[2])})'
    raise AssertionError(t)


# real AST -> model terms
def ex_of_ast(a):
    if isinstance(a, ast.Name):
        return ('EName', NAMES.index(a.id))
    if isinstance(a, ast.Constant):
        v = a.value
        if v is None:
            return ('EConst', ('CNone',))
        if v is True:
            return ('EConst', ('CTrue',))
        if v is False:
            return ('EConst', ('CFalse',))
        if v is ...:
            return ('EConst', ('CEllipsis',))
        if isinstance(v, complex):
            return ('EConst', ('CImag', int(v.imag)))
        if isinstance(v, int):
            return ('EConst', ('CNum', v))
        if isinstance(v, str):
            return ('EConst', ('CStr', int(v[1:])))
    if isinstance(a, ast.Attribute):
        return ('EAttr', ex_of_ast(a.value), ATTRS.index(a.attr) + 1)
    if isinstance(a, (ast.List, ast.Tuple, ast.Set)):
        return ('ESeq', 'x', [ex_of_ast(x) for x in a.elts])
    if isinstance(a, ast.Dict):
        return ('EDict', [(ex_of_ast(k) if k is not None else None, ex_of_ast(v)) for k, v in zip(a.keys, a.values)])
    if isinstance(a, ast.Call):
        return ('ECall', ex_of_ast(a.func), [ex_of_ast(x) for x in a.args], [(NAMES.index(k.arg) if k.arg else None, ex_of_ast(k.value)) for k in a.keywords])
    if isinstance(a, ast.BinOp):
        op = {ast.Add: 'OAdd', ast.Sub: 'OSub', ast.BitOr: 'OBitOr'}.get(type(a.op), 'OOther')
        return ('EBin', op, ex_of_ast(a.left), ex_of_ast(a.right))
    if isinstance(a, ast.Starred):
        return ('EStar', ex_of_ast(a.value))
    if isinstance(a, ast.UnaryOp) and isinstance(a.op, ast.USub):
        return ('ENeg', ex_of_ast(a.operand))
    if isinstance(a, ast.IfExp):
        return ('EOther', 0, [ex_of_ast(a.body), ex_of_ast(a.test)])
    if isinstance(a, ast.Compare):
        return ('EOther', 1, [ex_of_ast(a.left), ex_of_ast(a.comparators[0])])
    if isinstance(a, ast.Subscript):
        return ('EOther', 2, [ex_of_ast(a.value), ex_of_ast(a.slice)])
    raise ValueError(type(a).__name__)


def coq_pat(p):
    L = lambda xs: '[' + '; '.join(xs) + ']'
    on = lambda s: 'None' if s is None or s == '_' else f'(Some {NAMES.index(s)})'
    if isinstance(p, ast.MatchAs):
        return f'(PAs {on(p.name)} {"(Some " + coq_pat(p.pattern) + ")" if p.pattern is not None else "None"})'
    if isinstance(p, ast.MatchValue):
        return f'(PValue {coq_ex(ex_of_ast(p.value))})'
    if isinstance(p, ast.MatchSingleton):
        return f'(PSingle {"CNone" if p.value is None else "CTrue" if p.value is True else "CFalse"})'
    if isinstance(p, ast.MatchSequence):
        return f'(PSeq {L(coq_pat(x) for x in p.patterns)})'
    if isinstance(p, ast.MatchMapping):
        return f'(PMap {L(coq_ex(ex_of_ast(k)) for k in p.keys)} {L(coq_pat(x) for x in p.patterns)} {on(p.rest)})'
    if isinstance(p, ast.MatchClass):
        return f'(PClass {coq_ex(ex_of_ast(p.cls))} {L(coq_pat(x) for x in p.patterns)} {L(str(NAMES.index(k)) for k in p.kwd_attrs)} {L(coq_pat(x) for x in p.kwd_patterns)})'
    if isinstance(p, ast.MatchOr):
        return f'(POr {L(coq_pat(x) for x in p.patterns)})'
    if isinstance(p, ast.MatchStar):
        return f'(PStar {on(p.name)})'
    raise ValueError(type(p).__name__)


def stage_corr(ctx: Ctx):
    import fst
    rng = ctx.rng
    g = G(rng)
    terms, meta = [], []
    seen = set()
    n_ok = n_rej = 0
    for it in range(ctx.scale(700, 8000)):
        e = g.expr()
        src = src_of(e)
        if src in seen:
            continue
        seen.add(src)
        try:
            ref = ast.parse(src, mode='eval').body
            if ex_of_ast(ref) != strip_kind(e):
                continue        # rendering lost something (precedence): skip
        except (SyntaxError, ValueError):
            continue
        for via in ('fst', 'ast'):
            try:
                if via == 'fst':
                    p = fst.FST(src, 'expr').as_('pattern')
                else:
                    p = fst.FST(ast.parse(src, mode='eval').body, 'pattern')
                got = coq_pat(p.a)
                acc = True
            except (fst.NodeError, SyntaxError, ValueError) as ex:
                got, acc = None, False
            except Exception as ex:
                ctx.violation(f'coerce-crash|pattern|{type(ex).__name__}', 'coercion raised an unexpected error', {'src': src, 'via': via, 'error': repr(ex)[:300]})
                continue
            ctx.tick(('e2p', src, via), 'e2p:' + ('accept' if acc else 'refuse'))
            n_ok += acc
            n_rej += not acc
            terms.append(f'opat_eqb (e2p {coq_ex(e)}) {"(Some " + got + ")" if acc else "None"}')
            meta.append({'src': src, 'via': via, 'real': got if acc else 'refused'})
            if acc:
                # and back
                try:
                    back = p.as_('expr')
                    terms.append(f'oex_eqb (p2e {got}) (Some {coq_ex(ex_of_ast(back.a))})')
                    meta.append({'src': src, 'via': via, 'direction': 'pattern->expr', 'real': back.src})
                except (fst.NodeError, SyntaxError, ValueError):
                    terms.append(f'oex_eqb (p2e {got}) None')
                    meta.append({'src': src, 'via': via, 'direction': 'pattern->expr', 'real': 'refused'})
                except Exception as ex:
                    ctx.violation(f'coerce-crash|expr|{type(ex).__name__}', 'coercion raised an unexpected error', {'src': p.src, 'from_expr': src, 'via': via, 'direction': 'pattern->expr', 'error': repr(ex)[:300]})
    ctx.extra['e2p_accept_refuse'] = [n_ok, n_rej]
    failed = coq_eval_bools('C19_e2p', HDR, terms, shard=400)
    ctx.correspondence('models/Coerce.v e2p / p2e == FST(expr).as_("pattern") / FST(ast, "pattern") / pattern.as_("expr"): accept/refuse and resulting structure', len(terms),
                       [meta[i] for i in failed])


def strip_kind(e):
    t = e[0]
    if t == 'ESeq':
        return ('ESeq', 'x', [strip_kind(x) for x in e[2]])
    if t in ('EAttr',):
        return (t, strip_kind(e[1]), e[2])
    if t == 'EDict':
        return (t, [(strip_kind(k) if k is not None else None, strip_kind(v)) for k, v in e[1]])
    if t == 'ECall':
        return (t, strip_kind(e[1]), [strip_kind(a) for a in e[2]], [(n, strip_kind(v)) for n, v in e[3]])
    if t == 'EBin':
        return (t, e[1], strip_kind(e[2]), strip_kind(e[3]))
    if t in ('EStar', 'ENeg'):
        return (t, strip_kind(e[1]))
    if t == 'EOther':
        return (t, e[1], [strip_kind(x) for x in e[2]])
    return e


# ---- kind x mode matrix on the real implementation ------------------------------------------------------------------
OPERANDS = [
    # sources that begin with a line continuation; parenthesized links inside attribute chains (parentheses a pattern value cannot have)
    ('expr', '\\\n  [a,\n b]'), ('expr', ' \\\n  a'), ('expr', '\\\n a + \\\n b'), ('expr', '\\\n\\\n (a, b)'), ('expr', '(a.b).c'), ('expr', '(a.b).c(x)'), ('expr', '{(a.b).c: 1}'), ('expr', '[(a.b).c, d]'),
    ('expr', 'x.y | (a.b).c'), ('expr', '((a).b.c).d'), ('expr', '(a.b\n).c'),
    ('_type_params', '**P, T'), ('_type_params', '*Ts, T, **P'), ('_type_params', 'T: int = str, *Ts'), ('arguments', 'a=1'), ('arguments', 'a, b=2'), ('arguments', '*, k=3'),
    ('_arglikes', '*not a, *b or c, d'), ('expr_arglike', '*not a'), ('_arglikes', 'a, *b if c else d'), ('expr', '[*a, *(b or c)]'),
    # redundant parentheses inside operands of | chains (removed / kept by the conversion: what stands to their right moves)
    ('expr', '(-(3)) | {**r}'), ('expr', '-(3) | a.b'), ('expr', '-(3) - (2j) | x.y'), ('expr', '[(-(1)), e] | (f.g) | -(2)'), ('pattern', '(-3) | a | b'), ('pattern', '(a) | b | c'),
    ('pattern', '((a.b)) | c | [d]'), ('pattern', '(\n a) | b | c'), ('expr', '(a) | (b) | (c)'), ('expr', '(("s")) | (1) | (-(2.5))'), ('expr', '[-(1) + (2j), (-(3)), {**r}]'),
    ('expr', 'a'), ('expr', 'a, b'), ('expr', '[a, b.c, 1]'), ('expr', '{a, b}'), ('expr', 'f(a, k=b)'), ('expr', '{"k": v, **r}'), ('expr', 'a | b | c'), ('expr', '(a,\n b,  # c\n c)'),
    ('expr', 'x.y.z'), ('expr', '-1'), ('expr', '"s"'), ('expr', '*st'), ('expr', 'a if b else c'), ('expr', 'lambda: x'), ('expr', 'ü + é'), ('expr', '(yield)'), ('expr', 'a := b'),
    ('stmt', 'x'), ('stmt', 'x = 1'), ('stmt', 'a, b'), ('exec', 'a\nb'), ('exec', 'a'), ('exec', ''), ('Tuple', 'a, b'), ('Tuple', '()'), ('List', '[]'), ('List', '[a, *b]'),
    ('pattern', '[a, *b]'), ('pattern', '{"k": v, **r}'), ('pattern', 'C(a, b=c)'), ('pattern', 'a | 1'), ('pattern', 'a as b'), ('pattern', '_'), ('pattern', 'x.y'), ('pattern', '-1'),
    ('arguments', 'a, b'), ('arguments', 'a, /, b=1, *c, d, **e'), ('arguments', 'a: int = 1'), ('arguments', ''), ('_arglikes', 'a, *b'), ('_arglikes', 'a, k=1'), ('_withitems', 'a as b, c'),
    ('withitem', 'a as b'), ('withitem', 'a'), ('_aliases', 'a, b as c'), ('_aliases', 'a.b'), ('alias', 'a as b'), ('keyword', 'k=v'), ('keyword', '**d'), ('arg', 'a'), ('arg', 'a: int'),
    ('_Assign_targets', 'a = b ='), ('_decorator_list', '@a\n@b(c)'), ('_type_params', 'T, *Ts'), ('type_param', 'T: int'), ('_comprehension_ifs', 'if a if b'),
    ('comprehension', 'for a in b if c'), ('_comprehensions', 'for a in b for c in d'), ('Dict', '{a: b}'), ('Set', '{a}'), ('MatchMapping', '{1: a}'), ('match_case', 'case a: pass'),
    ('ExceptHandler', 'except E: pass'), ('_Import_names', 'a, b.c'), ('_ImportFrom_names', 'a, b as c'), ('operator', '+'),
    ('arguments', '*a, b=c'), ('arguments', '*, k=v'), ('arguments', 'a, *b, c'), ('arguments', 'a=1, b=2'), ('arguments', '*a, b'), ('arguments', 'a, /'), ('arguments', '**kw'),
    ('arguments', 'a: int, b: str = "s"'), ('arguments', '*a: ann'), ('arguments', 'a, *, b=1, c'), ('arguments', 'x, *a, b=(c, 1), d'),
    ('exec', 'a;  # note'), ('exec', 'a, b; \\\n'), ('exec', 'a;'), ('exec', 'a  # c'), ('exec', '(a,\n b);  # c'), ('stmt', 'a;  # c'), ('stmt', 'a;'), ('exec', 'a; b'), ('exec', '# lead\na  # trail\n'),
    ('single', 'a;  # note'), ('exec', 'f(x); # note\n# more'), ('exec', '(a) ; # note'),
    ('_arglikes', '*a, b=c'), ('_arglikes', 'a, **k'), ('_arglikes', ''), ('_withitems', '(a, b) as c'), ('_withitems', 'a, b'), ('_aliases', 'a as b, c.d as e'),
    ('_Assign_targets', 'a ='), ('_Assign_targets', 'a, b = c ='), ('_decorator_list', '@a.b'), ('_type_params', 'T: int, **P'), ('keyword', 'k=(a, b)'), ('withitem', '(a, b)'),
    ('_comprehensions', 'for a in b if c for d in e'), ('_comprehension_ifs', 'if (a, b)'),
    ('expr', "{'a': x, **(r)}"), ('expr', '(f)(c)'), ('expr', '( f.g )(c, k=(v))'), ('expr', '[(a), (b.c)]'), ('expr', '{(1): (x)}'), ('expr', '(a) | (b)'), ('expr', '-(1)'), ('expr', '(1) + (2j)'),
    ('pattern', '(a) | (b)'), ('pattern', '[(a), (*b)]') if False else ('pattern', '[(a), *b]'), ('pattern', '{1: (x), **r}'), ('pattern', 'C((a), k=(b))'), ('pattern', '(a as b)'),
    ('pattern', '[a, *ﬁ]'), ('_type_params', 'a, *ﬁ'), ('type_param', '**ﬁ'), ('keyword', 'ﬁ=1'), ('keyword', '𝐚=1'), ('arguments', 'ﬁ, *𝐚'), ('expr', '[ﬁ, 𝐚.ﬂ]'), ('_aliases', 'ﬁ as ﬂ'),
    # non-ASCII text before closing delimiters / separators (byte offsets differ from columns)
    ('expr', "[a, 'ñ']"), ('expr', '{ñ, b}'), ('expr', "('é', ü)"), ('expr', "[\n 'ö',\n ñ]"), ('expr', "{'ключ': ñ, **é}"), ('expr', "f('ü', ñ=é)"), ('expr', 'ñ | é | ü'), ('expr', 'ä.ö.ü'),
    ('pattern', "[ñ, 'é']"), ('pattern', "{'ü': ñ, **é}"), ('pattern', 'Ç(ñ, é=ü)'), ('pattern', "'ñ' | é"), ('pattern', 'ñ as é'), ('arguments', 'ñ, *é, ü'), ('arguments', 'ñ, é'),
    ('_arglikes', 'ñ, *é, ü=ö'), ('_withitems', 'ñ as é, ü'), ('_aliases', 'ñ as é, ü.ö'), ('_type_params', 'Ñ, *É'), ('keyword', 'ñ=é'), ('stmt', "ñ = 'é'"), ('exec', "'é'; "), ('Tuple', "'é', ñ"),
    ('_Assign_targets', 'ñ = é ='), ('_decorator_list', '@ñ\n@é(ü)'), ('_comprehension_ifs', "if 'é' if ñ"), ('MatchSequence', "ñ, 'é'"), ('Set', "{'é'}"), ('List', "['é']"),
    # multiplicities: two and three of every repeated element (keywords, keys, operands, dotted parts), also spread over lines
    ('pattern', 'C(x=1, y=2)'), ('pattern', 'C(a, x=1, y=b, z=[c])'), ('pattern', 'm.C(\n x=1,\n y=2,\n)'), ('pattern', 'C(D(p=1, q=2), r=E(s=3, t=4))'), ('pattern', '{1: a, 2: b, 3: c}'),
    ('pattern', '{1: a, 2: b, **r}'), ('pattern', 'a | b | c | d'), ('pattern', '[a, b, c, *d]'), ('pattern', 'p.q.r.s'), ('pattern', 'C(a, b, c)'),
    ('expr', 'f(x=1, y=2, z=3)'), ('expr', 'f(a, *b, k=1, j=2, **c)'), ('expr', 'f(\n x=1,\n y=2,\n)'), ('expr', '{1: a, 2: b, 3: c}'), ('expr', 'C(D(p=1, q=2), r=E(s=3, t=4))'),
    ('expr', 'p.q.r.s'), ('expr', 'a | b | c | d'), ('expr', 'p . q \\\n . r'), ('_arglikes', 'a, b, x=1, y=2, z=3'), ('_arglikes', 'x=1, *a, y=2, z=3, w=4'),
    ('_aliases', 'a.b.c, d.e.f.g as h'), ('_Import_names', 'a.b.c.d'), ('alias', 'a.b.c'), ('alias', 'a.b.c.d as e'), ('_withitems', 'a as b, c as d, e'), ('_type_params', 'T, U: int, *V, **W'),
    ('arguments', 'a, b, /, c, d, *e, f, g=1, **h'), ('_decorator_list', '@a\n@b.c.d\n@e(f=1, g=2)'), ('_comprehensions', 'for a in b for c in d for e in f'), ('_comprehension_ifs', 'if a if b if c'),
    ('_Assign_targets', 'a = b = c ='),
    # every kind of element behind / in front of every other kind in argument-like sequences
    ('_arglikes', 'a, *b, c'), ('_arglikes', 'a, *b, c, d=1'), ('_arglikes', '*b, c'), ('_arglikes', 'a, *b, c, **d'), ('_arglikes', 'a=1, *b, c'), ('_arglikes', '*a, *b'), ('_arglikes', '**a, b=1'),
    ('arguments', 'a, *b, c, d=1'), ('arguments', 'a, /, *, c'), ('arguments', '*, c, d=1, e'), ('_type_params', 'T: int, U'), ('_type_params', 'T = int, *U'), ('type_param', 'T: (int, str)'),
    ('pattern', '{**\ufb01}'), ('pattern', '{1: a, **\ufb01}'), ('pattern', '[{**\ufb01} | b]'), ('pattern', 'C(\ufb01=1)'), ('pattern', 'x as \ufb01'),
    ('expr', 'yield'), ('stmt', 'yield x'), ('expr', 'yield from z'), ('expr', 'await x'), ('stmt', 'await x'),
    ('_withitems', 'a, b as c, d'), ('_aliases', 'a, b as c, d'), ('_decorator_list', '@a(b)(c)\n@d'), ('_comprehensions', 'for a, b in c if d if e for f in g if h'),
]
MODES = ['expr', 'pattern', 'Tuple', 'List', 'Set', 'stmt', 'stmts', 'exec', 'Expr', '_arglikes', '_arglike', 'arguments', 'arguments_lambda', '_withitems', 'withitem', '_aliases', 'alias',
         '_Import_names', '_ImportFrom_names', '_Assign_targets', '_decorator_list', '_type_params', 'type_param', 'Dict', 'MatchMapping', 'keyword', 'arg', '_comprehension_ifs',
         '_comprehensions', 'comprehension', 'Name', 'expr_slice', 'expr_arglike', 'MatchSequence', 'MatchOr', 'match_case', '_match_cases', 'ExceptHandler', '_ExceptHandlers', 'Module']


def leaves(a):
    """names and constants in source order (position, then traversal order)"""
    out = []
    for n in ast.walk(a):
        pos = (getattr(n, 'lineno', 0), getattr(n, 'col_offset', 0))
        if isinstance(n, ast.Name):
            out.append((pos, n.id))
        elif isinstance(n, ast.Constant):
            out.append((pos, repr(n.value)))
        elif isinstance(n, ast.arg):
            out.append((pos, n.arg))
        elif isinstance(n, ast.alias):
            out += [(pos, part) for part in n.name.split('.')]
            if n.asname: out.append((pos, n.asname))
        elif isinstance(n, ast.Attribute):
            out.append(((getattr(n, 'end_lineno', 0), getattr(n, 'end_col_offset', 0)), n.attr))
        elif isinstance(n, ast.keyword) and n.arg:
            out.append((pos, n.arg))
        elif isinstance(n, (ast.MatchAs, ast.MatchStar)):
            out.append(((getattr(n, 'end_lineno', 0), getattr(n, 'end_col_offset', 0)), n.name or '_'))
        elif isinstance(n, ast.MatchMapping) and n.rest:
            out.append(((getattr(n, 'end_lineno', 0), getattr(n, 'end_col_offset', 0) - 1), n.rest))
        elif isinstance(n, ast.MatchSingleton):
            out.append((pos, repr(n.value)))
        elif isinstance(n, ast.MatchClass):
            for k in n.kwd_attrs:
                out.append((pos, k))
        elif isinstance(n, (ast.TypeVar, ast.TypeVarTuple, ast.ParamSpec)):
            out.append((pos, n.name))
        elif isinstance(n, ast.ExceptHandler) and n.name:
            out.append((pos, n.name))
    return sorted(x[1] for x in out)       # compared as a multiset (positions of identifier-only nodes are approximate)


def kind_ok(a, mode):
    import fst.asttypes as T
    cls = getattr(ast, mode, None) or getattr(T, mode, None)
    table = {'expr': ast.expr, 'pattern': ast.pattern, 'stmt': ast.stmt, 'stmts': ast.Module, 'exec': ast.Module, 'expr_slice': ast.expr, 'expr_arglike': ast.expr,
             'arguments_lambda': ast.arguments, '_Import_names': getattr(T, '_aliases', None), '_ImportFrom_names': getattr(T, '_aliases', None), '_arglike': (ast.expr, ast.keyword)}
    want = table.get(mode, cls)
    return want is None or isinstance(a, want)


AHDR = ('From Coq Require Import List String Bool.\nFrom PF Require Import models.Alias.\nImport ListNotations.\nLocal Open Scope string_scope.\n'
        'Definition os_eqb (a b : option string) : bool := match a, b with Some x, Some y => String.eqb x y | None, None => true | _, _ => false end.\n')


def stage_alias(ctx: Ctx):
    """models/Alias.v to_alias == as_('alias') / FST(pure ast, 'alias') / single-element _aliases on attribute chains of 1..6 identifiers (also spread over
    blanks, continuation lines and parentheses) and on chains whose base is not a name (refused)"""
    import fst
    rng = ctx.rng
    idents = ['a', 'b', 'pkg', 'sub', 'mod', 'name', 'x1', '_p', 'as_', 'import_']
    terms, meta = [], []
    for it in range(ctx.scale(150, 1500)):
        n = rng.randrange(1, 7)
        ids = [rng.choice(idents) for _ in range(n)]
        base = rng.choice(['name'] * 5 + ['call', 'sub', 'const'])
        btxt = {'name': ids[0], 'call': ids[0] + '()', 'sub': ids[0] + '[0]', 'const': '"s"'}[base]
        layout = rng.choice(['plain', 'plain', 'spaces', 'cont', 'pars'])
        dot = {'plain': '.', 'spaces': ' . ', 'cont': ' \\\n . ', 'pars': '.'}[layout]
        src = btxt
        for k, x in enumerate(ids[1:]):
            if layout == 'pars' and rng.random() < 0.5:
                src = '(' + src + ')'
            src = src + dot + x
        e = ('DName ' + cstr(ids[0])) if base == 'name' else 'DOther'
        for x in ids[1:]:
            e = f'DAttr ({e}) {cstr(x)}'
        got = []
        for route in ('fst', 'ast', 'aliases'):
            try:
                if route == 'fst':
                    r = fst.FST(src, 'expr').as_('alias')
                elif route == 'ast':
                    r = fst.FST(ast.parse(src, mode='eval').body, 'alias')
                else:
                    r = fst.FST(src, 'expr').as_('_aliases')
                    r = r.names[0] if len(r.a.names) == 1 else None
                got.append(r.a.name if r is not None and isinstance(r.a, ast.alias) and r.a.asname is None else '?')
            except Exception as ex:
                got.append(None)
        ctx.tick(('alias', src), f'alias:{base}:{layout}:{n}')
        if len(set(got)) != 1 or got[0] == '?':
            ctx.violation(f'alias-routes|{base}|{got}', 'coercing an attribute chain to an alias differs between the formatted node, its pure AST and the one-element sequence route',
                          {'src': src, 'as_alias': got[0], 'FST(ast, alias)': got[1], 'as__aliases': got[2]})
            continue
        terms.append(f'os_eqb (to_alias ({e})) ' + ('None' if got[0] is None else f'(Some {cstr(got[0])})'))
        meta.append({'src': src, 'real': got[0], 'model_term': e})
    failed = coq_eval_bools('C19_alias', AHDR, terms, shard=150)
    ctx.correspondence("models/Alias.v to_alias == alias name / refusal of as_('alias'), FST(ast, 'alias') and as_('_aliases') on attribute chains (layouts: plain, blanks, continuation lines, parentheses)",
                       len(terms), [meta[i] for i in failed])


def stage_matrix(ctx: Ctx, progs):
    import fst
    rng = ctx.rng
    ops = list(OPERANDS)
    # more operands from the corpus: expressions and statements
    for src in progs[:ctx.scale(12, 60)]:
        try:
            t = ast.parse(src)
        except SyntaxError:
            continue
        nodes = [n for n in ast.walk(t) if isinstance(n, (ast.expr, ast.stmt)) and not isinstance(n, (ast.Slice,))]
        for n in rng.sample(nodes, min(len(nodes), 6)):
            try:
                u = ast.unparse(n)
                ops.append(('stmt' if isinstance(n, ast.stmt) else 'expr' if not isinstance(n, ast.Starred) else 'expr_arglike', u))
            except Exception:
                pass
    refusals = {}
    for smode, src in ops:
        try:
            base = fst.FST(src, smode)
        except Exception:
            continue
        import unicodedata
        nfkc = unicodedata.normalize('NFKC', src) != src     # identifiers the parser normalises (ﬁ -> fi): their length in the tree differs from their length in the source
        report = (lambda sig, what, rec_: ctx.violation(sig + '|nfkc-identifier', what, rec_)) if nfkc else ctx.violation
        if src.lstrip(' ').startswith('\\\n'):
            report = lambda sig, what, rec_: ctx.violation(sig + '|leading-continuation', what, rec_)       # the source begins with a line continuation
        # operands with a starred element also under pars_arglike=None (defer to `pars`, whose default still asks for valid results)
        optsets = [{}] + ([{'pars_arglike': None}] if '*' in src else [])
        for mode, optset in [(m_, o_) for o_ in optsets for m_ in MODES]:
            fst.FST.set_options(pars_arglike=optset.get('pars_arglike', True))
            rec = {'source_mode': smode, 'src': src, 'target_mode': mode, **({'options': optset} if optset else {})}
            # (a) copy-mode coercion
            f = fst.FST(src, smode)
            before_src, before_dump = f.src, ast.dump(f.a, include_attributes=True)
            try:
                r = f.as_(mode, copy=True)
                err = None
            except (fst.NodeError, SyntaxError, ValueError, NotImplementedError) as e:
                r, err = None, e
            except Exception as e:
                report(f'coerce-crash|{type(base.a).__name__}->{mode}|{type(e).__name__}', 'coercion raised an unexpected kind of error', {**rec, 'error': repr(e)[:300]})
                continue
            ctx.tick((smode, src, mode, repr(optset)), f'coerce:{mode}:' + ('ok' if r is not None else 'refuse'))
            if f.src != before_src or (f.a is not None and ast.dump(f.a, include_attributes=True) != before_dump) or f.a is None:
                report(f'copy-coerce-touched-operand|{type(base.a).__name__}->{mode}', 'as_(mode, copy=True) changed the operand', {**rec, 'operand_after': f.src})
                continue
            if r is None:
                refusals[f'{type(base.a).__name__}->{mode}'] = refusals.get(f'{type(base.a).__name__}->{mode}', 0) + 1
                continue
            if not kind_ok(r.a, mode):
                report(f'wrong-kind|{type(base.a).__name__}->{mode}', 'the coerced node is not an instance of the requested kind', {**rec, 'got': type(r.a).__name__, 'result_src': r.src})
                continue
            already = kind_ok(base.a, mode) and mode not in ('stmts', 'exec', 'Module', '_arglike') and not (mode == 'stmt' and isinstance(base.a, ast.Module))
            # (b) standalone and parses in the requested mode to itself
            unchanged = type(r.a) is type(base.a) and r.src == src
            if isinstance(r.a, ast.Set) and not r.a.elts:
                continue        # an empty Set has no literal: '{}' unless norm=True is requested (documented degenerate form)
            try:
                r.verify()
                if unchanged:
                    d = None     # already of the requested kind and returned as it is: its own mode applies (e.g. a naked tuple root)
                else:
                    rep = fst.FST(r.src, mode)
                    d = cmp_ast(squash_multiline_strings(rep.a), squash_multiline_strings(r.a), positions=True)
            except Exception as e:
                d = [f'verify / re-parse in mode failed: {e!r}'[:300]]
            if d:
                report(f'result-not-valid|{type(base.a).__name__}->{mode}', 'the coerced tree does not parse in the requested mode to itself', {**rec, 'result_src': r.src, 'diffs': d})
                continue
            # (c) same leaves
            lb, lr = leaves(base.a), leaves(r.a)
            if lb != lr:
                report(f'leaves-differ|{type(base.a).__name__}->{mode}', 'the coerced node does not contain the same names and constants', {**rec, 'result_src': r.src, 'operand': lb, 'result': lr})
                continue
            # (d) already of that kind: unchanged
            def _valid_as_is():
                try:
                    fst.FST(src, mode)
                    return True
                except Exception:
                    return False        # e.g. `*not a`: a Starred, but as it stands only an argument - it has to get parentheses to be an expression
            if type(r.a) is type(base.a) and already and (r.src != src or cmp_ast(r.a, base.a, positions=False)) and (cmp_ast(r.a, base.a, positions=False) or _valid_as_is()):
                report(f'same-kind-changed|{type(base.a).__name__}->{mode}', 'a node that already has the requested kind was changed', {**rec, 'result_src': r.src})
                continue
            # (e) formatted vs pure AST
            try:
                from fst.astutil import copy_ast
                pure = copy_ast(base.a)
                pure_before = ast.dump(pure)
                try:
                    ra = fst.FST(pure, mode)
                finally:
                    if ast.dump(pure) != pure_before:
                        report(f'ast-operand-touched|{type(base.a).__name__}->{mode}', 'coercing a pure AST changed the AST that was passed in (it is documented as consumed only on success)' if False else
                               'coercing a pure AST left the AST that was passed in with other content', {**rec, 'before': pure_before[:200], 'after': ast.dump(pure)[:200]})
                d = cmp_ast(squash_multiline_strings(ra.a), squash_multiline_strings(r.a), positions=False, ctx=False)
                if d:
                    report(f'fst-vs-ast|{type(base.a).__name__}->{mode}|{d[0].split(": ")[-1][:40]}', 'coercing the formatted node and coercing its pure AST give different structures',
                                  {**rec, 'from_fst': r.src, 'from_ast': ra.src, 'diffs': d})
                    continue
            except AttributeError as e:
                report(f'coerce-crash|{type(base.a).__name__}->{mode}|AttributeError', 'coercing the pure AST crashed', {**rec, 'from_fst': r.src, 'error': repr(e)[:200]})
                continue
            except (fst.NodeError, SyntaxError, ValueError, NotImplementedError) as e:
                report(f'fst-vs-ast-refusal|{type(base.a).__name__}->{mode}', 'the formatted node coerces but its pure AST is refused', {**rec, 'from_fst': r.src, 'error': repr(e)[:200]})
                continue
            # (f) non-copy coercion gives the same
            try:
                r2 = fst.FST(src, smode).as_(mode)
                if r2.src != r.src or cmp_ast(r2.a, r.a, positions=True):
                    report(f'copy-vs-inplace|{type(base.a).__name__}->{mode}', 'copy-mode and in-place coercion differ', {**rec, 'copy': r.src, 'inplace': r2.src})
            except Exception as e:
                report(f'copy-vs-inplace|{type(base.a).__name__}->{mode}', 'in-place coercion raised although copy-mode coercion succeeded', {**rec, 'error': repr(e)[:200]})
    fst.FST.set_options(pars_arglike=True)
    ctx.extra['refusals'] = len(refusals)
    # (g) a put that coerces == a put of the explicitly converted node
    hosts = [('match x:\n    case 0: pass\n', lambda r: r.body[0].cases[0], 'pattern', 'pattern'), ('f(1)\n', lambda r: r.body[0].value, 'args', '_arglikes'),
             ('x = [0]\n', lambda r: r.body[0].value, 'elts', None), ('with z: pass\n', lambda r: r.body[0], 'items', '_withitems'), ('import z\n', lambda r: r.body[0], 'names', '_Import_names')]
    for smode, src in ops[:len(OPERANDS)]:
        import unicodedata
        report = (lambda sig, what, rec_: ctx.violation(sig + '|nfkc-identifier', what, rec_)) if unicodedata.normalize('NFKC', src) != src else ctx.violation
        for hsrc, pick, field, tmode in hosts:
            if tmode is None:
                continue
            try:
                conv = fst.FST(src, smode).as_(tmode)
            except Exception:
                continue
            if not any(isinstance(c, ast.AST) and not isinstance(c, ast.expr_context) for c in ast.iter_child_nodes(conv.a)):
                continue        # putting nothing empties the field (documented incomplete node)
            h1, h2 = fst.FST(hsrc, 'exec'), fst.FST(hsrc, 'exec')
            rec = {'operand_mode': smode, 'operand': src, 'host': hsrc, 'field': field, 'converted': conv.src}
            try:
                if field == 'pattern':
                    pick(h1).put(fst.FST(src, smode), field=field, coerce=True)
                    pick(h2).put(conv, field=field)
                else:
                    pick(h1).put_slice(fst.FST(src, smode), 0, 'end', field, coerce=True)
                    pick(h2).put_slice(conv, 0, 'end', field)
            except Exception as e:
                continue
            ctx.tick(('put-coerce', smode, src, field), 'coerce:put')
            d = cmp_ast(h1.a, h2.a, positions=False)
            if d:
                report(f'put-coerce|{field}', 'a put that coerces differs from a put of the explicitly converted node', {**rec, 'coercing_put': h1.src, 'explicit_put': h2.src, 'diffs': d})
            elif reparse_diffs(h1):
                bare_yield = isinstance(getattr(conv.a, 'elts', [None])[0] if getattr(conv.a, 'elts', None) else None, (ast.Yield, ast.YieldFrom)) or src.startswith('yield')
                report(f'put-coerce-c01|{field}' + ('|bare-yield' if bare_yield else ''), 'tree after a coercing put does not re-parse to itself', {**rec, 'coercing_put': h1.src})


def run(ctx: Ctx):
    ctx.rule = ('(1) random terms of the model grammar (names incl. the wildcard, constants, attribute chains, sequences with stars, dicts with ** at any place, calls with keywords / **, '
                '| ladders, complex literals, unary minus, other expressions) rendered to source: FST(expr).as_("pattern"), FST(ast, "pattern") and back with as_("expr") vs the Coq e2p / p2e '
                '(accept/refuse + structure); (2) 65 hand operands + corpus expressions/statements x 40 target modes: copy-mode coercion leaves the operand untouched, result is of the '
                'requested kind, verifies and re-parses in that mode to itself, has the same names/constants, same-kind is unchanged, formatted vs pure-AST coercion agree, in-place == copy; '
                '(3) coercing puts vs puts of the converted node. distinct = (operand, mode).')
    ctx.assumptions += ['FST(src, mode) parse (C05) as the meaning of "parses in the requested mode"', 'names/constants compared as multisets where identifier-only nodes have no positions']
    ok = stage_translate(ctx)
    if ok:
        ctx.build_props()
    run_guarded(ctx, stage_corr)
    run_guarded(ctx, stage_alias)
    progs = corpus(ctx.rng, gen=ctx.scale(10, 60))
    run_guarded(ctx, stage_matrix, progs)


def replay(path):
    d = json.load(open(path))
    print(json.dumps(d, indent=1)[:6000])
    return 0
