"""C18 - Substitution rewrites exactly the matched nodes with the filled-in template."""

from __future__ import annotations

import ast, re
import collections
import copy
import json
import tokenize
import warnings

from lib.common import *
from lib.oracle import cmp_ast, reparse_diffs, tokens
from lib.progs import corpus
from props.C11 import stage_translate
from props.C08 import squash_multiline_strings

warnings.simplefilter('ignore', SyntaxWarning)

LEVEL = 'proof'
HDR = ('From Coq Require Import List Bool Arith.\nFrom PF Require Import models.Subst.\nImport ListNotations.\n')


def scenarios():
    from fst.match import M, MBinOp, MCall, MList, MAttribute, MQSTAR, MTuple, MSubscript, MConstant, MUnaryOp, MBoolOp, MCompare, MIfExp, MAssign, MWith, MReturn, MExpr, MIf, MWhile
    return [
        ('assign-to-with-as', lambda: MAssign(value=M(v=...)), 'with __FST_v as res: pass'),
        ('return-to-with-as', lambda: MReturn(value=M(v=...)), 'with __FST_v as out:\n    yield_ = out'),
        ('expr-stmt-to-assign', lambda: MExpr(value=M(v=...)), 'kept = __FST_v'),
        ('if-to-assign-and-body', lambda: MIf(test=M(t=...), body=M(b=...), orelse=[]), 'cond = __FST_t\n__FST_b'),
        ('while-body-in-if', lambda: MWhile(test=M(t=...), body=M(b=...), orelse=[]), 'if __FST_t:\n    __FST_b\n    again()'),
        ('swap-binop', lambda: MBinOp(left=M(l=...), right=M(r=...)), '__FST_r + __FST_l'),
        ('binop-to-call', lambda: MBinOp(left=M(l=...), right=M(r=...)), 'g(__FST_r, __FST_l)'),
        ('unwrap-call', lambda: MCall(func=M(fn=...)), '__FST_fn'),
        ('call-slice', lambda: MCall(func=M(fn=...), args=M(a=...), keywords=[]), 'h(__FST_fn, __FST_a)'),
        ('rotate-list', lambda: MList(elts=[M(first=...), MQSTAR(rest=...)]), '[__FST_rest, __FST_first]'),
        ('attr', lambda: MAttribute(value=M(v=...)), '__FST_v.renamed'),
        ('subscript', lambda: MSubscript(value=M(v=...), slice=M(s=...)), 'at(__FST_v, __FST_s)'),
        ('wrap-whole-call', lambda: MCall(), 'traced(__FST_)'),
        ('ifexp', lambda: MIfExp(test=M(t=...), body=M(b=...), orelse=M(o=...)), '(__FST_o if not __FST_t else __FST_b)'),
        ('identity-binop', lambda: MBinOp(), '__FST_'),
        ('identity-call', lambda: MCall(), '__FST_'),
        ('identity-constant', lambda: MConstant(...), '__FST_'),
        ('identity-tuple', lambda: MTuple(), '__FST_'),
        ('identity-compare', lambda: MCompare(), '__FST_'),
        ('identity-any-expr', lambda: ast.expr, '__FST_'),
        ('identity-stmt', lambda: ast.stmt, '__FST_'),
    ]


def in_fstring(f):
    p = f.parent
    while p is not None:
        if isinstance(p.a, (ast.JoinedStr, ast.FormattedValue)):
            return True
        p = p.parent
    return False


class Ref:
    """pure-AST reference: replace matched nodes (outermost first, or all when nested) by the filled template"""

    def __init__(self, root, pat, template, nested):
        self.root, self.pat, self.nested = root, pat, nested
        try:
            self.template = ast.parse(template, mode='eval').body
        except SyntaxError:
            body = ast.parse(template).body
            self.template = body[0] if len(body) == 1 else body        # several statements: the matched statement becomes all of them
        self.n = 0
        self.spans = []

    def matches(self, a):
        f = getattr(a, 'f', None)
        if f is None or not isinstance(a, (ast.expr, ast.stmt)):
            return None
        if f.parent is not None and isinstance(f.parent.a, ast.JoinedStr):
            return None
        return f.match(self.pat)

    def conv(self, a):
        """expected AST for the original node a"""
        if isinstance(a, list):
            out = []
            for x in a:
                r = self.conv(x)
                out.extend(r) if isinstance(r, list) and isinstance(x, ast.AST) else out.append(r)
            return out
        if not isinstance(a, ast.AST):
            return a
        m = self.matches(a)
        if m is not None:
            self.n += 1
            if a.f.loc is not None:
                pl = a.f.pars() if isinstance(a, ast.expr) else a.f.bloc
                lo, hi = min(pl[0], a.f.bloc.ln), max(pl[2], a.f.bloc.end_ln)
                if isinstance(a, ast.stmt):
                    # a replaced STATEMENT owns its leading comment block and trailing line comment (the documented `trivia` default of a statement put:
                    # docs d06_slices "on a put the trivia specifies what to overwrite"); those are inside the substituted node for the purpose of C04
                    lines = a.f.root._lines
                    while lo > 0 and lines[lo - 1].lstrip().startswith('#'):
                        lo -= 1
                self.spans.append((lo, hi))
            if isinstance(self.template, list):
                return self.fill_list(self.template, a, m)
            return self.fill(self.template, a, m, top=True)
        return self.rebuild(a)

    def rebuild(self, a, top_only=False):
        new = type(a)()
        for fld, v in ast.iter_fields(a):
            setattr(new, fld, self.conv(v))
        return new

    def plain(self, a):
        from fst.astutil import copy_ast
        return copy_ast(a)

    def cap(self, a, whole=False):
        if not self.nested:
            return self.plain(a)
        if whole:
            return self.rebuild(a)       # the top node is not substituted again, its children are
        return self.conv(a)

    def fill_list(self, items, a, m):
        import fst
        out = []
        for x in items:
            slot = x.value if isinstance(x, ast.Expr) else x
            if isinstance(slot, ast.Name) and slot.id.startswith('__FST_') and slot.id[6:] and (isinstance(x, ast.Expr) or not isinstance(m.tags.get(slot.id[6:]), fst.FST)):
                cv = m.tags.get(slot.id[6:])
                if isinstance(cv, fst.FST):            # a statement slot holding one node
                    c = self.cap(cv.a)
                    out.extend(c) if isinstance(c, list) else out.append(c if isinstance(c, ast.stmt) else ast.Expr(value=c))
                    continue
                for it in (list(cv) if cv is not None else []):
                    it = it.matched if hasattr(it, 'matched') else it
                    c = self.cap(it.a)
                    out.extend(c) if isinstance(c, list) else out.append(c)     # a nested match of a several-statement template
            elif isinstance(x, ast.AST):
                out.append(self.fill(x, a, m))
            else:
                out.append(x)
        return out

    def fill(self, tm, a, m, top=False):
        import fst
        from fst.view import FSTView
        if isinstance(tm, ast.Name) and tm.id.startswith('__FST_'):
            tag = tm.id[6:]
            if not tag:
                return self.cap(a, whole=True)
            v = m.tags.get(tag)
            if isinstance(v, fst.FST):
                return self.cap(v.a, whole=top)     # a capture that becomes the root of the replacement is not re-examined
            raise RuntimeError('slice capture in a single slot')
        new = type(tm)()
        for fld, v in ast.iter_fields(tm):
            if isinstance(v, list):
                setattr(new, fld, self.fill_list(v, a, m))
            elif isinstance(v, ast.AST):
                setattr(new, fld, self.fill(v, a, m))
            else:
                setattr(new, fld, v)
        return new


def comments_by_line(src):
    out = []
    try:
        import io
        for t in tokenize.generate_tokens(io.StringIO(src).readline):
            if t.type == tokenize.COMMENT:
                out.append((t.start[0] - 1, t.string))
    except Exception:
        pass
    return out


def stage_oracle(ctx: Ctx, progs):
    import fst
    rng = ctx.rng
    scs = scenarios()
    small = [p for p in progs if len(p) < 1200]
    for it in range(ctx.scale(420, 7000)):
        src = rng.choice(small)
        name, mk, template = rng.choice(scs)
        nested = rng.random() < 0.4
        try:
            pat = mk()
        except Exception as e:
            ctx.broken.append({'kind': 'harness', 'name': 'scenario', 'detail': f'{name}: {e!r}'})
            continue
        refroot = fst.FST(src, 'exec')
        work = fst.FST(src, 'exec')
        rec = {'src': src, 'scenario': name, 'template': template, 'nested': nested}
        ref = Ref(refroot, pat, template, nested)
        try:
            expected = ref.conv(refroot.a)
        except RuntimeError:
            continue
        except Exception as e:
            ctx.broken.append({'kind': 'harness', 'name': 'reference', 'detail': f'{name}: {e!r}'[:300]})
            continue
        # the expected tree must itself be a program (precedence is handled by parenthesization, contexts are not changed)
        try:
            ok_tree = not cmp_ast(ast.parse(ast.unparse(ast.fix_missing_locations(copy.deepcopy(expected)))), expected, positions=False, ctx=False)
        except Exception:
            ok_tree = False
        if not ok_tree:
            continue
        before_src = work.src
        try:
            _, n_unique, n_total = work.subn(pat, template, nested)
        except Exception as e:
            ctx.tick(('sub-raise', hash(src) & 0xffffff, name, nested), 'sub:raise')
            d = reparse_diffs(work)
            if d:
                ctx.violation(f'sub-raise-dirty|{name}|{type(e).__name__}', 'sub() raised and left an invalid tree', {**rec, 'error': repr(e)[:300], 'diffs': d})
            elif isinstance(e, NotImplementedError):
                ctx.dist['sub:not-implemented'] = ctx.dist.get('sub:not-implemented', 0) + 1     # declared limitation (f-string internals), tree still valid
            else:
                ctx.violation(f'sub-raise|{name}|{type(e).__name__}', 'sub() raised although the pure-AST substitution is a valid program', {**rec, 'error': repr(e)[:300]})
            continue
        ctx.tick((hash(src) & 0xffffff, name, nested), f'sub:{name}:' + ('nested' if nested else 'flat') + (':0' if not ref.n else ':n'))
        d = reparse_diffs(work)
        if d:
            ctx.violation(f'sub-c01|{name}', 'the tree after sub() does not re-parse to itself', {**rec, 'after': work.src, 'diffs': d})
            continue
        d = cmp_ast(squash_multiline_strings(work.a), squash_multiline_strings(expected), positions=False, ctx=False)
        if d:
            ctx.violation('sub-struct|several-statement-template-nested' if nested and isinstance(ref.template, list) else f'sub-struct|{name}|{"nested" if nested else "flat"}', 'the tree after sub() differs from the pure-AST substitution', {**rec, 'after': work.src, 'diffs': d,
                          'expected_unparsed': ast.unparse(ast.fix_missing_locations(expected))[:1500]})
            continue
        if n_unique != ref.n or n_total != ref.n:
            ctx.violation(f'sub-count|{name}|{"nested" if nested else "flat"}', 'the reported counts differ from the number of substitutions of the pure-AST reference',
                          {**rec, 'reported': [n_unique, n_total], 'reference': ref.n, 'after': work.src})
            continue
        if template == '__FST_' and False:
            pass
        # comments outside substituted nodes
        keep = collections.Counter(c for ln, c in comments_by_line(before_src) if not any(a <= ln <= b for a, b in ref.spans))
        have = collections.Counter(c for ln, c in comments_by_line(work.src))
        lost = keep - have
        if lost:
            ctx.violation(f'sub-comment-lost|{name}', 'a comment outside every substituted node disappeared', {**rec, 'lost': list(lost)[:4], 'after': work.src})


def stage_slots(ctx: Ctx):
    """deterministic: how ONE template mixes single-node slots and slice slots. A single capture that is itself a sequence stays one element whatever stands to
    its right or left (the slice mode of a slot is per slot); __FSS_tag splices a captured sequence as elements, __FSO_tag puts it as one element, in list,
    call-argument and class-base positions. Expected sources are written out."""
    import fst
    from fst.match import M, MList, MQSTAR, MAssign, MCall, MTuple
    heads = ['(p, q)', '[p, q]', '{p, q}', 'x', 'f(y)', '(p,)', '(p, (q, r))', '[]']
    cases = []
    for h in heads:
        lst = lambda: MList(elts=[M(h=...), MQSTAR(rest=...)])
        cases += [(f'[{h}, a, b]', lst, '[__FST_h, 0, __FST_rest]', f'[{h}, 0, a, b]'), (f'[{h}, a, b]', lst, 'g(__FST_h, 0, __FST_rest)', f'g({h}, 0, a, b)'),
                  (f'[{h}, a, b]', lst, '[__FST_rest, 0, __FST_h]', f'[a, b, 0, {h}]'), (f'[{h}, a, b]', lst, '(__FST_h, __FST_rest, __FST_h)', f'({h}, a, b, {h})'),
                  (f'[{h}]', lst, '[__FST_h, 0, __FST_rest]', f'[{h}, 0]'), (f'[{h}, a]', lst, '{__FST_h: 1, **z}', f'{{{h}: 1, **z}}' if not h.startswith(('[', '{')) else None),
                  (f'w = [{h}, a, b]', lst, 'k(u, __FST_rest, v=__FST_h)', f'w = k(u, a, b, v={h})')]
        asg = lambda: MAssign(value=M(v=...))
        elems = {'(p, q)': 'p, q', '[p, q]': 'p, q', '{p, q}': 'p, q', '(p,)': 'p', '(p, (q, r))': 'p, (q, r)'}.get(h)
        cases += [(f'r = {h}', asg, 'f(x, __FSO_v)', f'f(x, {h})'), (f'r = {h}', asg, '[x, __FSO_v, y]', f'[x, {h}, y]')]
        if elems:
            cases += [(f'r = {h}', asg, 'f(x, __FSS_v)', f'f(x, {elems})'), (f'r = {h}', asg, '[x, __FSS_v]', f'[x, {elems}]'), (f'r = {h}', asg, 'f(__FSS_v, y)', f'f({elems}, y)'),
                      (f'r = {h}', asg, 'class K(x, __FSS_v): pass', f'class K(x, {elems}): pass'), (f'r = {h}', asg, 'f(__FSS_v, k=1)', f'f({elems}, k=1)')]
    # the whole-match slot spliced as elements (__FSS_) with nested=True: the matched node is gone, its elements are ordinary candidates
    from fst.match import MTuple as _MT
    from fst.match import MIf as _MIf, MWith as _MWith
    for src, mk, template, want, counts in [('if a:\n    if b: pass\nz\n', lambda: _MIf(test=M(t=...), body=M(b=...), orelse=[]), 'cond = __FST_t\n__FST_b', 'cond = a\ncond = b\npass\nz\n', (2, 2)),
                                            ('with a:\n    with b: c\n', lambda: _MWith(items=M(i=...), body=M(b=...)), 'enter(__FST_i)\n__FST_b\nleave()', 'enter(a)\nenter(b)\nc\nleave()\nleave()\n', (2, 2)),
                                            ('r = [[a, b], c]', lambda: MList(), '[x, __FSS_]', 'r = [x, [x, a, b], c]', (2, 2)), ('r = ((a, b),)', lambda: _MT(), 'f(__FSS_)', 'r = f(f(a, b))', (2, 2)),
                                            ('r = [c, [a, b]]', lambda: MList(), '[__FSS_, x]', 'r = [c, [a, b, x], x]', (2, 2)), ('r = [[a, b], c]', lambda: MList(), '[x, __FSO_]', 'r = [x, [[x, [a, b]], c]]', (2, 2)),
                                            ('r = f(g(y))', lambda: MCall(), 'h(__FST_)', 'r = h(f(h(g(y))))', (2, 2))]:
        root = fst.FST(src, 'exec')
        rec = {'src': src, 'template': template, 'nested': True, 'expected': want, 'expected_counts': list(counts)}
        try:
            got = root.subn(mk(), template, True)[1:]
        except Exception as e:
            ctx.violation(f'slots-raise|{type(e).__name__}', 'sub() raised on a slot combination whose result is a valid program', {**rec, 'error': repr(e)[:300]})
            continue
        ctx.tick(('slots-nested', src, template), 'sub:slots-nested')
        d = reparse_diffs(root) or cmp_ast(root.a, ast.parse(want), positions=False, ctx=False)
        if d or tuple(got) != counts:
            ctx.violation('sub-struct|several-statement-template-nested' if '\n' in template else 'sub-struct|whole-match-slice-nested',
                          'with nested=True not every match was substituted when the whole match is spliced / wrapped by the template or the template is several statements (or the counts are not the substitutions performed)',
                          {**rec, 'after': root.src, 'counts': list(got), 'diffs': d})
    # a quantifier capture over Call.args / ClassDef.bases when keywords stand between the captured elements: the slot gets the captured elements, nothing else
    for src, mk, template, want in [('r = f(a, b, k=1, *c, j=2)', lambda: MCall(args=[..., MQSTAR(t=...)]), 'g(__FST_t)', 'r = g(b, *c)'),
                                    ('r = f(a, b, *c, j=2)', lambda: MCall(args=[..., MQSTAR(t=...)]), 'g(__FST_t)', 'r = g(b, *c)'),
                                    ('r = f(a, k=1, *c, j=2)', lambda: MCall(keywords=[MQSTAR(t=...)]), 'g(__FST_t)', 'r = g(k=1, j=2)'),
                                    ('r = f(a, *c, k=1, j=2)', lambda: MCall(keywords=[MQSTAR(t=...)]), 'g(__FST_t)', 'r = g(k=1, j=2)')]:
        root = fst.FST(src, 'exec')
        rec = {'src': src, 'template': template, 'expected': want}
        try:
            root.sub(mk(), template)
        except Exception as e:
            ctx.dist['sub:interleaved:refused'] = ctx.dist.get('sub:interleaved:refused', 0) + 1        # refusing what cannot be expressed as one slice is fine
            if reparse_diffs(root) or root.src != src + '\n' and root.src != src:
                ctx.violation('sub-raise-dirty|interleaved', 'sub() raised and left a changed tree', {**rec, 'error': repr(e)[:200], 'after': root.src})
            continue
        ctx.tick(('slots-interleaved', src, template), 'sub:slots-interleaved')
        d = reparse_diffs(root) or cmp_ast(root.a, ast.parse(want), positions=False, ctx=False)
        if d:
            ctx.violation('sub-struct|args-capture-with-interleaved-keywords', 'a slot was filled with more than the captured elements', {**rec, 'after': root.src, 'diffs': d})
    # the same over the merged virtual fields (_args of a call, _bases of a class: positional and keyword elements in source order): every interleaving x every capture window
    from fst.match import MClassDef as _MCD, MQPLUS as _MQP, MStarred as _MSt
    for elems in (['a', 'k=1', '*b'], ['a', 'k=1', '*b', '**e'], ['a', 'k=1', '*b', 'j=2'], ['a', '*b', 'k=1'], ['a', 'b', 'c', 'k=1'], ['k=1', '*b', 'j=2', '*c'], ['*a', 'k=1', '*b', 'j=2', '**e'],
                  ['a', 'é=1', '*b', 'j=2']):
        n = len(elems)
        windows = [('rest', lambda: [..., MQSTAR(t=...)], 1, n), ('init', lambda: [MQSTAR(t=...), ...], 0, n - 1), ('middle', lambda: [..., MQSTAR(t=...), ...], 1, n - 1),
                   ('all', lambda: [MQSTAR(t=...)], 0, n)]
        st = [i for i, e_ in enumerate(elems) if e_.startswith('*') and not e_.startswith('**')]
        if len(st) == 1:
            windows.append(('the-starred', lambda: [MQSTAR.NG, _MQP(t=_MSt), MQSTAR], st[0], st[0] + 1))
        for holder in ('call', 'class'):
            if holder == 'class' and any(e_.startswith('**') for e_ in elems):
                pass
            for wname, mkw, i0, j0 in windows:
                for template_args in ('__FST_t', 'x, __FST_t', '__FST_t, z=0'):
                    cap = elems[i0:j0]
                    filled = template_args.replace('__FST_t', ', '.join(cap)) if cap else template_args.replace('__FST_t, ', '').replace(', __FST_t', '').replace('__FST_t', '')
                    if holder == 'call':
                        src, template, want = f'r = f({", ".join(elems)})', f'g({template_args})', f'r = g({filled})'
                        mk = lambda: MCall(_args=mkw())
                    else:
                        src, template, want = f'class C({", ".join(elems)}): pass', f'class D({template_args}): pass', f'class D({filled}): pass'
                        mk = lambda: _MCD(_bases=mkw())
                    try:
                        want_t = ast.parse(want)
                    except SyntaxError:
                        continue        # these elements in this order are no argument list
                    root = fst.FST(src, 'exec')
                    rec = {'src': src, 'pattern': f'{"MCall(_args=" if holder == "call" else "MClassDef(_bases="}{wname})', 'template': template, 'captured': cap, 'expected': want}
                    try:
                        got = root.subn(mk(), template)[1:]
                    except Exception as e:
                        ctx.dist['sub:virtual-capture:refused'] = ctx.dist.get('sub:virtual-capture:refused', 0) + 1
                        if reparse_diffs(root) or root.src.rstrip('\n') != src:
                            ctx.violation('sub-raise-dirty|virtual-capture', 'sub() raised and left a changed tree', {**rec, 'error': repr(e)[:200], 'after': root.src})
                        continue
                    ctx.tick(('slots-virtual', src, wname, template), 'sub:slots-virtual-capture')
                    d = reparse_diffs(root) or cmp_ast(root.a, want_t, positions=False, ctx=False)
                    if d or tuple(got) != (1, 1):
                        ctx.violation(f'sub-struct|virtual-field-capture|{holder}', 'a slot filled with a quantifier capture over a merged virtual field does not hold exactly the captured elements',
                                      {**rec, 'after': root.src, 'counts': list(got), 'diffs': d})
    # loop= when a STATEMENT is replaced by several statements: the rounds go on at the first of them (what replace() returns) while it still matches
    from fst.match import MWhile as _MWh
    for src, mk, template, loopv, want, counts in [
            ('if a:\n    if b:\n        if c:\n            x\nz\n', lambda: _MIf(test=M(t=...), body=[_MIf(test=M(u=...), body=M(b=...), orelse=[])], orelse=[]), 'if f(__FST_t, __FST_u):\n    __FST_b\nmark()', True,
             'if f(f(a, b), c):\n    x\nmark()\nmark()\nz\n', (1, 2)),
            ('if a:\n    if b:\n        if c:\n            x\nz\n', lambda: _MIf(test=M(t=...), body=[_MIf(test=M(u=...), body=M(b=...), orelse=[])], orelse=[]), 'if f(__FST_t, __FST_u):\n    __FST_b\nmark()', False,
             'if f(a, b):\n    if c:\n        x\nmark()\nz\n', (1, 1)),
            ('if a:\n    if b:\n        if c:\n            if d:\n                x\nz\n', lambda: _MIf(test=M(t=...), body=[_MIf(test=M(u=...), body=M(b=...), orelse=[])], orelse=[]), 'if f(__FST_t, __FST_u):\n    __FST_b\nmark()', 2,
             'if f(f(a, b), c):\n    if d:\n        x\nmark()\nmark()\nz\n', (1, 2)),
            ('def g():\n    while a:\n        while b:\n            while c:\n                x\n', lambda: _MWh(test=M(t=...), body=[_MWh(test=M(u=...), body=M(b=...), orelse=[])], orelse=[]), 'while f(__FST_t, __FST_u):\n    __FST_b\nmark()', True,
             'def g():\n    while f(f(a, b), c):\n        x\n    mark()\n    mark()\n', (1, 2))]:
        root = fst.FST(src, 'exec')
        rec = {'src': src, 'template': template, 'loop': loopv, 'expected': want, 'expected_counts': list(counts)}
        try:
            got = root.subn(mk(), template, loop=loopv)[1:]
        except Exception as e:
            ctx.violation(f'slots-raise|{type(e).__name__}', 'sub(loop=) raised on a several-statement template', {**rec, 'error': repr(e)[:300]})
            continue
        ctx.tick(('loop-stmts', src, template, loopv), 'sub:loop-several-statement-template')
        d = reparse_diffs(root) or cmp_ast(root.a, ast.parse(want), positions=False, ctx=False)
        if d or tuple(got) != counts:
            ctx.violation('sub-struct|loop-several-statement-template', 'with loop= the rounds do not go on at the first of the statements that replaced the match (or the counts are not the substitutions performed)',
                          {**rec, 'after': root.src, 'counts': list(got), 'diffs': d})
    # ctx=True: only the nodes whose expression context is the pattern's are rewritten and counted
    for src, mk, template, want, counts in [('total = total + step\ndel total\n', lambda: ast.Name('total', ast.Load()), 'acc', 'total = acc + step\ndel total\n', (1, 1)),
                                            ('total = total + step\ndel total\n', lambda: ast.Name('total', ast.Store()), 'acc', 'acc = total + step\ndel total\n', (1, 1)),
                                            ('a.b = a.b\ndel a.b\n', lambda: ast.Attribute(ast.Name('a', ast.Load()), 'b', ast.Load()), 'c.d', 'a.b = c.d\ndel a.b\n', (1, 1)),
                                            ('x = [i, i]\nfor i in i: pass\n', lambda: ast.Name('i', ast.Load()), 'j', 'x = [j, j]\nfor i in j: pass\n', (3, 3))]:
        for nested in (False, True):
            root = fst.FST(src, 'exec')
            rec = {'src': src, 'template': template, 'ctx': True, 'nested': nested, 'expected': want, 'expected_counts': list(counts)}
            try:
                got = root.subn(mk(), template, nested, ctx=True)[1:]
            except Exception as e:
                ctx.violation(f'slots-raise|{type(e).__name__}', 'sub(ctx=True) raised although the substitution of the nodes in that context is a valid program', {**rec, 'error': repr(e)[:300]})
                continue
            ctx.tick(('slots-ctx', src, template, nested), 'sub:ctx')
            d = reparse_diffs(root) or cmp_ast(root.a, ast.parse(want), positions=False, ctx=True)
            if d or tuple(got) != counts:
                ctx.violation('sub-struct|ctx', 'sub(ctx=True) rewrote (or counted) nodes whose expression context is not the pattern\'s', {**rec, 'after': root.src, 'counts': list(got), 'diffs': d})
    # slots inside string constants of the template are filled with the (escaped) source of the capture
    from fst.match import MBinOp, MName, MAttribute
    bop = lambda: MBinOp(left=M(l=...), right=M(r=...))
    cases += [('x = a + b', bop, 'log("__FST_l plus __FST_r")', 'x = log("a plus b")'), ('x = a + b', bop, 'log(f"{__FST_r:>__FST_l} = __FST_")', 'x = log(f"{b:>a} = a + b")'),
              ('x = a.b', lambda: MAttribute(), "t('''q: __FST_''', b'__FST_')", "x = t('''q: a.b''', b'a.b')"), ('y = c * d', bop, '"__FST_l" "__FST_r"', 'y = "c" "d"'),
              ('r = compute(a, b)', lambda: MCall(func=M(f=...), args=[M(x=...), M(y=...)]), 'log("__FST_f: __FST_x, __FST_y", __FST_)', 'r = log("compute: a, b", compute(a, b))'),
              ('y = c * d', bop, "'''__FST_l __FST_r\n__FST_r __FST_l'''", "y = '''c d\nd c'''")]
    for src, mk, template, want in cases:
        if want is None:
            continue
        for nested in (False, True):
            if nested and ('[[' in src or '[]' in src):
                continue      # the captured head is itself a list the pattern matches: with nested=True it is rewritten too (covered by the reference oracle)
            root = fst.FST(src, 'exec')
            rec = {'src': src, 'template': template, 'nested': nested, 'expected': want}
            try:
                root.sub(mk(), template, nested)
            except Exception as e:
                ctx.violation(f'slots-raise|{type(e).__name__}', 'sub() raised on a slot combination whose result is a valid program', {**rec, 'error': repr(e)[:300]})
                continue
            ctx.tick(('slots', src, template, nested), 'sub:slots')
            in_string = bool(re.search(r'''["'][^"']*__FS[TSO]_''', template))
            if in_string:
                # (the Constant values stay stale - recorded finding - but the SOURCE must hold every slot filled)
                try:
                    src_ok = not cmp_ast(ast.parse(root.src), ast.parse(want), positions=False, ctx=False)
                except SyntaxError:
                    src_ok = False
                if not src_ok:
                    ctx.violation('sub-struct|string-slot-source', 'the source after sub() does not hold the template with every slot inside its strings filled', {**rec, 'after': root.src})
                    continue
            d = reparse_diffs(root)
            if d:
                ctx.violation('sub-c01|string-slot' if in_string and all('.value' in x for x in d) else 'sub-c01|slots', 'the tree after sub() does not re-parse to itself', {**rec, 'after': root.src, 'diffs': d})
                continue
            d = cmp_ast(root.a, ast.parse(want), positions=False, ctx=False)
            if d:
                ctx.violation('sub-struct|slots', 'single-node / slice slots of one template were not filled each in its own mode', {**rec, 'after': root.src, 'diffs': d})


LHDR = ('From Coq Require Import List Bool Arith ZArith.\nFrom PF Require Import models.SubLoop.\nImport ListNotations.\nLocal Open Scope Z_scope.\n'
        'Definition res_eqb (a b : Z * nat) : bool := Z.eqb (fst a) (fst b) && Nat.eqb (snd a) (snd b).\n')


LOOP_FIXED = [(l_, c_) for l_ in (False, True, 2, 0) for c_ in (-1, -3, 0, 1, 2)]


def stage_loop(ctx: Ctx):
    """count / loop / callback: per location at most `loop` successive substitutions while the node still matches, the allowance is per location, a callback can
    decline any round, `count` limits the substituted locations; result structure vs successive substitutions, reported counts vs the substitutions performed
    and vs models/SubLoop.v subn_counts"""
    import fst
    from fst.match import M, MList, MQSTAR
    rng = ctx.rng
    names = list('abcdefghpqrstuvwxyz')
    terms, meta = [], []
    for it in range(ctx.scale(120, 1500)):
        lists = [[rng.choice(names) + str(k) for k in range(rng.randrange(0, 7))] for _ in range(rng.randrange(1, 5))]
        src = '(' + ', '.join('[' + ', '.join(l) + ']' for l in lists) + ',)'
        loop = rng.choice([1, 2, 3, 5, True, 0, False])
        count = rng.choice([0, 0, 1, 2, 3, -1, -2])
        if it < len(LOOP_FIXED):
            loop, count = LOOP_FIXED[it]          # every kind of loop value with every kind of count, a negative count (no limit, like 0) included
        back = rng.random() < 0.3
        root = fst.FST(src, 'exec')
        pat = MList(elts=[M(first=...), M(second=...), MQSTAR(rest=...)])
        # a callback that declines some rounds (by global call number): a declined round ends the rounds at that location only
        skip_at = set(rng.sample(range(1, 12), rng.randrange(0, 4))) if rng.random() < 0.5 else set()
        calls = [0]

        def cb(m, calls=calls, skip_at=skip_at):
            calls[0] += 1
            return calls[0] in skip_at
        rec = {'src': src, 'loop': loop, 'count': count, 'back': back, 'callback_declines_calls': sorted(skip_at)}
        try:
            _, n_unique, n_total = root.subn(pat, '[__FST_first + __FST_second, __FST_rest]', loop=loop, count=count, back=back, **({'callback': cb} if skip_at else {}))
        except Exception as e:
            ctx.violation(f'sub-raise|loop|{type(e).__name__}', 'sub(loop=N) raised', {**rec, 'error': repr(e)[:300]})
            continue
        ctx.tick(('loop', src, loop, count, back, tuple(sorted(skip_at))), 'sub:loop')
        # reference: successive substitutions location by location
        order = list(range(len(lists)))[::-1] if back else list(range(len(lists)))
        steps_of, cnt, ncall, stop = {}, count, 0, False
        for idx in order:
            l = lists[idx]
            if len(l) < 2 or stop:
                steps_of[idx] = 0
                continue
            done, z = 0, (None if loop is False else 0 if loop is True else loop)
            while True:
                if skip_at:
                    ncall += 1
                    if ncall in skip_at:
                        break
                done += 1
                if z is None:
                    break
                z -= 1
                if z == 0 or done >= len(l) - 1:
                    break
            steps_of[idx] = done
            if done:
                cnt -= 1
                stop = cnt == 0
        total = sum(steps_of.values())
        unique = sum(1 for v in steps_of.values() if v)
        exp_lists = [([' + '.join(l[:steps_of[i] + 1])] + l[steps_of[i] + 1:]) if steps_of[i] else l for i, l in enumerate(lists)]
        want_src = '(' + ', '.join('[' + ', '.join(l) + ']' for l in exp_lists) + ',)'
        d = cmp_ast(root.a, ast.parse(want_src), positions=False) or reparse_diffs(root)
        if d:
            ctx.violation('sub-struct|loop', 'sub(loop=N) result differs from N successive substitutions per location', {**rec, 'after': root.src, 'expected': want_src, 'diffs': d})
            continue
        if (n_unique, n_total) != (unique, total):
            ctx.violation('sub-count|loop', 'sub(loop=N) counts differ from the substitutions performed', {**rec, 'reported': [n_unique, n_total], 'expected': [unique, total]})
            continue
        locs = [len(lists[i]) - 1 for i in order if len(lists[i]) >= 2]
        l0 = 'None' if loop is False else f'(Some {0 if loop is True else loop})'
        cbs = '[' + '; '.join(cbool(k in skip_at) for k in range(1, (max(skip_at) if skip_at else 0) + 1)) + ']'
        terms.append(f'res_eqb (subn_entry [{"; ".join(map(str, locs))}]%nat {l0} ({count}) {cbs}) ({n_unique}, {n_total}%nat)')     # subn_entry: with the clamp of a negative count
        meta.append({**rec, 'locations': locs, 'real_counts': [n_unique, n_total]})
    failed = coq_eval_bools('C18_loop', LHDR, terms, shard=1000)
    ctx.correspondence('models/SubLoop.v subn_entry (subn_counts behind the clamp of a negative count) == counts reported by FST.subn (count incl. negative x loop x declining callbacks x back, list-merging family)', len(terms), [meta[k] for k in failed])


# ---- correspondence with models/Subst.v -----------------------------------------------------------------------------
def enc_tree(a, labels):
    key = (type(a).__name__,) + tuple((f, repr(v)) for f, v in ast.iter_fields(a) if not isinstance(v, (ast.AST, list)) and f not in ('kind', 'type_comment'))
    lab = labels.setdefault(key, len(labels) + 10)
    kids = []
    for f, v in ast.iter_fields(a):
        if f == 'ctx':
            continue
        if isinstance(v, ast.AST):
            kids.append(v)
        elif isinstance(v, list):
            kids += [x for x in v if isinstance(x, ast.AST)]
    return f'Nd {lab} [{"; ".join(enc_tree(k, labels) for k in kids)}]'


def stage_corr(ctx: Ctx, progs):
    """BinOp operand swap / call wrapping on expression statements: labels identify node classes + primitives"""
    import fst
    from fst.match import M, MBinOp
    rng = ctx.rng
    terms, meta = [], []
    exprs = ['a + b', '(a + b) * c', 'f(a + b, c - d)', 'x = [p + q, r]', 'a + (b - (c * d))', '-(a + b)', 'a if b + c else d', '(a + b).c[d + e]', 'a', 'f(g(h))',
             'a + b + c + d', 'lambda: a + b']
    for it in range(ctx.scale(60, 400)):
        src = rng.choice(exprs)
        if rng.random() < 0.5:
            src = src.replace('a', rng.choice(['a', 'z', '(u + v)']), 1)
        nested = rng.random() < 0.5
        try:
            work = fst.FST(src, 'exec')
        except Exception:
            continue
        labels = {}
        before = enc_tree(work.a, labels)
        # the template `__FST_r + __FST_l` as a model template: BinOp label with op Add, kids (left, op, right) -> (TKid 2, Add, TKid 0)
        binop_labels = sorted({lab for key, lab in list(labels.items()) if key[0] == 'BinOp'})
        add_key = ('Add',)
        add_lab = labels.setdefault(add_key, len(labels) + 10)
        binop_lab = labels.setdefault(('BinOp',), len(labels) + 10)
        tm = f'TNode {binop_lab} [TKid 2; TNode {add_lab} []; TKid 0]'
        pat = MBinOp(left=M(l=...), right=M(r=...))
        try:
            _, n1, n2 = work.subn(pat, '__FST_r + __FST_l', nested)
        except Exception:
            continue
        after = enc_tree(work.a, labels)
        ctx.tick(('corr', src, nested), 'corr:' + ('nested' if nested else 'flat'))
        fn = 'subn' if nested else 'sub'
        cnt = f'&& Nat.eqb (cnt (by_label [{"; ".join(map(str, binop_labels))}]) ({before})) {n1}' if not nested else ''
        terms.append(f'tr_eqb ({fn} (by_label [{"; ".join(map(str, binop_labels))}]) ({tm}) ({before})) ({after}) {cnt}')
        meta.append({'src': src, 'nested': nested, 'after': work.src, 'count': n1})
    failed = coq_eval_bools('C18_sub', HDR, terms, shard=100)
    ctx.correspondence('models/Subst.v sub / subn / cnt == FST.subn (operand swap of every BinOp, flat and nested) on encoded trees', len(terms), [meta[i] for i in failed])


EHDR = ('From Coq Require Import List Bool Arith.\nFrom PF Require Import models.StrRepr models.SlotEscape.\nImport ListNotations.\n'
        "Fixpoint ps_eqb (a b : pystr) : bool := match a, b with [], [] => true | x :: a', y :: b' => sym_eqb x y && ps_eqb a' b' | _, _ => false end.\n")


def _sym_plain(ch):
    return {'"': 'DQ', "'": 'SQ', '\\': 'BS', '\n': 'NL', '\t': 'TAB', '\0': 'NUL'}.get(ch) or (f'P {ord(ch)}' if ch.isprintable() else f'NP {ord(ch)}')


def _syms_escaped(text):
    """the symbols of a text in which every backslash starts an escape (what sub() writes into the string)"""
    out, i = [], 0
    while i < len(text):
        ch = text[i]
        if ch != '\\':
            out.append(_sym_plain(ch))
            i += 1
            continue
        m = re.match(r'''\\(x00|n|t|["'\\]|x[0-9a-f]{2}|u[0-9a-f]{4}|U[0-9a-f]{8}|r|f|v|a|b)''', text[i:])
        if not m:
            return None
        body = m.group(1)
        out.append('BS')
        if body == 'n':
            out.append('Ln')
        elif body == 't':
            out.append('Lt')
        elif body == 'x00':
            out.append('Ez')
        elif body in ('"', "'", '\\'):
            out.append(_sym_plain(body))
        else:
            code = {'r': 13, 'f': 12, 'v': 11, 'a': 7, 'b': 8}.get(body)
            if code is None:
                code = int(body[1:], 16)
            out.append(f'E {code}')
        i += m.end()
    return out


STRING_SLOT_CAPTURES = ['"a\\tb"', "'it''s'", '"""x\ny"""', "'a\tb'", "f'{q!r}\x0c'", 'r"\\d+\\\\"', "'é ​\x7f'", '(p,\n q)', "b'\\x00' b\"z\"", "'''it's \"so\"\n'''", 'lam\\\n.bda', "'\U0001f600'"]


def stage_string_slots(ctx: Ctx):
    """models/SlotEscape.v slot_escape == the text real sub() writes into a `__FST_` slot inside a string constant, for captures whose SOURCE holds quotes of both kinds,
    backslashes, raw tabs / newlines / form feeds / other non-printables; and Python's evaluation of the resulting literal gives back the capture's source"""
    import fst
    from fst.match import M, MAssign
    quotes = ["'", '"', "'''", '"""']
    terms, meta = [], []
    for cap in STRING_SLOT_CAPTURES:
        try:
            ast.parse('v = ' + cap)
        except SyntaxError as e:
            ctx.broken.append({'kind': 'harness', 'name': 'string_slots', 'detail': f'{cap!r}: {e}'})
            continue
        for q in quotes:
            for pre, post in (('', ''), ('x ', ' y'), ('\\\\', '.')):
                root = fst.FST('v = ' + cap + '\n', 'exec')
                template = f'g({q}{pre}__FST_c{post}{q})'
                rec = {'capture': cap, 'template': template}
                try:
                    root.sub(MAssign(value=M(c=...)), 'v = ' + template)
                except Exception as e:
                    ctx.violation(f'string-slot-raise|{type(e).__name__}', 'sub() raised on a slot inside a string constant', {**rec, 'error': repr(e)[:200]})
                    continue
                ctx.tick(('string-slot', cap, q, pre), 'sub:string-slot')
                after = root.src
                try:
                    lit = ast.parse(after).body[0].value.args[0]
                    value = lit.value
                except Exception as e:
                    ctx.violation('string-slot-unparsable', 'the source after filling a slot inside a string constant does not parse', {**rec, 'after': after})
                    continue
                want = ast.literal_eval(f'{q}{pre}{q}') + cap + ast.literal_eval(f'{q}{post}{q}')
                if value != want:
                    ctx.violation('sub-struct|string-slot-source', 'the string written by sub() does not read back as the template text with the source of the capture in the slot',
                                  {**rec, 'after': after, 'evaluates_to': value, 'expected': want})
                    continue
                # the text put for the slot: between the literal's opening quotes + pre and post + closing quotes
                seg = ast.get_source_segment(after, lit)
                inner = seg[len(q) + len(pre):len(seg) - len(q) - len(post)]
                real = _syms_escaped(inner)
                if real is None:
                    ctx.broken.append({'kind': 'harness', 'name': 'string_slots', 'detail': f'cannot read escapes of {inner!r}'})
                    continue
                src_syms = '[' + '; '.join(_sym_plain(ch) for ch in cap) + ']'
                terms.append(f'ps_eqb (slot_escape {src_syms}) [' + '; '.join(real) + ']')
                meta.append({**rec, 'written': inner})
    # the same slot inside the literal part of an f-string (curly braces of the capture are text there) and inside a bytes constant (which cannot hold non-ASCII text)
    for cap in STRING_SLOT_CAPTURES + ['{1: 2}', '{a}', '{}', 'f"{a}"', '"{"', "'é{ü}'", '{é: [ü]}']:
        try:
            ast.parse('v = ' + cap)
        except SyntaxError:
            continue
        for q in quotes:
            for kind, template, nvals in (('fstring', f'g(f{q}x __FST_c {{z}} y{q})', 3), ('fstring-spec', f'g(f{q}{{z:>__FST_c}}{q})', 1), ('bytes', f'g(b{q}x __FST_c y{q})', 0), ('bytes-concat', f'g(b{q}__FST_c{q} b{q}q{q})', 0)):
                if kind == 'fstring-spec' and ('\n' in cap or '\\' in cap or q[0] in cap or '{' in cap or '}' in cap):
                    continue        # a format spec has no way to write a literal curly brace
                root = fst.FST('v = ' + cap + '\n', 'exec')
                rec = {'capture': cap, 'template': template}
                try:
                    root.sub(MAssign(value=M(c=...)), 'v = ' + template)
                except Exception as e:
                    ctx.violation(f'string-slot-raise|{kind}|{type(e).__name__}', 'sub() raised on a slot inside a string constant', {**rec, 'error': repr(e)[:200]})
                    continue
                ctx.tick(('string-slot', kind, cap, q), 'sub:string-slot:' + kind)
                after = root.src
                try:
                    lit = ast.parse(after).body[0].value.args[0]
                except Exception as e:
                    ctx.violation(f'string-slot-unparsable|{kind}', 'the source after filling a slot inside a string constant does not parse', {**rec, 'after': after, 'error': repr(e)[:120]})
                    continue
                if kind.startswith('bytes'):
                    want = b'x ' + cap.encode() + b' y' if kind == 'bytes' else cap.encode() + b'q'
                    ok = isinstance(lit, ast.Constant) and lit.value == want
                    got = getattr(lit, 'value', None)
                elif kind == 'fstring':
                    ok = isinstance(lit, ast.JoinedStr) and len(lit.values) == 3 and isinstance(lit.values[0], ast.Constant) and lit.values[0].value == 'x ' + cap + ' ' and \
                        isinstance(lit.values[1], ast.FormattedValue) and isinstance(lit.values[2], ast.Constant)
                    got = ast.dump(lit)[:200]
                    want = 'x ' + cap + ' '
                else:
                    fv = lit.values[0] if isinstance(lit, ast.JoinedStr) and len(lit.values) == 1 else None
                    spec = fv.format_spec if isinstance(fv, ast.FormattedValue) else None
                    ok = spec is not None and len(spec.values) == 1 and isinstance(spec.values[0], ast.Constant) and spec.values[0].value == '>' + cap
                    got = ast.dump(lit)[:200]
                    want = '>' + cap
                if not ok:
                    ctx.violation(f'sub-struct|string-slot-source|{kind}', 'the literal written by sub() does not read back as the template with the source of the capture as text in the slot',
                                  {**rec, 'after': after, 'reads_back_as': repr(got), 'expected_text': repr(want)})
    failed = coq_eval_bools('C18_slotesc', EHDR, terms, shard=60)
    ctx.correspondence('models/SlotEscape.v slot_escape == the text real sub() writes for a slot inside a string constant (captures with quotes, backslashes, raw control and non-printable characters; four quote styles)',
                       len(terms), [meta[i] for i in failed])


ARGSLOT_PROGS = ['def f(a, b=1): pass', 'def f(*, c): pass', 'def f(p, /, q): pass', 'def f(*v): pass', 'def f(**k): pass', 'def f(a, *v, c=2, **k): pass', 'def f(): pass', 'def f(a: int = 3, /): pass',
                 'def f(é, /, ü: "t" = None, *, ö=(1, 2)): pass']
ARGSLOT_TEMPLATES = ['def g(__FST_A, y): ...', 'def g(x, __FST_A): ...', 'def g(*__FST_A, y): ...', 'def g(x, *__FST_A): ...', 'def g(x, **__FST_A): ...', 'def g(x, /, __FST_A): ...', 'def g(*, __FST_A, y): ...',
                     'def g(__FST_A): ...', 'def g(x, *, y, **__FST_A): ...', 'def g(__FST_A, /, y): ...', 'def g(x=0, *__FST_A, y=1): ...', 'def g(*__FST_A): ...', 'def g(**__FST_A): ...']


def _param_rows(args: ast.arguments):
    d = lambda n: None if n is None else ast.dump(n)
    rows = []
    pos = args.posonlyargs + args.args
    defs = [None] * (len(pos) - len(args.defaults)) + list(args.defaults)
    for a, df, kind in zip(pos, defs, ['posonly'] * len(args.posonlyargs) + ['arg'] * len(args.args)):
        rows.append((a.arg, kind, d(a.annotation), d(df)))
    if args.vararg:
        rows.append((args.vararg.arg, 'vararg', d(args.vararg.annotation), None))
    for a, df in zip(args.kwonlyargs, args.kw_defaults):
        rows.append((a.arg, 'kwonly', d(a.annotation), d(df)))
    if args.kwarg:
        rows.append((args.kwarg.arg, 'kwarg', d(args.kwarg.annotation), None))
    return rows


def stage_arguments_slots(ctx: Ctx):
    """deterministic: a captured `arguments` node put into a slot of a template parameter list, the slot in every position (plain, behind `/`, behind `*`, as `*slot`, as `**slot`, alone)
    x parameter lists of every kind: the result parses to the live tree, every template parameter is still there with its kind, every captured parameter is there with its name, annotation and
    default, in order at the slot; its KIND is the slot's for a plain slot (posonly / normal / keyword-only; *v and **k stay what they are) and UNCHANGED for a `*slot` / `**slot` / a lone slot;
    a refusal leaves the source as it was"""
    import fst
    from fst.match import MFunctionDef, M
    for tpl in ARGSLOT_TEMPLATES:
        ta = ast.parse(tpl).body[0].args
        trow = _param_rows(ta)
        slot = next(r for r in trow if r[0] == '__FST_A')
        alone = len(trow) == 1
        for src in ARGSLOT_PROGS:
            root = fst.FST(src, 'exec')
            cap = _param_rows(root.a.body[0].args)
            rec = {'src': src, 'template': tpl}
            try:
                root.sub(MFunctionDef(args=M(A=...)), tpl)
                err = None
            except Exception as e:
                err = e
            ctx.tick(('argslot', tpl, src), 'argslot:' + ('refused' if err is not None else 'done'))
            if err is not None:
                if root.src != src:
                    ctx.violation(f'sub-args-slot|refused-but-changed|{slot[1]}', 'sub() refused an arguments slot but changed the source', {**rec, 'error': repr(err)[:200], 'after': root.src})
                elif type(err).__name__ not in ('NodeError', 'ValueError', 'SyntaxError', 'ParseError'):
                    ctx.violation(f'sub-args-slot|raise|{type(err).__name__}', 'sub() with an arguments slot raised an internal error', {**rec, 'error': repr(err)[:200]})
                continue
            d = reparse_diffs(root)
            if d:
                ctx.violation(f'sub-c01|args-slot|{slot[1]}', 'after sub() with an arguments slot the tree differs from the parse of the source', {**rec, 'result': root.src, 'diffs': d[:4]})
                continue
            got = _param_rows(root.a.body[0].args)
            want = []
            for r in trow:
                if r[0] != '__FST_A':
                    want.append(r)
                    continue
                for c in cap:
                    kind = c[1] if (alone or slot[1] in ('vararg', 'kwarg') or c[1] in ('vararg', 'kwarg')) else slot[1]
                    want.append((c[0], kind, c[2], c[3]))
            plain = not (alone or slot[1] in ('vararg', 'kwarg'))
            capk = {c[0]: c[1] for c in cap}
            same = lambda x, y: x == y or (plain and x[0] == y[0] and x[2:] == y[2:] and x[0] in capk and x[1] in (capk[x[0]], slot[1]))   # a plain slot turns parameters into its own kind where it can ('pos_maybe'): either kind is accepted there
            if len(got) != len(want) or not all(same(x, y) for x, y in zip(got, want)):
                k = next((i for i, (x, y) in enumerate(zip(got, want)) if not same(x, y)), min(len(got), len(want)))
                ctx.violation(f'sub-struct|args-slot|{slot[1]}|{"kind" if k < min(len(got), len(want)) and got[k][0] == want[k][0] and got[k][2:] == want[k][2:] else "content"}',
                              'a captured parameter list put into a template slot: a parameter changed its kind (positional-only / normal / keyword-only) without being asked to, or its content',
                              {**rec, 'result': root.src, 'got': got[k] if k < len(got) else None, 'expected': want[k] if k < len(want) else None})


def run(ctx: Ctx):
    ctx.rule = ('corpus + generated programs x 16 scenarios (operand swap, re-shaping with single, slice and quantifier captures, unwrap, wrap the whole match, identity templates for '
                'several patterns) x nested / flat: FST.subn vs a pure-AST reference (matches decided per node of an untouched twin tree by FST.match, outermost first, template nodes '
                'never re-substituted); checked: C01 re-parse, structural equality with the reference, reported counts, comments outside substituted nodes kept. References that are not '
                'programs are skipped. distinct = (program, scenario, nested).')
    ctx.assumptions += ['FST.match decides which nodes match (C17)', 'ast.unparse/parse round trip decides that the reference result is a program']
    ok = stage_translate(ctx)
    if ok:
        ctx.build_props()
    progs = corpus(ctx.rng, gen=ctx.scale(20, 150))
    run_guarded(ctx, stage_oracle, progs)
    run_guarded(ctx, stage_loop)
    run_guarded(ctx, stage_slots)
    run_guarded(ctx, stage_string_slots)
    run_guarded(ctx, stage_arguments_slots)
    run_guarded(ctx, stage_corr, progs)


def replay(path):
    d = json.load(open(path))
    print(json.dumps(d, indent=1)[:6000])
    return 0
