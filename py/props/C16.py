"""C16 - Scope analysis agrees with Python's own symbol table."""

from __future__ import annotations

import ast
import json
import symtable
import warnings

from lib.common import *
from lib.progs import corpus
from props.C11 import stage_translate

warnings.simplefilter('ignore', SyntaxWarning)

LEVEL = 'proof'
HDR = ('From Coq Require Import List Bool Arith.\nFrom PF Require Import models.Scope.\nImport ListNotations.\n'
       'Fixpoint insb (x : nat) (l : list nat) : bool := match l with [] => false | y :: r => Nat.eqb x y || insb x r end.\n'
       'Definition seteq (a b : list nat) : bool := forallb (fun x => insb x b) a && forallb (fun x => insb x a) b.\n')

FUNCS = (ast.FunctionDef, ast.AsyncFunctionDef)
COMPS = (ast.ListComp, ast.SetComp, ast.DictComp, ast.GeneratorExp)
SCOPES = FUNCS + (ast.ClassDef, ast.Lambda) + COMPS

SCOPE_PROGS = [
    'def f(z):\n    return list((lambda: (y := 1)) for x in z)\n',
    'def f(z):\n    a = [(lambda q=(d := 1): (b := q)) for x in z]\n    return [lambda: [(v := x) for x in z] for _ in z], {k: (lambda: (m := k)) for k in z}\n',
    'def cleanup(registry):\n    use(handle, stale)\n    del stale\n    del only_deleted\n    return sum(v for v in {k: w for k, w in registry})\n',
    'def f(a, b=D1, *, c: A1 = D2) -> R1:\n    x = a + g\n    def inner(q=x): return q + a\n    return inner\n',
    '@deco(arg)\nclass K(Base, metaclass=M):\n    attr = 1\n    def m(self, v=attr): return attr, v\n',
    'r = [w := i for i in outer_it if (z := i) > lim for j in i]\n',
    'def f():\n    return [[(t := x) for x in row] for row in (s := grid)]\n',
    'lam = lambda p, q=dflt: (p, q, free)\n',
    'def f():\n    global G\n    G = 1\n    def g():\n        nonlocal_ = 2\n        def h():\n            nonlocal nonlocal_\n            nonlocal_ += 1\n            return G\n        return h\n    return g\n',
    'try:\n    import os.path as osp, sys\n    from m import n as k, o\nexcept (E1, E2) as exc:\n    del exc\nelse:\n    with ctx() as (cm, cn): pass\n',
    'match subj:\n    case [a, *rest]:\n        u = a\n    case {"k": v, **kw}:\n        u = v\n    case Cls(attr=cap) as whole:\n        u = cap\n    case _:\n        pass\n',
    'for i, (j, k) in pairs:\n    tot += i\nelse:\n    del tot\nasync def co():\n    async with a as b:\n        async for c in d:\n            await c\n',
    'def gen(n):\n    yield from (i * n for i in range(n) if i % m)\nclass Outer:\n    x = 1\n    y = [x for _ in range(3)]\n    def meth(self): return __class__\n',
    'def dflt(a=[i for i in range(top)], b={k: v for k, v in kv}):\n    return {e for e in a if e in b}\n',
    'x: int = 5\ny: "ann" = x\ndef f(p: T1, *args: T2, **kw: T3) -> T4:\n    z: local_ann = p\n    return z\n',
    'def outer():\n    v = 1\n    class C:\n        v = v + 1\n        def m(self):\n            return v\n    return C\n',
    'lambda: (yield)\nl2 = lambda *a, **k: [a for a in k if (q := a)]\n',
    'import a.b.c\nimport x.y as xy, z.w.v.u\nfrom p.q.r import s\ndef f():\n    import m.n.o\n    return a, xy, z, s, m\n',
    'def f():\n    g = lambda p=pdef, *, k1=kdef1, k2=kdef2, **kw: (p, k1, k2, free)\n    h = lambda *, only=konly: only\n    return g, h\n',
    # the name `_`: a real binding as an exception capture, an assignment target, a loop variable, a parameter; the wildcard (no binding) in patterns
    'def f(v):\n    try:\n        g()\n    except E1 as _:\n        h(_)\n    except E2 as _e:\n        pass\n    match v:\n        case [_, *_]:\n            pass\n        case {"k": _, **_r}:\n            pass\n        case C(_, a=_) as _w:\n            pass\n    return _\n',
    'def f(v):\n    match v:\n        case [_, *_] | (_ as _):\n            pass\n' if False else 'def f(v):\n    for _ in v:\n        pass\n    with v as _:\n        pass\n    return [_ for _ in v], (lambda _: _), _\n',
    'try:\n    pass\nexcept* E as _:\n    use(_)\n',
    # names declared global / nonlocal and only READ (or only deleted) in the scope
    'def f():\n    global g\n    return g\n', 'def o():\n    v = 1\n    def i():\n        nonlocal v\n        return v\n    return i\n', 'class K:\n    global q\n    r = q\n',
    'def f():\n    global g, h\n    del g\n    return h, j\n',
    'class C(B1, B2, metaclass=Meta, **kwbase):\n    def m(self, a: Ann1 = Dflt1, /, b=Dflt2, *va: Ann2, c: Ann3 = Dflt3, **kw: Ann4) -> Ret: return a\n',
]


# ---- the property's own membership rule, as an encoder into models/Scope.v ------------------------------------------
def _header_zoo():
    """nested scopes whose headers hold every combination of the parts that belong to the ENCLOSING scope: parameter annotations and defaults of every parameter kind
    (with and without default, in every position), return annotation, decorators, class bases / keywords / ** in every combination, lambda defaults"""
    out = []
    params = ['a: A1', 'b: A2 = d2', 'c = d3', '/', 'e: A4', '*v: A5', 'f: A6', 'g: A7 = d7', 'h = d8', 'i: A9', '**k: A10']
    forms = ['a: A1, b: A2 = d2', 'a: A1, /, e: A4', '*, f: A6, g: A7 = d7, i: A9', '*v: A5, f: A6, h = d8, i: A9', '*, f: A6', '*, g: A7 = d7', '*, f: A6, i: A9', '**k: A10',
             'a: A1, /, e: A4 = d4, *v: A5, f: A6, g: A7 = d7, **k: A10', 'c = d3, *, h = d8', '*v, f, g = d7, i', 'a, /, *, f']
    for i, fm in enumerate(forms):
        out.append(f'def outer{i}(x):\n    @dec{i}(x)\n    def inner({fm}) -> R{i}:\n        return loc\n    async def ainner({fm}):\n        pass\n    return inner\n')
        if ':' not in fm:
            out.append(f'def outerl{i}(x):\n    return lambda {fm}: body_name\n')
    heads = ['', '()', '(B1)', '(B1, B2)', '(metaclass=Meta)', '(metaclass=Meta, registry=reg, **extra_kw)', '(B1, metaclass=Meta)', '(*bases)', '(*bases, k=kv)', '(k=kv, *bases)', '(B1, *bases, k=kv, **kw)', '(**kw)']
    for i, h in enumerate(heads):
        out.append(f'def outerc{i}(x):\n    @cdec{i}\n    class Inner{h}:\n        attr = inside\n    return Inner\n')
        out.append(f'class Outer{i}:\n    class Inner{h}:\n        attr = inside\n')
    out.append('def outerg(xs):\n    return [e for e in first_it(xs) if c1 for f in second_it], {k: v for k, v in items if k}, (g for g in (h for h in inner_first))\n')
    return out


def split_parts(a):
    """(outer children, inner children) of a scope-opening AST node; children may be re-parented to the scope node"""
    kids = list(ast.iter_child_nodes(a))
    if isinstance(a, FUNCS + (ast.Lambda,)):
        args = a.args
        outer = list(getattr(a, 'decorator_list', [])) + ([a.returns] if getattr(a, 'returns', None) else [])
        outer += [d for d in args.defaults] + [d for d in args.kw_defaults if d is not None]
        allargs = args.posonlyargs + args.args + ([args.vararg] if args.vararg else []) + args.kwonlyargs + ([args.kwarg] if args.kwarg else [])
        outer += [x.annotation for x in allargs if x.annotation is not None]
        inner = [args] + (a.body if isinstance(a.body, list) else [a.body])
        return outer, inner, {'args_node': args, 'allargs': allargs}
    if isinstance(a, ast.ClassDef):
        return list(a.decorator_list) + list(a.bases) + list(a.keywords), list(a.body), {}
    if isinstance(a, COMPS):
        g0 = a.generators[0]
        elts = [a.key, a.value] if isinstance(a, ast.DictComp) else [a.elt]
        return [g0.iter], elts + list(a.generators), {'g0': g0}
    raise AssertionError


def encode(a, ids, walrus_ids, special=None):
    """SN term of node a; `special` lets a scope node strip parts from its descendants that were re-parented"""
    i = ids[id(a)]
    w = 'true' if id(a) in walrus_ids else 'false'
    enc = lambda n: encode(n, ids, walrus_ids)
    if isinstance(a, SCOPES) and not getattr(a, 'type_params', None):
        outer, inner, info = split_parts(a)
        comp = isinstance(a, COMPS)
        inner_terms = []
        for n in inner:
            if info.get('args_node') is n:
                # arguments node: only the arg nodes (annotations / defaults were taken out)
                at = [f'SN {ids[id(x)]} KPlain false [] []' for x in info['allargs']]
                inner_terms.append(f'SN {ids[id(n)]} KPlain false [{"; ".join(at)}] []')
            elif info.get('g0') is n:
                sub = [n.target] + list(n.ifs)
                inner_terms.append(f'SN {ids[id(n)]} KPlain false [{"; ".join(enc(x) for x in sub)}] []')
            else:
                inner_terms.append(enc(n))
        return f'SN {i} (KScope {"true" if comp else "false"}) {w} [{"; ".join(enc(n) for n in outer)}] [{"; ".join(inner_terms)}]'
    return f'SN {i} KPlain {w} [{"; ".join(enc(n) for n in ast.iter_child_nodes(a))}] []'


def stage_scope_walk(ctx: Ctx, progs):
    import fst
    rng = ctx.rng
    terms, meta = [], []
    for src in progs:
        try:
            root = fst.FST(src, 'exec')
        except Exception:
            continue
        if any(getattr(n, 'type_params', None) for n in ast.walk(root.a)) or any(isinstance(n, ast.TypeAlias) for n in ast.walk(root.a)):
            continue      # annotation scopes of PEP 695 are outside the modelled rule
        ids = {id(n): k for k, n in enumerate(ast.walk(root.a))}
        walrus = {id(n.target) for n in ast.walk(root.a) if isinstance(n, ast.NamedExpr)}
        walrus |= {id(n.target.ctx) for n in ast.walk(root.a) if isinstance(n, ast.NamedExpr)}     # the target's ctx node is yielded with it
        scopes = [n for n in ast.walk(root.a) if isinstance(n, SCOPES)]
        # module scope: treat the Module as a function-like scope whose inner part is its body
        mod_term = f'SN {ids[id(root.a)]} (KScope false) false [] [{"; ".join(encode(n, ids, walrus) for n in root.a.body)}]'
        cases = [(root, mod_term)] + [(n.f, encode(n, ids, walrus)) for n in scopes]
        for f, term in cases:
            real = sorted(ids[id(g.a)] for g in f.walk(True, scope=True, self_=False))
            ctx.tick(('scopewalk', src, ids[id(f.a)]), 'scope:' + type(f.a).__name__)
            terms.append(f'seteq (own ({term})) [{"; ".join(map(str, real))}]')
            meta.append({'src': src, 'scope': repr(f), 'real_ids': real})
            if len(real) != len(set(real)):
                ctx.violation(f'scope-walk-dup|{type(f.a).__name__}', 'the scope walk yielded a node twice', {'src': src, 'scope': repr(f)})
    failed = coq_eval_bools('C16_walk', HDR, terms, shard=150)
    ctx.correspondence('models/Scope.v own (encoded tree, rule = decorators/defaults/annotations/bases/first iterable outside, walrus hoisted) == node set of walk(True, scope=True, self_=False) '
                       'from every scope root', len(terms), [meta[i] for i in failed])


# ---- symtable oracle ------------------------------------------------------------------------------------------------
IMPLICIT = ('__class__', '__classdict__', '__classcell__', '__conditional_annotations__')


def table_for(tables, node):
    """the symtable of an AST scope node: same kind, name and line"""
    kind = ('function' if isinstance(node, FUNCS + (ast.Lambda,) + COMPS) else 'class')
    name = (node.name if isinstance(node, FUNCS + (ast.ClassDef,)) else 'lambda' if isinstance(node, ast.Lambda) else
            {'ListComp': 'listcomp', 'SetComp': 'setcomp', 'DictComp': 'dictcomp', 'GeneratorExp': 'genexpr'}[type(node).__name__])
    cands = [t for t in tables if t.get_type() == kind and t.get_name() == name and t.get_lineno() == node.lineno]
    return cands


def all_tables(t):
    out = [t]
    for c in t.get_children():
        out += all_tables(c)
    return out


def names_by_rule(f):
    """names that syntactically occur in the scope of f under the property's rule (independent walk over the AST):
    (all names, names in global statements, names in nonlocal statements)"""
    a = f.a
    names, gl, nl = set(), set(), set()
    aug, wal = set(), set()

    def take(n):
        if isinstance(n, ast.AugAssign) and isinstance(n.target, ast.Name):
            aug.add(n.target.id)
        if isinstance(n, ast.Name):
            names.add(n.id)
        elif isinstance(n, ast.arg):
            names.add(n.arg)
        elif isinstance(n, FUNCS + (ast.ClassDef,)):
            names.add(n.name)
        elif isinstance(n, ast.alias):
            if n.name != '*':
                names.add(n.asname or n.name.split('.')[0])
        elif isinstance(n, ast.ExceptHandler) and n.name:
            names.add(n.name)
        elif isinstance(n, (ast.MatchAs, ast.MatchStar)) and n.name:
            names.add(n.name)
        elif isinstance(n, ast.MatchMapping) and n.rest:
            names.add(n.rest)
        elif isinstance(n, ast.Global):
            names.update(n.names); gl.update(n.names)
        elif isinstance(n, ast.Nonlocal):
            names.update(n.names); nl.update(n.names)

    def visit(n, in_comp_chain):
        take(n)
        if isinstance(n, SCOPES):
            outer, inner, info = split_parts(n)
            for c in outer:
                visit(c, in_comp_chain)
            if isinstance(n, COMPS):
                def hoisted(m):          # walrus targets of the comprehension, through nested comprehensions but not into the body of a lambda (its own function scope)
                    if isinstance(m, ast.NamedExpr) and isinstance(m.target, ast.Name):
                        names.add(m.target.id)
                        wal.add(m.target.id)
                    for c in ast.iter_child_nodes(m):
                        if isinstance(m, ast.Lambda) and c is m.body:
                            continue
                        hoisted(c)
                hoisted(n)
            return
        for c in ast.iter_child_nodes(n):
            visit(c, in_comp_chain)

    if isinstance(a, SCOPES):
        outer, inner, info = split_parts(a)
        for n in inner:
            if info.get('args_node') is n:
                for x in info['allargs']:
                    take(x)
            elif info.get('g0') is n:
                for x in [n.target] + list(n.ifs):
                    visit(x, True)
            else:
                visit(n, isinstance(a, COMPS))
    else:
        for n in ast.iter_child_nodes(a):
            visit(n, False)
    return names, gl, nl, aug, wal


def stage_symbols(ctx: Ctx, progs):
    import fst
    for src in progs:
        try:
            top = symtable.symtable(src, '<c16>', 'exec')
            root = fst.FST(src, 'exec')
        except Exception:
            continue
        if any(getattr(n, 'type_params', None) for n in ast.walk(root.a)) or any(isinstance(n, ast.TypeAlias) for n in ast.walk(root.a)):
            continue
        tables = all_tables(top)
        pairs = [(root, top)]
        for n in ast.walk(root.a):
            if isinstance(n, SCOPES):
                c = table_for(tables, n)
                if len(c) == 1:
                    pairs.append((n.f, c[0]))
        for f, tab in pairs:
            try:
                got = f.scope_symbols(full=True)
            except Exception as e:
                ctx.violation(f'scope_symbols-raise|{type(f.a).__name__}', 'scope_symbols() raised', {'src': src, 'scope': repr(f), 'error': repr(e)[:300]})
                continue
            rule_names, rule_gl, rule_nl, rule_aug, rule_wal = names_by_rule(f)
            syms = [s for s in tab.get_symbols() if not s.get_name().startswith('.') and (s.get_name() not in IMPLICIT or s.get_name() in rule_names)]
            is_comp = isinstance(f.a, COMPS)
            want = {
                'load': {s.get_name() for s in syms if s.is_referenced()},
                'store_or_del': {s.get_name() for s in syms if s.is_assigned() or s.is_parameter() or s.is_imported()},
                'global': {s.get_name() for s in syms if s.is_declared_global()},
                'nonlocal': {s.get_name() for s in syms if s.is_nonlocal() and not is_comp},
            }
            # CPython 3.12 merges the symbols of inlined comprehensions into the enclosing table and marks module symbols
            # that some nested function declares global: only names that occur in this scope by the rule are compared
            want = {k: v & rule_names for k, v in want.items()}
            want['global'] &= rule_gl
            want['nonlocal'] &= rule_nl
            want['store_or_del'] |= rule_wal          # walrus targets hoisted out of (inlined) comprehensions are bound here
            want['load'] |= (rule_aug & want['store_or_del'])   # documented: an augmented target is reported as loaded too
            have = {
                'load': set(got['load']),
                'store_or_del': set(got['store']) | set(got['del']),
                'global': set(got['global']),
                'nonlocal': set(got['nonlocal']),
            }
            # an AugAssign target is both; a name that is only deleted is "assigned" for the compiler
            ctx.tick(('syms', src, repr(f)), 'symbols:' + type(f.a).__name__)
            if is_comp:
                # walrus targets: stored in an enclosing scope, the comprehension's table lists them as nonlocal/free
                w = {n.target.id for n in ast.walk(f.a) if isinstance(n, ast.NamedExpr)}
                have['store_or_del'] -= w
                want['store_or_del'] -= w
            for k in want:
                if want[k] != have[k]:
                    miss = sorted(want[k] - have[k])
                    extra = sorted(have[k] - want[k])
                    what = 'exception-name' if any(isinstance(n, ast.ExceptHandler) and n.name in miss for n in ast.walk(f.a)) else \
                           'pattern-capture' if any(isinstance(n, (ast.MatchAs, ast.MatchStar)) and n.name in miss or isinstance(n, ast.MatchMapping) and n.rest in miss for n in ast.walk(f.a)) else 'names'
                    ctx.violation(f'symbols|{k}|{what}|{type(f.a).__name__}', 'scope_symbols() disagrees with the compiler\'s symbol table for this scope',
                                  {'src': src, 'scope': repr(f), 'category': k, 'missing': miss, 'extra': extra})
                    break
            else:
                # local / free classification
                wl = {s.get_name() for s in syms if s.is_local() and (s.is_assigned() or s.is_parameter() or s.is_imported())} & rule_names
                hl = set(got['local'])
                only_del = set(got['del']) - set(got['store'])
                if is_comp:
                    hl -= w
                if wl - only_del != hl - only_del and not isinstance(f.a, ast.Module) and not isinstance(f.a, ast.ClassDef):
                    ctx.violation(f'symbols|local|{type(f.a).__name__}', 'the local classification disagrees with the symbol table',
                                  {'src': src, 'scope': repr(f), 'missing': sorted(wl - hl), 'extra': sorted(hl - wl)})
                wf = {s.get_name() for s in syms if s.is_referenced() and not (s.is_assigned() or s.is_parameter() or s.is_imported()) and not s.get_name() in rule_gl and not s.get_name() in rule_nl} & rule_names
                if isinstance(f.a, ast.Module):
                    # CPython 3.12 records a walrus target hoisted out of a module-level comprehension as "declared global, not assigned" in the module's table: it IS bound there
                    wf -= {n_.target.id for c_ in ast.walk(f.a) if isinstance(c_, (ast.ListComp, ast.SetComp, ast.DictComp, ast.GeneratorExp)) for n_ in ast.walk(c_) if isinstance(n_, ast.NamedExpr)}
                hf = set(got['free'])
                if is_comp:
                    wf -= w
                    hf -= w
                if wf != hf:
                    ctx.violation(f'symbols|free|{type(f.a).__name__}', 'the free (implicitly nonlocal) classification disagrees with the symbol table',
                                  {'src': src, 'scope': repr(f), 'missing': sorted(wf - hf), 'extra': sorted(hf - wf)})


SHDR = ('From Coq Require Import List Bool Arith.\nFrom PF Require Import models.Symbols.\nImport ListNotations.\n'
        'Fixpoint nl_eqb (a b : list nat) : bool := match a, b with [], [] => true | x :: a\', y :: b\' => Nat.eqb x y && nl_eqb a\' b\' | _, _ => false end.\n')


def scope_events(f):
    """(kind, name) events of the nodes of the scope of f in walk order, derived independently of scope_symbols from the node set of the scope walk"""
    is_comp = isinstance(f.a, COMPS)
    evs = []
    for g in f.walk(True, scope=True):
        a = g.a
        if isinstance(a, ast.Name):
            if isinstance(a.ctx, ast.Load):
                evs.append(('KLoad', a.id))
            elif isinstance(a.ctx, ast.Del):
                evs.append(('KDel', a.id))
            elif is_comp and g.parent is not None and isinstance(g.parent.a, ast.NamedExpr) and g.pfield.name == 'target':
                evs.append(('KWalrus', a.id))
            else:
                evs.append(('KStore', a.id))
        elif isinstance(a, ast.arg):
            evs.append(('KStore', a.arg))
        elif isinstance(a, (ast.FunctionDef, ast.AsyncFunctionDef, ast.ClassDef)):
            if a is not f.a:
                evs.append(('KStore', a.name))
        elif isinstance(a, ast.AugAssign):
            if isinstance(a.target, ast.Name):
                evs.append(('KLoad', a.target.id))
        elif isinstance(a, ast.Import):
            for al in a.names:
                evs.append(('KStore', al.asname or al.name.split('.', 1)[0]))
        elif isinstance(a, ast.ImportFrom):
            if not (len(a.names) == 1 and a.names[0].name == '*'):
                for al in a.names:
                    evs.append(('KStore', al.asname or al.name))
        elif isinstance(a, (ast.TypeVar, ast.ParamSpec, ast.TypeVarTuple)):
            evs.append(('KStore', a.name))
        elif isinstance(a, (ast.ExceptHandler, ast.MatchAs, ast.MatchStar)):
            if a.name:
                evs.append(('KStore', a.name))
        elif isinstance(a, ast.MatchMapping):
            if a.rest:
                evs.append(('KStore', a.rest))
        elif isinstance(a, ast.Global):
            evs += [('KGlobal', n) for n in a.names]
        elif isinstance(a, ast.Nonlocal):
            evs += [('KNonlocal', n) for n in a.names]
    return is_comp, evs


def stage_symbols_model(ctx: Ctx, progs):
    """models/Symbols.v classify == scope_symbols(full=True): the seven dictionaries, key by key IN ORDER, for every scope root of the programs"""
    import fst
    terms, meta = [], []
    for src in progs:
        try:
            root = fst.FST(src, 'exec')
        except Exception:
            continue
        scopes = [root] + [n.f for n in ast.walk(root.a) if isinstance(n, SCOPES)]
        for f in scopes[:ctx.scale(12, 200)]:
            try:
                got = f.scope_symbols(full=True)
                is_comp, evs = scope_events(f)
            except Exception as e:
                ctx.violation(f'scope_symbols-raise|{type(f.a).__name__}', 'scope_symbols() raised', {'src': src, 'scope': repr(f), 'error': repr(e)[:300]})
                continue
            if len(evs) > 250:
                continue
            ids = {}
            for _, n in evs:
                ids.setdefault(n, len(ids))
            for cat in got.values():
                for n in cat:
                    ids.setdefault(n, len(ids))
            lst = lambda names: '[' + '; '.join(str(ids[n]) for n in names) + ']'
            ev_l = '[' + '; '.join(f'({k}, {ids[n]})' for k, n in evs) + ']'
            fields = [('s_load', 'load'), ('s_store', 'store'), ('s_del', 'del'), ('s_global', 'global'), ('s_nonlocal', 'nonlocal'), ('s_local', 'local'), ('s_free', 'free')]
            terms.append(f'let s := classify {cbool(is_comp)} {ev_l} in ' + ' && '.join(f'nl_eqb ({c} s) {lst(list(got[k]))}' for c, k in fields))
            meta.append({'src': src, 'scope': repr(f), 'comprehension_root': is_comp, 'events': evs, 'real': {k: list(v) for k, v in got.items()}})
            ctx.tick(('syms-model', src, repr(f)), 'symbols-model:' + type(f.a).__name__)
    failed = coq_eval_bools('C16_symbols', SHDR, terms, shard=60)
    ctx.correspondence('models/Symbols.v classify (events re-derived from the scope walk) == the seven dictionaries of scope_symbols(full=True), keys in insertion order', len(terms), [meta[i] for i in failed])


def stage_scope_variants(ctx: Ctx, progs):
    """(a) the scope walk yields its nodes in the order of the plain walk (forwards, and backwards with back=True) - it only leaves nodes out; (b) each dictionary of
    scope_symbols(full=True) is the same whichever of the optional ones (`local`, `free`) are asked for as well"""
    import fst
    extra = ['r = [i for a in b if c if d for e in g if h if j]\n', 's = {k: v for k in b if c if d if e}\n', 't = [i := a for a in b if (j := i)]\n',
             'u = list((w := x) for x in y if x if w for z in x if z if w)\n', 'def f(a=[q for q in r if s if t]):\n    return {a for a in a if a if f}\n']
    for src in extra + SCOPE_PROGS + list(progs[:ctx.scale(6, 40)]):
        try:
            root = fst.FST(src, 'exec')
        except Exception:
            continue
        scopes = [f for f in root.walk(True) if isinstance(f.a, (ast.Module, ast.ClassDef, ast.Lambda) + FUNCS + COMPS)]
        for sc in scopes:
            for back in (False, True):
                pos = {id(n): i for i, n in enumerate(sc.walk(True, back=back))}
                try:
                    got = [id(n) for n in sc.walk(True, scope=True, back=back)]
                except Exception as e:
                    ctx.violation(f'scope-walk-raise|{type(e).__name__}', 'the scope walk raised', {'src': src, 'scope': repr(sc), 'back': back, 'error': repr(e)[:200]})
                    continue
                ctx.tick(('scope-order', src, root.child_path(sc, True), back), 'scope:order')
                idx = [pos.get(k) for k in got]
                if None in idx or idx != sorted(idx) or len(set(idx)) != len(idx):
                    seq = [n.src[:20] for n in sc.walk(True, scope=True, back=back) if isinstance(n.a, ast.Name)]
                    ctx.violation(f'scope-walk-order|{type(sc.a).__name__}|back={back}', 'the scope walk does not yield its nodes in the order of the plain walk',
                                  {'src': src, 'scope': repr(sc), 'back': back, 'names_in_scope_walk_order': seq[:20]})
            try:
                full = sc.scope_symbols(full=True)
            except Exception as e:
                continue
            for kw in ({'free': False}, {'local': False}, {'free': False, 'local': False}):
                try:
                    part = sc.scope_symbols(full=True, **kw)
                except Exception as e:
                    ctx.violation(f'scope-symbols-raise|{type(e).__name__}', 'scope_symbols() raised', {'src': src, 'scope': repr(sc), 'kwargs': kw, 'error': repr(e)[:200]})
                    continue
                ctx.tick(('scope-variants', src, root.child_path(sc, True), repr(kw)), 'symbols:variants')
                for k_, d_ in part.items():
                    a_ = {n: [id(x) for x in v] for n, v in d_.items()}
                    b_ = {n: [id(x) for x in v] for n, v in full.get(k_, {}).items()}
                    if a_ != b_ or list(a_) != list(b_):
                        ctx.violation(f'symbols-variant|{k_}|{sorted(kw)}', f'the {k_!r} dictionary of scope_symbols(full=True) depends on which optional dictionaries are requested',
                                      {'src': src, 'scope': repr(sc), 'kwargs': kw, 'with_all': {n: [x.src for x in v] for n, v in full.get(k_, {}).items()},
                                       'got': {n: [x.src + ':' + type(getattr(x.a, "ctx", None)).__name__ for x in v] for n, v in d_.items()}})
                        break


def run(ctx: Ctx):
    ctx.rule = ('hand-written scope programs (nested functions/classes/lambdas/comprehensions, global/nonlocal, imports, augmented assignment, exception and pattern-capture names, '
                'annotations, defaults, decorators, walrus in nested comprehensions) + corpus + generated programs. (1) every scope root: node set of walk(True, scope=True, self_=False) '
                'vs the Coq scope walk on the encoded tree; (2) every scope: scope_symbols(full=True) vs the symtable module: load / store+del / global / nonlocal name sets, local and free. '
                'distinct = (program, scope). PEP 695 type-parameter scopes are skipped.')
    ctx.assumptions += ['symtable (CPython compiler) is the reference for names', 'the outer/inner split per node class used by the encoder is the rule stated in the property']
    ok = stage_translate(ctx)
    if ok:
        ctx.build_props()
    progs = SCOPE_PROGS + _header_zoo() + corpus(ctx.rng, gen=ctx.scale(30, 250))
    run_guarded(ctx, stage_scope_walk, progs)
    run_guarded(ctx, stage_symbols, progs)
    run_guarded(ctx, stage_symbols_model, progs)
    run_guarded(ctx, stage_scope_variants, progs)


def replay(path):
    d = json.load(open(path))
    print(json.dumps(d, indent=1)[:6000])
    return 0
