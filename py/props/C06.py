"""C06 - Every reported location denotes exactly the text of its node."""

from __future__ import annotations

import ast
import io
import json
import tokenize

from lib.common import *
from lib.progs import corpus
from props.C11 import stage_translate

LEVEL = 'proof'
HDR = ('From Coq Require Import List NArith Bool Arith.\nFrom PF Require Import kernel.PyBase kernel.Text models.Bistr.\nImport ListNotations.\n'
       'Fixpoint ln_eqb (a b : list nat) : bool := match a, b with [], [] => true | x :: a\', y :: b\' => Nat.eqb x y && ln_eqb a\' b\' | _, _ => false end.\n')

CHARS = ['a', ' ', '(', 'é', 'ü', 'ℵ', '€', '😀', '\t', '#', 'x', '日']


def stage_bistr(ctx: Ctx):
    from fst.astutil import bistr
    rng = ctx.rng
    terms, meta = [], []
    for it in range(ctx.scale(600, 10000)):
        n = rng.randrange(0, 10)
        s = ''.join(rng.choice(CHARS if rng.random() < 0.8 else ['a', 'b', ' ']) for _ in range(n))
        b = bistr(s)
        lb = len(s.encode())
        c2b = [b.c2b(i) for i in range(len(s) + 1)]
        b2c = [b.b2c(j) for j in range(lb + 1)]
        ctx.tick(('bistr', s), 'bistr:' + ('ascii' if s.isascii() else 'multibyte'))
        # the theorems' predicates on the real object
        enc = lambda k: len(s[:k].encode())
        why = None
        if c2b != [enc(i) for i in range(len(s) + 1)]:
            why = 'c2b is not the number of bytes before the character'
        elif any(b2c[c2b[i]] != i for i in range(len(s) + 1)):
            why = 'b2c(c2b(i)) != i'
        elif any(not (c2b[b2c[j]] <= j < c2b[b2c[j] + 1]) for j in range(lb)):
            why = 'b2c(j) is not the character containing byte j'
        elif b.lenbytes != lb:
            why = 'lenbytes wrong'
        if why:
            ctx.violation(f'bistr|{why}', 'character/byte coordinate maps disagree', {'string': s, 'c2b': c2b, 'b2c': b2c, 'why': why})
        terms.append(f'ln_eqb (c2b_array {cline(s)}) [{"; ".join(map(str, c2b))}] && ln_eqb (b2c_array {cline(s)}) [{"; ".join(map(str, b2c))}]')
        meta.append({'string': s, 'c2b': c2b, 'b2c': b2c})
    ctx.sample({'bistr_case': next(m for m in meta if not m['string'].isascii())})
    failed = coq_eval_bools('C06_bistr', HDR, terms, shard=800)
    ctx.correspondence('models/Bistr.v c2b_array/b2c_array == astutil.bistr.c2b/b2c at every index (random strings over 1-4 byte code points)', len(terms),
                       [meta[i] for i in failed])


# ---- oracle ---------------------------------------------------------------------------------------------------------

def inject_multibyte(src, rng):
    """rename some identifiers / string contents to non-ASCII so that byte and char columns differ"""
    import re
    names = {'a': 'ä', 'b': 'β', 'x': 'χ', 'foo': 'fö', 'bar': 'bär', 'c': 'ç'}
    def rep(m):
        w = m.group(0)
        return names.get(w, w) if rng.random() < 0.5 else w
    out = re.sub(r'\b[a-z_][a-z0-9_]*\b', rep, src)
    try:
        ast.parse(out)
        return out
    except SyntaxError:
        return src


def token_index(src):
    toks = []
    for t in tokenize.generate_tokens(io.StringIO(src).readline):
        if t.type in (tokenize.NL, tokenize.NEWLINE, tokenize.INDENT, tokenize.DEDENT, tokenize.ENDMARKER, tokenize.COMMENT):
            continue
        if '\n' in t.string:
            # CPython 3.12 tokenize miscomputes the end column of a multi-line token when its first line has multi-byte
            # characters before it: recompute the end from the token text
            parts = t.string.split('\n')
            t = t._replace(end=(t.start[0] + len(parts) - 1, len(parts[-1])))
        toks.append(t)
    return toks


def pars_count(toks, s, e):
    """number of balanced grouping parenthesis pairs immediately enclosing the token range that starts at s and ends at e"""
    starts = {(t.start[0] - 1, t.start[1]): i for i, t in enumerate(toks)}
    ends = {(t.end[0] - 1, t.end[1]): i for i, t in enumerate(toks)}
    if s not in starts or e not in ends:
        return None
    i, j = starts[s], ends[e]
    n = 0
    while i - 1 >= 0 and j + 1 < len(toks) and toks[i - 1].string == '(' and toks[j + 1].string == ')':
        # the pair must match each other: depth between them balanced
        depth = 0
        ok = True
        for t in toks[i:j + 1]:
            if t.string in '([{':
                depth += 1
            elif t.string in ')]}':
                depth -= 1
                if depth < 0:
                    ok = False
        if not ok or depth != 0:
            break
        n += 1
        i -= 1
        j += 1
    return n, (toks[i].start, toks[j].end)


OPS = {ast.Add: '+', ast.Sub: '-', ast.Mult: '*', ast.MatMult: '@', ast.Div: '/', ast.Mod: '%', ast.Pow: '**', ast.LShift: '<<', ast.RShift: '>>',
       ast.BitOr: '|', ast.BitXor: '^', ast.BitAnd: '&', ast.FloorDiv: '//', ast.Invert: '~', ast.Not: 'not', ast.UAdd: '+', ast.USub: '-',
       ast.Eq: '==', ast.NotEq: '!=', ast.Lt: '<', ast.LtE: '<=', ast.Gt: '>', ast.GtE: '>=', ast.Is: 'is', ast.IsNot: 'is not', ast.In: 'in',
       ast.NotIn: 'not in', ast.And: 'and', ast.Or: 'or'}


def debug_text_precedes_field(n):
    """n lies in (or is) a self-documenting f-string field whose text Constant - the sibling in FRONT of it in `values` - starts INSIDE the field (CPython's positions for
    f'{a = }': the field starts at the brace, its text right behind it): the order of the siblings is not the order of their positions"""
    while n is not None:
        if isinstance(n.a, ast.FormattedValue) and n.parent is not None and isinstance(n.parent.a, ast.JoinedStr):
            vals = n.parent.a.values
            i = vals.index(n.a)
            if i and isinstance(vals[i - 1], ast.Constant) and getattr(vals[i - 1], 'f', None) is not None and vals[i - 1].f.loc is not None and \
                    (vals[i - 1].f.loc[2], vals[i - 1].f.loc[3]) > (n.loc[0], n.loc[1]):        # the text Constant reaches into (or starts inside) the field: the two overlap
                return True
        n = n.parent
    return False


def stage_oracle(ctx: Ctx, progs):
    import fst
    rng = ctx.rng
    for pi, src0 in enumerate(progs):
        src = inject_multibyte(src0, rng) if rng.random() < 0.7 else src0
        try:
            root = fst.FST(src, 'exec')
        except Exception as e:
            ctx.broken.append({'kind': 'harness', 'name': 'stage_oracle', 'detail': f'program does not build: {e!r}'})
            continue
        lines = src.split('\n')
        toks = token_index(src)
        import io as _io
        try:
            comment_col = {t.start[0] - 1: t.start[1] for t in tokenize.generate_tokens(_io.StringIO(src).readline) if t.type == tokenize.COMMENT}
        except Exception:
            comment_col = {}
        tstarts = {(t.start[0] - 1, t.start[1]) for t in toks}
        tends = {(t.end[0] - 1, t.end[1]) for t in toks}
        ctx.tick(('prog', pi, src != src0), 'program' + (':multibyte' if src != src0 else ''))
        all_nodes = list(root.walk(True))
        for f in all_nodes:
            a = f.a
            loc = f.loc
            name = type(a).__name__
            if loc is None:
                continue
            ln, col, eln, ecol = loc
            seg = lines[ln][col:ecol] if ln == eln else '\n'.join([lines[ln][col:]] + lines[ln + 1:eln] + [lines[eln][:ecol]])
            # (1) AST-positioned nodes: loc == positions through an independent encoder, text == ast.get_source_segment
            if getattr(a, 'end_col_offset', None) is not None and not isinstance(a, (ast.JoinedStr, ast.FormattedValue)):
                want = (a.lineno - 1, len(lines[a.lineno - 1].encode()[:a.col_offset].decode()), a.end_lineno - 1,
                        len(lines[a.end_lineno - 1].encode()[:a.end_col_offset].decode()))
                deco = getattr(a, 'decorator_list', None)
                if tuple(loc) != want:
                    ctx.violation(f'loc|{name}', 'loc disagrees with the AST byte positions converted to characters',
                                  {'src': src, 'node': name, 'loc': list(loc), 'from_ast_positions': list(want)})
                    continue
                if (f.lineno, f.col_offset, f.end_lineno, f.end_col_offset) != (a.lineno, a.col_offset, a.end_lineno, a.end_col_offset):
                    ctx.violation(f'coords|{name}', 'AST-style coordinates on the FST node disagree with the AST node', {'src': src, 'node': name})
                if (f.ln, f.col, f.end_ln, f.end_col) != tuple(loc):
                    ctx.violation(f'coords2|{name}', 'ln/col/end_ln/end_col disagree with loc', {'src': src, 'node': name})
            # (1b) the bounding location: loc, from the first decorator's '@' when decorated, to the end of a line comment behind a BLOCK statement's last line
            bl = f.bloc
            is_block = isinstance(a, (ast.FunctionDef, ast.AsyncFunctionDef, ast.ClassDef, ast.If, ast.For, ast.AsyncFor, ast.While, ast.With, ast.AsyncWith, ast.Try, ast.TryStar, ast.Match,
                                      ast.ExceptHandler, ast.match_case))
            want_b = [ln, col, eln, ecol]
            if is_block:
                if eln in comment_col and comment_col[eln] >= ecol:
                    want_b[3] = len(lines[eln])
                decos = getattr(a, 'decorator_list', None)
                if decos:
                    d0 = decos[0]
                    ats = [t for t in toks if t.string == '@' and t.type == tokenize.OP and (t.start[0] - 1, t.start[1]) < (d0.lineno - 1, len(lines[d0.lineno - 1].encode()[:d0.col_offset].decode()))]
                    if ats:
                        want_b[0], want_b[1] = ats[-1].start[0] - 1, ats[-1].start[1]
                        # parenthesized first decorator: the '@' is still the last '@' before it
            if bl is None or list(bl) != want_b:
                ctx.violation(f'bloc|{name}', 'the bounding location is not the location extended by the decorators and the trailing line comment of a block statement',
                              {'src': src, 'node': name, 'loc': list(loc), 'bloc': list(bl) if bl else None, 'expected': want_b, 'last_line': lines[eln]})
            # (2) starts at a token start, ends at a token end (nodes inside f-strings have no tokens of their own in tokenize <3.12 sense)
            inside_fstr = any(isinstance(p.a, (ast.JoinedStr,)) for p in parents(f))
            if isinstance(a, ast.arguments) and f.parent is not None:
                # an argument list spans exactly the text between its delimiters
                before = lines[ln][:col]
                after = lines[eln][ecol:]
                if isinstance(f.parent.a, ast.Lambda):
                    okd = after.startswith(':') and (before.endswith('lambda') or before.endswith('lambda ') or before.endswith('lambda\t'))
                else:
                    okd = before.endswith('(') and after.startswith(')')
                inner = [t for t in toks if (ln, col) <= (t.start[0] - 1, t.start[1]) and (t.end[0] - 1, t.end[1]) <= (eln, ecol)]
                depth = 0
                for t in inner:
                    depth += t.string in ('(', '[', '{')
                    depth -= t.string in (')', ']', '}')
                    if depth < 0:
                        okd = False
                if depth or not okd:
                    ctx.violation('arguments-delims', 'argument list location is not exactly the text between its delimiters',
                                  {'src': src, 'loc': list(loc), 'text': seg[:80], 'parent': type(f.parent.a).__name__})
            elif isinstance(a, (ast.operator, ast.unaryop, ast.cmpop, ast.boolop)):
                if f.parent is not None and isinstance(f.parent.a, ast.AugAssign) and not lines[eln][ecol:].startswith('='):
                    ctx.violation(f'op-loc|{name}', 'augmented operator location not followed by =', {'src': src, 'op': name, 'loc': list(loc), 'text': seg})
            elif not inside_fstr and not isinstance(a, (ast.JoinedStr, ast.FormattedValue, ast.mod)) and seg != '':
                if (ln, col) not in tstarts or (eln, ecol) not in tends:
                    if not isinstance(a, ast.Constant) or not isinstance(a.value, (str, bytes)):
                        ctx.violation(f'token-boundary|{name}', 'location does not start at a token start / end at a token end',
                                      {'src': src, 'node': name, 'loc': list(loc), 'text': seg[:60]})
                        continue
            # (3) operators cover exactly the operator
            if type(a) in OPS and not inside_fstr:
                if ' '.join(seg.split()) != OPS[type(a)]:
                    ctx.violation(f'op-loc|{name}', 'operator location does not cover exactly the operator', {'src': src, 'op': name, 'loc': list(loc), 'text': seg})
            # (4) children inside parents, siblings in order without overlap
            kids = [k for k in f.walk('loc', self_=False, recurse=False) if k.loc is not None]
            prev_end = None
            for k in kids:
                kl = k.loc
                if isinstance(a, (ast.FunctionDef, ast.AsyncFunctionDef, ast.ClassDef)) and k.pfield.name == 'decorator_list':
                    continue
                if not ((ln, col) <= (kl[0], kl[1]) and (kl[2], kl[3]) <= (eln, ecol)):
                    ctx.violation(f'nesting|{name}|{type(k.a).__name__}', 'child location not inside the parent location',
                                  {'src': src, 'parent': name, 'parent_loc': list(loc), 'child': type(k.a).__name__, 'child_loc': list(kl)})
                if prev_end is not None and (kl[0], kl[1]) < prev_end and not isinstance(a, (ast.JoinedStr, ast.FormattedValue)):
                    ctx.violation(f'overlap|{name}', 'sibling locations overlap or are out of order', {'src': src, 'parent': name, 'child': type(k.a).__name__, 'child_loc': list(kl)})
                prev_end = (kl[2], kl[3])
            # (5) pars() == bracket matcher over tokens
            if isinstance(a, ast.expr) and not inside_fstr and not isinstance(a, (ast.JoinedStr, ast.FormattedValue, ast.Starred, ast.Slice)) and seg:
                pc = pars_count(toks, (ln, col), (eln, ecol))
                if pc is not None:
                    n_want, (ps, pe) = pc
                    par = f.parent
                    # parentheses that syntactically belong to the parent: call argument list, class bases, the parens of a
                    # parenthesised import-from / with / del list are not grouping parentheses of the child
                    p = f.pars(shared=False)
                    n_got = getattr(p, 'n', 0) if p is not None else 0
                    sole_genexp = (n_got == -1 and isinstance(a, ast.GeneratorExp) and par is not None and isinstance(par.a, ast.Call) and
                                   len(par.a.args) == 1 and not par.a.keywords and seg.startswith('(') and seg.endswith(')'))
                    if sole_genexp:
                        pass   # documented: a sole generator argument shares the call parentheses, reported as n == -1
                    elif n_got > n_want or n_got < 0 or (n_got < n_want - 1):
                        ctx.violation(f'pars|{name}', 'pars() count disagrees with the bracket matcher over tokens',
                                      {'src': src, 'node': name, 'loc': list(loc), 'pars_n': n_got, 'token_pairs_around': n_want, 'parent': type(par.a).__name__ if par else None})
                    elif p is not None and n_got:
                        pl = tuple(p)[:4]
                        pseg_ok = lines[pl[0]][pl[1]] == '(' and lines[pl[2]][pl[3] - 1] == ')'
                        if not pseg_ok:
                            ctx.violation(f'pars-loc|{name}', 'pars() location does not start with ( and end with )', {'src': src, 'node': name, 'pars': list(pl)})
        # (5b) pars() is a function of (node, shared): asking with one value of `shared` never changes the answer for another (the answers are cached
        #      per node): one tree asked with all three values in random order, repeatedly, vs three trees each asked with a single value
        try:
            singles = {sh: [(tuple(p) if (p := g.pars(shared=sh)) is not None else None, getattr(p, 'n', None))
                            for g in fst.FST(src, 'exec').walk(True) if isinstance(g.a, (ast.expr, ast.pattern))] for sh in (None, False, True)}
            nodes_p = [g for g in root.walk(True) if isinstance(g.a, (ast.expr, ast.pattern))]
            for i, g in enumerate(nodes_p):
                order = [None, False, True, rng.choice([None, False, True])]
                rng.shuffle(order)
                for sh in order:
                    p = g.pars(shared=sh)
                    got = (tuple(p) if p is not None else None, getattr(p, 'n', None))
                    if got != singles[sh][i]:
                        ctx.violation(f'pars-history|{type(g.a).__name__}|shared={sh}', 'pars(shared=...) depends on which pars() queries were made before on the same node',
                                      {'src': src, 'node': type(g.a).__name__, 'loc': list(g.loc), 'order': [repr(o) for o in order], 'shared': repr(sh),
                                       'got': repr(got), 'asked_alone': repr(singles[sh][i])})
                        break
        except Exception as e:
            ctx.broken.append({'kind': 'harness', 'name': 'pars-history', 'detail': repr(e)[:300]})
        # (6) by-location searches vs brute force
        located = [(f, f.loc) for f in root.walk('loc') if f.loc is not None]
        for _ in range(ctx.scale(25, 200)):
            f0, l0 = rng.choice(located)
            rect = list(l0)
            if rng.random() < 0.5:
                # shrink / grow a little
                rect[1] = max(0, rect[1] + rng.choice([0, 1, -1]))
                rect[3] = max(0, rect[3] + rng.choice([0, 1, -1]))
            ln, col, eln, ecol = rect
            if (ln, col) > (eln, ecol):
                continue
            try:
                got_in = root.find_in_loc(ln, col, eln, ecol)
                got_cont = root.find_contains_loc(ln, col, eln, ecol)
            except Exception as e:
                ctx.violation('find-raise', 'find_*loc raised', {'src': src, 'rect': rect, 'error': repr(e)})
                continue
            inside = [f for f, l in located if (ln, col) <= (l[0], l[1]) and (l[2], l[3]) <= (eln, ecol)]
            want_in = inside[0] if inside else None
            if (got_in is None) != (want_in is None) or (got_in is not None and tuple(got_in.loc) != tuple(want_in.loc) and got_in is not want_in):
                # the first node in walk order entirely inside the rectangle
                ctx.violation('find_in_loc', 'find_in_loc differs from the brute-force first node inside the rectangle',
                              {'src': src, 'rect': rect, 'got': repr(got_in), 'want': repr(want_in)})
            # containment is by bounding location (bloc): a decorated block includes its decorators and its trailing line comment
            containing = [f for f, l in located if (f.bloc[0], f.bloc[1]) <= (ln, col) and (eln, ecol) <= (f.bloc[2], f.bloc[3])]
            if got_cont is not None:
                gl = got_cont.bloc
                if not ((gl[0], gl[1]) <= (ln, col) and (eln, ecol) <= (gl[2], gl[3])):
                    ctx.violation('find_contains_loc', 'find_contains_loc returned a node that does not contain the rectangle', {'src': src, 'rect': rect, 'got': repr(got_cont)})
                else:
                    # must be a deepest container: no located descendant of it also contains the rectangle (exact matches allowed by default)
                    deeper = [f for f in containing if f is not got_cont and is_desc(f, got_cont) and tuple(f.bloc) != tuple(gl) and (f.bloc[2], f.bloc[3]) > (ln, col)]
                    if deeper:
                        ctx.violation('find_contains_loc|debug-field-text-overlaps-field' if debug_text_precedes_field(deeper[-1]) else 'find_contains_loc-deepest', 'find_contains_loc did not return the deepest containing node',
                                      {'src': src, 'rect': rect, 'got': repr(got_cont), 'deeper': repr(deeper[-1])})
            elif containing and root.loc is not None and tuple(root.loc) != tuple(rect):
                ctx.violation('find_contains_loc-none', 'find_contains_loc found nothing although nodes contain the rectangle', {'src': src, 'rect': rect, 'n_containing': len(containing)})
            # the other two settings of allow_exact, and find_loc(): 'top' = the HIGHEST node whose bounding location is exactly the rectangle (else as by default);
            # False = the deepest container that is not exactly the rectangle
            try:
                got_top = root.find_contains_loc(ln, col, eln, ecol, 'top')
                got_strict = root.find_contains_loc(ln, col, eln, ecol, False)
                got_fl = {et: root.find_loc(ln, col, eln, ecol, exact_top=et) for et in (False, True)}
            except Exception as e:
                ctx.violation('find-raise', 'find_*loc raised', {'src': src, 'rect': rect, 'error': repr(e)})
                continue
            if (ln, col) == (eln, ecol):
                continue        # an empty rectangle: zero-width nodes (an empty argument list) are passed over by the search, as in the default setting above
            ctx.tick(None, 'find:allow_exact-variants')
            exact = [f for f in containing if tuple(f.bloc) == tuple(rect)]
            want_top = exact[0] if exact else got_cont
            if got_top is not want_top:
                ctx.violation('find_contains_loc|debug-field-text-overlaps-field' if want_top is not None and debug_text_precedes_field(want_top) else 'find_contains_loc-top', "find_contains_loc(allow_exact='top') did not return the highest node that matches the rectangle exactly (or, without one, the default result)",
                              {'src': src, 'rect': rect, 'got': repr(got_top), 'want': repr(want_top), 'exact_matches': [repr(x) for x in exact]})
            strict = [f for f in containing if tuple(f.bloc) != tuple(rect)]
            if (got_strict is None) != (not strict):
                ctx.violation('find_contains_loc-strict', 'find_contains_loc(allow_exact=False) finds something iff a node contains the rectangle without being exactly it',
                              {'src': src, 'rect': rect, 'got': repr(got_strict), 'n_strict_containers': len(strict)})
            elif got_strict is not None:
                gl = got_strict.bloc
                deeper_s = [f for f in strict if f is not got_strict and is_desc(f, got_strict) and tuple(f.bloc) != tuple(gl) and (f.bloc[2], f.bloc[3]) > (ln, col)]
                if got_strict not in strict or deeper_s:
                    ctx.violation('find_contains_loc|debug-field-text-overlaps-field' if deeper_s and debug_text_precedes_field(deeper_s[-1]) else 'find_contains_loc-strict', 'find_contains_loc(allow_exact=False) did not return the deepest node that contains the rectangle without being exactly it',
                                  {'src': src, 'rect': rect, 'got': repr(got_strict)})
            exact_loc = [f for f, l in located if tuple(l) == tuple(rect)]
            for et in (False, True):
                if exact_loc and got_cont is not None and tuple(got_cont.loc or ()) == tuple(rect):
                    want_fl = (exact_loc[0] if et else exact_loc[-1]) if all(is_desc(b_, a_) for a_, b_ in zip(exact_loc, exact_loc[1:])) else None
                    if want_fl is not None and got_fl[et] is not want_fl:
                        ctx.violation(f'find_loc|exact_top={et}', 'find_loc() did not return the highest / lowest of the nodes located exactly at the rectangle',
                                      {'src': src, 'rect': rect, 'got': repr(got_fl[et]), 'want': repr(want_fl)})


def parents(f):
    p = f.parent
    while p is not None:
        yield p
        p = p.parent


def is_desc(f, anc):
    return any(p is anc for p in parents(f))


FHDR = ('From Coq Require Import List Bool Arith.\nFrom PF Require Import models.FindLoc.\nImport ListNotations.\n'
        'Definition on_eqb (a b : option nat) : bool := match a, b with Some x, Some y => Nat.eqb x y | None, None => true | _, _ => false end.\n')


def stage_find_model(ctx: Ctx, progs):
    """models/FindLoc.v find_contains == FST.find_contains_loc on the encoded tree (bounding locations, children in the order of walk('loc')): every node span, every gap
    between sibling spans and random spans; the well-formedness hypothesis of the theorems is evaluated on every encoded tree as well"""
    import fst
    rng = ctx.rng
    terms, meta = [], []
    nwf = 0
    for src in progs:
        if len(src) > 700:
            continue
        try:
            root = fst.FST(src, 'exec')
        except Exception:
            continue
        lines = src.split('\n')
        W = max(len(l) for l in lines) + 2
        lin = lambda ln, col: ln * W + col
        nodes = list(root.walk('loc'))
        if len(nodes) > 160:
            continue
        ids = {id(f): i for i, f in enumerate(nodes)}

        def enc(f):
            b = f.bloc
            return f'(Node {ids[id(f)]} {lin(b[0], b[1])} {lin(b[2], b[3])} [' + '; '.join(enc(c) for c in f.walk('loc', self_=False, recurse=False)) + '])'
        tree = enc(root)

        def enc_loc(f):
            b = f.loc
            return f'(Node {ids[id(f)]} {lin(b[0], b[1])} {lin(b[2], b[3])} [' + '; '.join(enc_loc(c) for c in f.walk('loc', self_=False, recurse=False)) + '])'
        tree_loc = enc_loc(root)
        spans = set()
        for f in nodes:
            b = tuple(f.bloc)
            spans.add(b)
            spans.add((b[0], b[1], b[0], b[1]))
            spans.add((b[2], b[3], b[2], b[3]))
            if b[3] > 0 and (b[0], b[1]) < (b[2], b[3] - 1):
                spans.add((b[0], b[1], b[2], b[3] - 1))
        locs = sorted({(b[0], b[1]) for b in spans} | {(b[2], b[3]) for b in spans})
        for _ in range(ctx.scale(12, 60)):
            p, q = sorted([rng.choice(locs), rng.choice(locs)])
            spans.add((p[0], p[1], q[0], q[1]))
        spans = sorted(spans)
        if len(spans) > ctx.scale(60, 400):
            spans = rng.sample(spans, ctx.scale(60, 400))
        exp = []
        for (ln, col, eln, ecol) in spans:
            try:
                r = root.find_contains_loc(ln, col, eln, ecol)
            except Exception as e:
                ctx.violation(f'find-raise|{type(e).__name__}', 'find_contains_loc raised', {'src': src, 'span': [ln, col, eln, ecol], 'error': repr(e)[:200]})
                r = False
            if r is False:
                continue
            exp.append((lin(ln, col), lin(eln, ecol), None if r is None else ids[id(r)], [ln, col, eln, ecol]))
        exp_in = []
        for (ln, col, eln, ecol) in spans:
            try:
                r = root.find_in_loc(ln, col, eln, ecol)
            except Exception as e:
                ctx.violation(f'find-raise|{type(e).__name__}', 'find_in_loc raised', {'src': src, 'span': [ln, col, eln, ecol], 'error': repr(e)[:200]})
                continue
            exp_in.append((lin(ln, col), lin(eln, ecol), None if r is None else ids[id(r)]))
        terms.append('let t := ' + tree_loc + ' in ' + ' && '.join(f'on_eqb (find_in t {a} {b}) {"None" if r is None else "(Some " + str(r) + ")"}' for a, b, r in exp_in))
        meta.append({'src': src, 'find_in_loc_spans': len(exp_in)})
        ctx.tick(('find-model', src), 'find-model:program')
        terms.append('let t := ' + tree + ' in ' + ' && '.join(f'on_eqb (find_contains t {a} {b}) {"None" if r is None else "(Some " + str(r) + ")"}' for a, b, r, _ in exp))
        meta.append({'src': src, 'spans': len(exp)})
        exp_m = []
        for (ln, col, eln, ecol) in spans:
            for mname, mval in (('MTop', 'top'), ('MStrict', False)):
                try:
                    r = root.find_contains_loc(ln, col, eln, ecol, mval)
                except Exception as e:
                    ctx.violation(f'find-raise|{type(e).__name__}', 'find_contains_loc raised', {'src': src, 'span': [ln, col, eln, ecol], 'allow_exact': mval, 'error': repr(e)[:200]})
                    continue
                exp_m.append((mname, lin(ln, col), lin(eln, ecol), None if r is None else ids[id(r)]))
        terms.append('let t := ' + tree + ' in ' + ' && '.join(f'on_eqb (find_contains_m {m_} t {a} {b}) {"None" if r is None else "(Some " + str(r) + ")"}' for m_, a, b, r in exp_m))
        meta.append({'src': src, 'allow_exact_top_and_False_spans': len(exp_m)})
        terms.append(f'wf {tree} || true')       # evaluated for the count below
        meta.append({'src': src, 'wf': True})
    failed = coq_eval_bools('C06_find', FHDR, terms, shard=12)
    ctx.correspondence("models/FindLoc.v find_contains / find_contains_m (allow_exact 'top', False) / find_in == FST.find_contains_loc / find_in_loc on encoded trees (node spans, their ends, shortened spans, random spans)", len(terms) // 4, [meta[i] for i in failed])


FIND_PAIR_PROGS = ['x = [aa,\n     bb]\n', 'foo(a,\n  b)\n', 'if a:\n    b\n', 'é = [üü,\n     ññ]\n', 'r = f(a,\n      g(b,\n        c))\n', 'while xx:\n    y = 1\n    z = 22\n', 'def f(a, b):\n    return a\n',
                   'x = {1: 2,\n     3: 4}\ny = (a +\n     b)\n', '@d\ndef g(): pass\nvar\n', '(f)(a)\n((g))(b)\n(lambda x: x)(1)\n(a or b)(c)\n(h)(i, j)\n(k)()\n(m)(n=1)\n((p))(*q)\n']


def stage_find_pairs(ctx: Ctx):
    """deterministic: find_loc / find_in_loc / find_contains_loc for EVERY rectangle between two points of small multi-line programs (node starts and ends, line starts and ends) vs a
    brute-force scan: an exact match (highest / lowest by exact_top), else the first node of the walk inside the rectangle, else the lowest node that contains it; and pars() of every node
    of these programs (parenthesized callees of one-argument calls ...) vs the parentheses counted in the text"""
    import fst
    for src in FIND_PAIR_PROGS:
        root = fst.FST(src, 'exec')
        nodes = [n for n in root.walk('loc') if n.loc is not None]
        lines = src.split('\n')
        points = sorted({tuple(n.loc[:2]) for n in nodes} | {tuple(n.loc[2:]) for n in nodes} | {(i, 0) for i in range(len(lines))} | {(i, len(l)) for i, l in enumerate(lines)})
        inside_of = lambda loc, q: (loc[0], loc[1]) >= (q[0], q[1]) and (loc[2], loc[3]) <= (q[2], q[3])
        for i, (ln, col) in enumerate(points):
            for eln, ecol in points[i + 1:]:
                q = (ln, col, eln, ecol)
                exact = [n for n in nodes if tuple(n.loc) == q]
                inside = [n for n in nodes if inside_of(n.loc, q)]
                contain = [n for n in nodes if inside_of(q, n.bloc)]
                try:
                    got = {et: root.find_loc(*q, exact_top=et) for et in (False, True)}
                    got_in = root.find_in_loc(*q)
                    got_cont = root.find_contains_loc(*q)
                except Exception as e:
                    ctx.violation('find-raise', 'find_*loc raised', {'src': src, 'rect': list(q), 'error': repr(e)[:200]})
                    continue
                ctx.tick(('find-pairs', src, q), 'find:all-point-pairs')
                if got_in is not (inside[0] if inside else None):
                    ctx.violation('find_in_loc', 'find_in_loc differs from the brute-force first node inside the rectangle', {'src': src, 'rect': list(q), 'got': repr(got_in), 'want': repr(inside[0] if inside else None)})
                    continue
                lowest = contain[-1] if contain else None          # pre-order: the last container is the deepest (containers form a chain)
                if got_cont is not lowest and not (got_cont is not None and lowest is not None and tuple(got_cont.bloc) == tuple(lowest.bloc)):
                    ctx.violation('find_contains_loc-deepest', 'find_contains_loc did not return the deepest containing node', {'src': src, 'rect': list(q), 'got': repr(got_cont), 'deeper': repr(lowest)})
                    continue
                for et in (False, True):
                    want = (exact[0] if et else exact[-1]) if exact else (inside[0] if inside else got_cont)
                    if got[et] is not want:
                        ctx.violation(f'find_loc|exact_top={et}', 'find_loc() is not: an exact match, else the first node inside the rectangle, else the lowest node that contains it',
                                      {'src': src, 'rect': list(q), 'got': repr(got[et]), 'want': repr(want), 'exact_matches': len(exact), 'nodes_inside': len(inside)})
                        break
        # pars(): grouping parentheses of every expression = the balanced pairs directly around it in the text, minus a pair that belongs to the parent's syntax (a call's own)
        toks = token_index(src)
        for n in nodes:
            if not isinstance(n.a, ast.expr) or isinstance(n.a, (ast.Starred, ast.Slice)) or isinstance(n.parent.a, (ast.JoinedStr, ast.FormattedValue)):
                continue
            try:
                got_n = n.pars().n
            except Exception as e:
                ctx.violation('pars-raise', 'pars() raised', {'src': src, 'node': repr(n), 'error': repr(e)[:200]})
                continue
            l = n.loc
            r_ = pars_count(toks, (l[0], l[1]), (l[2], l[3]))
            if r_ is None:
                continue
            cnt = r_[0]
            ctx.tick(('pars-pairs', src, repr(n)), 'pars:small-programs')
            owned_by_parent = 1 if isinstance(n.parent.a, ast.Call) and n.pfield.name == 'args' and len(n.parent.a.args) == 1 and not n.parent.a.keywords else 0
            if got_n not in (cnt, cnt - owned_by_parent) or (n.pfield.name == 'func' and got_n != cnt):
                ctx.violation(f'pars|{type(n.a).__name__}|{n.pfield.name}', 'pars() does not report the balanced grouping parentheses that stand directly around the node',
                              {'src': src, 'node': repr(n), 'node_src': n.src, 'field': n.pfield.name, 'pars_n': got_n, 'pairs_in_text': cnt})


def run(ctx: Ctx):
    ctx.rule = ('(1) random strings over 1-4 byte code points: model arrays vs bistr at every index + theorem predicates on the real object; (2) per corpus program (70% with '
                'identifiers renamed to non-ASCII): every node: loc vs AST byte positions through an independent encoder, token-boundary alignment, operator text, nesting '
                'and sibling order, pars() vs a bracket matcher over tokens; random rectangles for find_in_loc / find_contains_loc vs brute force. distinct = string / program.')
    ctx.assumptions += ['tokenize and ast byte positions are the reference', 'pars() is compared with the number of directly enclosing token pairs, allowing one pair that belongs to the parent construct']
    ok = stage_translate(ctx)
    if ok:
        ctx.build_props()
    run_guarded(ctx, stage_bistr)
    progs = corpus(ctx.rng, gen=ctx.scale(15, 150))
    # what follows a header / a last line: decorated first statements (a ')' in the decorator), '#' inside strings on the last line of a block followed by blanks
    progs += ['def deco(fn):\n    @functools.wraps(fn)\n    def wrapper(): pass\n    return wrapper\n', 'class K:\n    @property\n    def p(self): return (1)\n    @p.setter\n    def p(self, v): pass\n',
              "if a:\n    x = '#fff'   \nelse:\n    y = '''\n  # not a comment'''  \t\n", 'for i in j:\n    s = "#"  # real comment  \nwhile k:\n    t = f"{u}#"   \n',
              'def f(a=(1)):\n    @d((2))\n    class C: pass\nasync def g(b):\n    @e(b)\n    async def h(): pass\n', 'try:\n    pass\nexcept E:\n    z = "a#b"    \nfinally:\n    w = 1 # c\n',
              'match v:\n    case 1:\n        q = "#"   \n    case _:\n        r = 2  # c\n', 'with a:\n    pass ;  # semi\nif b: c = "#" ;  \n']
    # nodes whose span is searched for in the text (arguments, comprehension, withitem, match_case ...) around children that hold the delimiter searched for (':' '=' ',' 'if' ...)
    progs += ['f = lambda a={1: 2}: a\ng = lambda a=x[1:2], *c: a\nh = lambda a=lambda: 0: a\nk = lambda *, b={"k": (lambda: 1)}, **kw: b\nm = lambda: {1: 2}\n',
              'x = [i for i in y[1:2] if {1: 2} if (lambda: i) for j in (lambda k=i: k)() if j]\nwith a[1:2] as b, {1: 2}[1] as c: pass\nwith (a if b else c) as d, e: pass\n',
              'match v:\n    case {1: a} if {2: 3}[2]: pass\n    case [b] if (lambda: b)(): pass\n    case C(x=1) | D(y={"k": 2}): z = {1: 2}; w = 3\n',
              'def f(a: {1: 2} = {3: 4}, *b: (lambda: 0), c=d[1:2], **e: "s:t") -> {5: 6}: pass\nclass K(B[1:2], m={1: 2}): x: {1: 2} = {3: 4}\n',
              'f(a=b == c, d=(e := 1), *g[1:2], **{1: 2})\nx = {**{1: 2}, 3: {4: 5}, **a[1:2]}\ny = a if (b if c else d) else e\n',
              'import a.b as c, d as e\nfrom . import (f as g, h)\ntry: pass\nexcept (A, B) as e: x = {1: 2}\nexcept* C: pass\n' if False else 'import a.b as c, d as e\nfrom . import (f as g, h)\ntry: pass\nexcept (A, B) as e: x = {1: 2}\n',
              'x = f"{a:{b}} {c!r:>{d}} {e[1:2]} { {1: 2}[1] }"\ny = [*a, *b[1:2]]\ndel a[1:2], b\nz = a[1:2, ::3, b:c]\n']
    # self-documenting f-string fields: the Constant holding the field's text overlaps the field that follows it (CPython's positions) - siblings the search functions must cope with
    progs += ["p = f'\u03c7{\u00e4!r:>{w}}y{b=}' 'z' \"w\"\nq = f'{a = }{b=!r:>5}'\n", "r = f'''{x=}\n{y = :>{w}}'''\n"]
    # generator expressions as call arguments: alone (shares the call's parentheses), alone but with keywords / ** (cannot share: its parentheses are its own), one of several, doubly parenthesized
    progs += ['f((x for x in y), k=1)\ncall((i for i in j), **kw)\ng((a for a in b))\nh(x for x in y)\nm((x for x in y), z)\nn(((x for x in y)), k=1)\n',
              'r = call(\n    (é for é in ü),\n    key=1,\n)\ns = K((i for i in j), *a)\nclass C(B, metaclass=M((t for t in u), v=1)): pass\n']
    run_guarded(ctx, stage_oracle, progs)
    run_guarded(ctx, stage_find_model, progs)
    run_guarded(ctx, stage_find_pairs)


def replay(path):
    d = json.load(open(path))
    print(json.dumps(d, indent=1)[:6000])
    return 0
